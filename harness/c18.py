"""C18 - the reactor built from blueprints is the reactor the blueprints describe.

Theorems: lean/ArmiVerif/Props/C18.lean about Model/AsciiMap.lean (ascii lattice maps: the text-cell ->
index maps of the three hex variants are injective, Cartesian read/write round trips, the writer is sound
for Cartesian maps) and Model/Blueprint.lean (block stacking with cumulative heights, link resolution over
the component DAG, exact placement).

Tie (every run):
  * ascii maps, both directions, through the real armi.utils.asciimaps classes and Drivers/AsciiMap.lean:
    exhaustive small index sets and small text shapes, hexagons of 1..3 rings with every / sampled hole
    pattern, generated large maps; canonical diff of labels, lines, offsets, slot size, refusals.
  * blueprints: generated YAML documents (component shapes / materials / temperatures / numeric and linked
    dimensions, block and assembly layouts, hex flats-up / corners-up, Cartesian, lattice maps and explicit
    `grid contents`, holes) -> real Blueprints.load + reactors.factory, compared field by field with an
    independent evaluator of the parsed document; the stacking / link / placement sub-computations of that
    evaluator are the Lean model's (Drivers/Blueprint.lean) and are compared with the real objects too.
  * grid blueprints for every supported (geom, symmetry) combination (hex / hex_corners_up x full / third, Cartesian full /
    quarter, with and without through-centre): text map or explicit list -> saveToStream(tryMap) -> load; the saved map must be
    the drawing of the class that READING dispatches to (Lean dispatch / saveLattice / readLattice, function level) and reload
    to the same contents; only drawings the dispatched class itself leaves incomplete count as the known hole findings.
  * repeated block designs (run_stacks): assemblies that stack one design at several axial positions ([refl, fuel, fuel, fuel, refl],
    all the same, alternating, random) with per-position xs types / heights / mesh points / material modifications drawn
    independently, including "everything but one attribute equal"; every block of every assembly against the input at its own
    index (xsType, xsTypeNum, height, mesh, flags, composition). Lean pairBlocks (repeated_design_keeps_own_xs).
  * third-core cores (run_third): first thirds of 2-4 rings with holes, with / without edge assemblies on the 120-degree line,
    and with a location genuinely outside the first third (refused); Lean loadThird / inFirstThird / onOverlapLine.
  * custom isotopics that carry a density (explicit or implied by number densities) on library solids (UZr, UO2, HT9), fluids and
    Custom at Thot = / != Tinput: ComponentBlueprint.construct under both height conventions (hot density = custom / (1+dL/L)^2
    resp. ^3; Lean customDensityHot) and the mass the input text describes at assembly level (default convention).
  * declaration order (run_order): hex blocks with 1-3 nested ducts, liners abutting the clad, wire-wrapped pins that fit or
    exceed the INNER duct, overlapping solids; every permutation of the component declarations must get the same verdict (the one
    the dimensions call for) and the same block (Lean verifyBlockDims, theorem verifyBlockDims_perm).
  * inconsistent documents (unknown specifier, overlapping solids, duplicate names, unequal lists, cyclic
    links) must be refused.
Honest labelling: theorem-backed = ascii-map cell maps and Cartesian round trips, stacking, link DAG,
placement; correspondence-only = hex round trips with holes / truncated corners, component construction
(materials, thermal expansion of linked dimensions), composition after material modifications.
"""
import contextlib
import io
import itertools
import os
import sys

from harness import common
from harness.common import Failure, lean_run

PROP_MODULES = ["ArmiVerif.Props.C18"]
PARTIAL = ("Cartesian maps: the reader is characterised exactly, the writer is proved sound at full strength (drawn completely "
           "or refused) and re-drawing what was read reproduces the text; hex maps: proved = the text-cell -> index maps are "
           "bijections, the reader keeps every token at its computed index, a drawing is complete unless the inferred outline "
           "misses a cell or the reader re-infers other dimensions, and third-core maps of any radius are drawn completely when "
           "the two anchor cells hold data; the full / tips-up WRITE direction for complete maps is correspondence-only "
           "(exhaustive-small + generated) and the hole cases are the known findings; blueprints: stacking, link resolution, placement are proved about the "
           "model, component construction / materials / thermal expansion of linked dimensions / composition after material "
           "modifications and custom isotopics (all three input forms, shared vectors, Custom and library materials) are compared against an independent Python evaluation of the document, not proved")
ASSUMPTIONS = [
    "text splitting (str.strip/splitlines/split) and fixed-width formatting of AsciiMap.__str__ are parameters of the "
    "ascii-map model: tokens are non-empty and contain no whitespace",
    "ruamel/yamlize parsing of the blueprint document is a parameter: the independent evaluator reads the same "
    "generated document structure the YAML text was rendered from",
    "material property correlations (density, thermal expansion) are parameters; compared through the real material objects",
]

KINDS = ("cart", "third", "full", "tips")


def ascii_classes():
    from armi.utils import asciimaps as am
    return {"cart": am.AsciiMapCartesian, "third": am.AsciiMapHexThirdFlatsUp,
            "full": am.AsciiMapHexFullFlatsUp, "tips": am.AsciiMapHexFullTipsUp}


@contextlib.contextmanager
def mute():
    """Silence armi's log handlers (they write to the process-level stdout/stderr)."""
    sys.__stdout__.flush()
    sys.__stderr__.flush()
    keep1, keep2 = os.dup(1), os.dup(2)
    null = os.open(os.devnull, os.O_WRONLY)
    try:
        os.dup2(null, 1)
        os.dup2(null, 2)
        with common.quiet():
            yield
    finally:
        sys.__stdout__.flush()
        sys.__stderr__.flush()
        os.dup2(keep1, 1)
        os.dup2(keep2, 2)
        for fd in (keep1, keep2, null):
            os.close(fd)


# --------------------------------------------------------------------------- ascii maps: implementation side
def show_labels(d):
    return "[" + ",".join(f"{i}:{j}:{t}" for (i, j), t in sorted(d.items())) + "]"


def show_lines(lines):
    return "[" + ",".join("[" + ",".join(l) + "]" for l in lines) + "]"


def render_text(lines, rng=None):
    """Text whose whitespace-separated tokens per line are `lines` (random spacing when rng is given)."""
    out = []
    for l in lines:
        if rng is None:
            out.append(" ".join(l))
        else:
            out.append(" " * rng.randint(0, 3) + (" " * rng.randint(1, 3)).join(l) + " " * rng.randint(0, 2))
    return "\n".join(out) + ("\n" if rng is None or rng.random() < 0.5 else "")


def impl_read(kind, lines, rng=None):
    m = ascii_classes()[kind]()
    try:
        m.readAscii(render_text(lines, rng))
    except Exception:
        return None, "reject"
    s = (f"labels={show_labels(m.asciiLabelByIndices)} offsets=[{','.join(str(o) for o in m.asciiOffsets)}] "
         f"slot={len(m._placeholder)} dims={m._asciiMaxCol},{m._asciiMaxLine},{m._ijMax},{m._asciiLinesOffCorner}")
    return m, s


def impl_write(kind, contents):
    """(canonical answer, text or None, read-back data dict or None)"""
    m = ascii_classes()[kind]()
    m.asciiLabelByIndices = dict(contents)
    try:
        m.gridContentsToAscii()
    except Exception:
        return "reject", None, None
    try:
        text = str(m)
        printable = True
    except Exception:
        text, printable = None, False
    back, backs = None, "reject"
    if printable:
        m2 = ascii_classes()[kind]()
        try:
            m2.readAscii(text)
            back = dict(m2.asciiLabelByIndices)
            backs = show_labels(back)
        except Exception:
            pass
    s = (f"lines={show_lines(m.asciiLines)} offsets=[{','.join(str(o) for o in m.asciiOffsets)}] "
         f"slot={len(m._placeholder)} printable={'T' if printable else 'F'} back={backs}")
    return s, text, back


def data_of(d):
    return {k: v for k, v in d.items() if v != "-"}


# --------------------------------------------------------------------------- ascii maps: incompleteness classes
def hexdist(i, j):
    return max(abs(i), abs(j), abs(i + j))


def _third_base(line):
    if line == 0:
        return 0, 0
    ray, idx = (line - 1) % 3, (line - 1) // 3
    return ((1 - idx, 2 * idx), (-idx, 2 * idx + 1), (1 - idx, 2 * idx + 1))[ray]


def inferred_window(kind, contents):
    """What the documentation of each class says the writer infers from indexed data: (ijMax, cornerLines,
    columns, lines), and for every cell its text position (column, line).  Written from the class doc strings,
    used only to NAME the way an incomplete drawing came about (known-finding classes), never to judge one."""
    keys = list(contents)
    M = max(i + j for i, j in keys)
    if kind == "cart":
        return (M, 0, max(i for i, _ in keys) + 1, max(j for _, j in keys) + 1), {k: k for k in keys}
    if kind == "tips":
        return (M, 0, 2 * M + 1, 2 * M + 1), {(i, j): (i + M, M - i - j) for i, j in keys}
    i0 = [i for i, j in keys if j == 0]
    i1 = [i for i, j in keys if j == 1]
    m0 = max(i0) if i0 else -1
    m1 = max(i1) if i1 else -1
    off = (M - m0) * 2 - 1 + (1 if m1 == m0 - 1 else 0)
    pos = {}
    if kind == "third":
        for i, j in keys:
            line = i + 2 * j
            pos[(i, j)] = (_third_base(line)[1] - j, line) if line >= 0 else (-1, line)
        return (M, off, M + 1, 2 * M + 1 - off), pos
    for i, j in keys:
        l = i + 2 * j + 2 * M
        if l < M:
            bj = -M + l
        else:
            bj = (l - M) // 2
        pos[(i, j)] = (bj - j, l - off)
    return (M, off, M + 1, 4 * M + 1 - 2 * off), pos


def classify_incomplete(kind, contents, text):
    """Name the mechanism by which the writer lost or moved cells (see findings.d/C18.txt):
      outline-inference : the outline (radius / corner cut / first column) inferred from the data assumes a complete
                          map; with holes it is too small and cells lie outside the drawn window;
      reader-reinference: the text is complete but the reader re-infers radius / corner cut from the widest and the
                          last text line (or, tips-up, counts lines from a dropped top row) and lands elsewhere.
    None = neither explains it (a new violation)."""
    data = {k: v for k, v in contents.items() if v != "-"}
    if kind == "cart":
        return None     # fixed in /repo (dd3f3a9): the Cartesian writer refuses index sets not starting at (0, 0)
    try:
        (M, off, ncol, nline), pos = inferred_window(kind, contents)
    except Exception:
        return None
    if any(not (0 <= pos[k][0] < ncol and 0 <= pos[k][1] < nline) for k in data):
        return "outline-inference"
    if text is not None and kind in ("full", "tips"):
        lines = [l.split() for l in text.strip().splitlines()]
        widest = max(len(l) for l in lines)
        if kind == "full" and (widest - 1, len(lines[-1]) - 1) != (M, off):
            return "reader-reinference"
        if kind == "tips" and ((widest - 1) // 2 != M or len(lines) != 2 * M + 1):
            return "reader-reinference"
    return None


# --------------------------------------------------------------------------- ascii maps: generators
def hex_cells(n):
    return [(i, j) for i in range(-n, n + 1) for j in range(-n, n + 1) if hexdist(i, j) <= n]


def third_cells(n):
    from armi.reactor import grids
    g = grids.HexGrid.fromPitch(1.0, numRings=0)
    return [c for c in hex_cells(n) if g.isInFirstThird(g[c[0], c[1], 0])]


def outline(kind, n):
    """All cells of a complete map of `n` rings beyond the centre (n x n box for Cartesian)."""
    if kind == "cart":
        return [(i, j) for i in range(n + 1) for j in range(n + 1)]
    if kind == "third":
        return third_cells(n)
    return hex_cells(n)


LABELS = ["A", "B", "F1", "IC", "x9z"]


_PER_KEY = {}


def fail_few(ctx, key, clause, case, observed=None, expected=None, limit=2):
    """ctx.fail keeps only the first 200 failures: record a couple per key so that no key is ever crowded out."""
    n = _PER_KEY.get((id(ctx), key), 0)
    _PER_KEY[(id(ctx), key)] = n + 1
    if n < limit:
        ctx.fail(key, clause, case, observed, expected)


class Ascii:
    """Collects read / write cases, runs the model once, compares and evaluates the oracle."""

    def __init__(self, ctx):
        self.ctx = ctx
        self.req, self.impl, self.cases = [], [], []

    def write(self, kind, contents, tag, judge=True):
        ctx = self.ctx
        contents = dict(contents)
        if not contents:
            return
        ans, text, back = impl_write(kind, contents)
        if not judge:
            # outside the labels' domain (dash-only labels): model = implementation only, no oracle verdict
            self.req.append(f"write {kind} " + "[" + ",".join(f"{i}:{j}:{t}" for (i, j), t in contents.items()) + "]")
            self.impl.append(ans)
            self.cases.append({"kind": kind, "contents": show_labels(contents), "tag": tag})
            ctx.case(("w", kind, tuple(sorted(contents.items()))), nontrivial=True)
            ctx.count(f"ascii write, labels outside the domain ({kind})")
            return
        self.req.append(f"write {kind} " + "[" + ",".join(f"{i}:{j}:{t}" for (i, j), t in contents.items()) + "]")
        self.impl.append(ans)
        case = {"kind": kind, "contents": show_labels(contents), "tag": tag}
        self.cases.append(case)
        data = data_of(contents)
        if ans == "reject" or text is None:
            ctx.count(f"ascii write refused ({kind})")
            outcome = "refused"
        elif back is None:
            fail_few(ctx, f"ascii-own-text-unreadable:{kind}", "indexed contents are drawn as text that reads back to them or refused",
                     case, observed=text)
            outcome = "bad"
        elif data_of(back) != data:
            mech = classify_incomplete(kind, contents, text)
            fail_few(ctx, f"ascii-incomplete:{kind}:{mech or 'unexplained'}",
                     "indexed contents are either drawn as text that reads back to them or refused, never drawn incompletely",
                     case, observed={"text": text, "reads back as": show_labels(data_of(back))}, expected=show_labels(data))
            ctx.count(f"ascii write incomplete ({kind}, {mech or 'unexplained'})")
            outcome = "bad"
        else:
            ctx.count(f"ascii write complete ({kind})")
            outcome = "ok"
        ctx.case(("w", kind, tuple(sorted(contents.items()))), nontrivial=True,
                 sample={"write": case, "text": text} if outcome == "ok" and len(contents) > 5 else None)
        return outcome, text

    def read(self, kind, lines, tag, rng=None):
        ctx = self.ctx
        if not lines or not lines[0] or not lines[-1]:
            return
        m, ans = impl_read(kind, lines, rng)
        self.req.append(f"read {kind} {show_lines(lines)}")
        self.impl.append(ans)
        case = {"kind": kind, "lines": show_lines(lines), "tag": tag}
        self.cases.append(case)
        ctx.case(("r", kind, tuple(tuple(l) for l in lines)), nontrivial=True)
        if m is None:
            ctx.count(f"ascii read refused ({kind})")
            return
        ctx.count(f"ascii read ({kind})")
        # oracle: read -> write -> read gives the same indexed contents
        data = data_of(m.asciiLabelByIndices)
        if not data:
            return
        ans2, text2, back2 = impl_write(kind, data)
        if ans2 == "reject" or text2 is None:
            ctx.count(f"ascii read->write refused ({kind})")
            return
        if back2 is None or data_of(back2) != data:
            mech = classify_incomplete(kind, data, text2)
            fail_few(ctx, f"ascii-incomplete:{kind}:{mech or 'unexplained'}",
                     "a lattice map read from text, written and read again gives the same indexed contents", case,
                     observed={"rewritten": text2, "reads back as": None if back2 is None else show_labels(data_of(back2))},
                     expected=show_labels(data))

    def flush(self, what):
        if not self.req:
            return
        out = lean_run("AsciiMap", self.req)
        for r, i, c, o in zip(self.req, self.impl, self.cases, out):
            if o == "bad-op":
                raise common.Infra(f"AsciiMap driver: bad-op for {r[:200]}")
            if o != i:
                self.ctx.disagree(what, c, o[:800], i[:800])
        self.ctx.count(f"model lines ({what})", len(self.req))
        self.req, self.impl, self.cases = [], [], []


def run_ascii(ctx):
    rng = ctx.rng
    A = Ascii(ctx)
    # --- G1: small index sets, every kind (exhaustive up to size 2 in a 5x5 box, sampled beyond)
    box = [(i, j) for i in range(-2, 3) for j in range(-2, 3)]
    for kind in KINDS:
        for r in (1, 2):
            for cells in itertools.combinations(box, r):
                A.write(kind, {c: "A" for c in cells}, "box-exhaustive")
        for _ in range(ctx.pick(400, 6000)):
            cells = rng.sample(box, rng.randint(3, 9))
            A.write(kind, {c: rng.choice(LABELS) for c in cells}, "box-sampled")
        # labels that are runs of dashes are outside the domain (the writer's regex takes them for placeholders):
        # correspondence only
        for _ in range(ctx.pick(150, 1500)):
            cells = rng.sample([c for c in box if c[0] >= -1 and c[1] >= -1], rng.randint(1, 6))
            A.write(kind, {c: rng.choice(["--", "-", "A", "---", "B"]) for c in cells}, "dash-labels", judge=False)
    A.flush("AsciiMap model vs asciimaps (small index sets)")
    # --- G2: complete outlines with every hole pattern (<= 2 rings, 2 labels) and sampled (3 rings)
    for kind in KINDS:
        for n in (1, 2):
            cells = outline(kind, n)
            if len(cells) <= 9:
                for mask in itertools.product((None, "A", "B"), repeat=len(cells)):
                    A.write(kind, {c: v for c, v in zip(cells, mask) if v}, f"holes-exhaustive-{n}")
            else:
                for mask in itertools.product((None, "A"), repeat=len(cells)):
                    if rng.random() < ctx.pick(0.02, 0.5):
                        A.write(kind, {c: v for c, v in zip(cells, mask) if v}, f"holes-sampled-{n}")
        cells = outline(kind, 3)
        for _ in range(ctx.pick(300, 5000)):
            p = rng.choice([0.05, 0.15, 0.3, 0.6])
            A.write(kind, {c: rng.choice(LABELS) for c in cells if rng.random() > p}, "holes-sampled-3")
    ctx.extra["exhaustive_substreams"] = ("index sets of size <= 2 in the 5x5 box for all four classes; every hole pattern with 2 labels of the "
                                          "outlines with <= 9 cells (1-ring hexagons, 2-ring third core, 2x2 and 3x3 Cartesian); text shapes of <= 3 lines x <= 3 tokens (shapes exhaustive, tokens sampled)")
    A.flush("AsciiMap model vs asciimaps (outlines with holes)")
    # --- G3 / G4: complete maps of 1..N rings, truncated corners, a few holes; both directions
    for kind in KINDS:
        for n in range(0, ctx.pick(8, 14)):
            cells = outline(kind, n)
            full = {c: rng.choice(LABELS) for c in cells}
            res = A.write(kind, full, f"complete-{n}")
            if kind == "third":
                # the hypotheses of third_write_read_id_partial, evaluated on armi's own complete third-core outline
                hyp = (all(i <= n and i + j <= n and j <= n and i + 2 * j >= 0 and _third_base(i + 2 * j)[0] <= i for i, j in cells)
                       and (n, 0) in full and (n == 0 or (n - 1, 1) in full) and (n != 0 or all(j != 1 for _, j in cells)))
                ctx.count("complete third-core outlines satisfying the hypotheses of third_write_read_id_partial" if hyp else
                          "complete third-core outlines OUTSIDE the hypotheses of third_write_read_id_partial")
            if kind in ("full", "tips"):
                hexok = all(-n <= i <= n and -n <= j <= n and -n <= i + j <= n for i, j in cells)
                anchors = [(n, 0), (n, -n)] + ([(0, -n)] + ([(n - 1, 1)] if n >= 1 else []) if kind == "full" else [])
                hyp = hexok and all(c in full for c in anchors)
                ctx.count(f"complete {kind} outlines satisfying the hypotheses of {kind}_write_read_id_partial" if hyp else
                          f"complete {kind} outlines OUTSIDE the hypotheses of {kind}_write_read_id_partial")
            if res and res[0] != "ok":
                ctx.fail(f"ascii-complete-map-not-drawn:{kind}", "a complete map without holes is drawn and reads back", {"kind": kind, "rings": n})
            if res and res[1]:
                A.read(kind, [l.split() for l in res[1].strip().splitlines()], f"complete-{n}", rng)
            if kind in ("third", "full") and n >= 3:
                # corner truncation as in real core maps: drop the outermost cells next to the six corners
                for cut in (1, 2):
                    keep = {c: v for c, v in full.items() if not (hexdist(*c) == n and min(abs(c[0]), abs(c[1]), abs(c[0] + c[1])) < cut)}
                    r2 = A.write(kind, keep, f"truncated-{n}-{cut}")
                    if r2 and r2[1]:
                        A.read(kind, [l.split() for l in r2[1].strip().splitlines()], f"truncated-{n}-{cut}", rng)
            for _ in range(ctx.pick(2, 10)):
                holes = {c: v for c, v in full.items() if rng.random() > 0.1}
                A.write(kind, holes, f"few-holes-{n}")
    A.flush("AsciiMap model vs asciimaps (complete / truncated / large maps)")
    # --- G5: text shapes: exhaustive small, empty interior rows, placeholder rows, rings 0 and 2 only
    alphabet = ("A", "-")
    for kind in KINDS:
        for nlines in (1, 2, 3):
            for lens in itertools.product(range(0, 4), repeat=nlines):
                if lens[0] == 0 or lens[-1] == 0:
                    continue
                ntok = sum(lens)
                combos = list(itertools.product(alphabet, repeat=ntok))
                if len(combos) > ctx.pick(16, 128):
                    combos = rng.sample(combos, ctx.pick(16, 128))
                for toks in combos:
                    it = iter(toks)
                    A.read(kind, [[next(it) for _ in range(n)] for n in lens], "shapes-exhaustive")
        for _ in range(ctx.pick(200, 3000)):
            nl = rng.randint(1, 9)
            lines = [[rng.choice(LABELS + ["-", "-"]) for _ in range(rng.randint(0 if 0 < k < nl - 1 else 1, 7))] for k in range(nl)]
            A.read(kind, lines, "shapes-sampled", rng)
    # explicit scenario classes: a completely empty interior row, empty trailing rows, rings 0 and 2 only
    A.read("cart", [["A", "B"], ["-", "-"], ["C", "D"]], "cart-empty-interior-row")
    A.read("cart", [["-", "-"], ["A", "B"]], "cart-empty-top-row")
    A.read("cart", [["A", "B"], ["-", "-"]], "cart-empty-bottom-row")
    A.write("cart", {(0, 0): "A", (1, 0): "B", (0, 2): "C", (1, 2): "D"}, "cart-empty-interior-row")
    for kind in ("tips", "full"):
        ring02 = {c: "P" for c in hex_cells(2) if hexdist(*c) in (0, 2)}
        A.write(kind, ring02, "rings-0-and-2-only")
        ring2 = {c: "P" for c in hex_cells(2) if hexdist(*c) == 2}
        A.write(kind, ring2, "ring-2-only")
    A.flush("AsciiMap model vs asciimaps (text shapes)")


# =========================================================================== blueprints
SPECS = ["A1", "B2", "C3"]
ANCHOR_KEYS = ("id", "od", "ip", "op", "mult", "lengthInner", "lengthOuter", "widthInner", "widthOuter")
KINDS_BAD = ["unknown-specifier", "unequal-heights", "unequal-xs", "unequal-mesh", "unequal-matmod", "cyclic-link",
             "unknown-link-target", "overlapping-solids", "solids-exceed-block", "duplicate-component", "duplicate-block-name",
             "duplicate-specifier", "duplicate-grid-location", "conflicting-mult",
             "matmod-bycomponent-long", "matmod-bycomponent-short", "matmod-both-bycomponent-long", "matmod-both-byblock-short",
             "overlap-liquid-cold", "overlap-solid-cold", "overlap-solid-hot"]


def make_overlap(doc, material, mode):
    """Fuel and clad overlap, seen through the component LINKED between them (`id: fuel.od, od: clad.id`):
    cold = the cold fuel OD is larger than the cold clad ID; hot = they only meet after the fuel's thermal expansion."""
    doc["anchors"] = False
    for blk in doc["blocks"].values():
        blk["fuel"].update(material="UZr", Tinput=25.0, Thot=600.0)
        blk["clad"].update(Tinput=25.0, Thot=25.0)
        keep = {k: blk["bond"][k] for k in ("mult", "latticeIDs") if k in blk["bond"]}
        if isinstance(keep.get("mult"), str):
            keep["mult"] = "fuel.mult"
        blk["bond"] = dict(shape="Circle", material=material, Tinput=25.0, Thot=25.0, id="fuel.od", od="clad.id", **keep)
        fod = blk["fuel"]["od"]
        blk["clad"]["id"] = round(fod - 0.05, 4) if mode == "cold" else round(fod * 1.002, 5)
        blk["clad"]["od"] = round(blk["clad"]["id"] + 0.1, 4)
    for a in doc["assems"].values():
        a.pop("matmods", None)
BLOCK_WORDS = ["fuel", "shield", "reflector", "plenum", "duct", "control", "grid plate", "shield block", "load pad", "gap1"]
NUCLIDE_FLAGS = """nuclide flags:
    U235: {burn: false, xs: true}
    U238: {burn: false, xs: true}
    ZR: {burn: false, xs: true}
    NA: {burn: false, xs: true}
    FE: {burn: false, xs: true}
    CR: {burn: false, xs: true}
    NI: {burn: false, xs: true}
    MO: {burn: false, xs: true}
    MN: {burn: false, xs: true}
    V: {burn: false, xs: true}
    W: {burn: false, xs: true}
    C: {burn: false, xs: true}
    SI: {burn: false, xs: true}
    PB: {burn: false, xs: true}
"""


def gen_doc(rng, geom=None, force_pin=None, cart_force=None):
    """A random well-formed blueprint document as a plain structure (rendered to YAML by to_yaml)."""
    geom = geom or rng.choice(["hex", "hex", "hex_corners_up", "cartesian"])
    cart = geom == "cartesian"
    nbd = rng.randint(1, 3)
    blocks = {}
    pingrids, blockgrid, blockflags = {}, {}, {}
    # every assembly of a core must have the same outer dimensions (input checker): fixed per document
    ip = rng.randint(1200, 1600) / 100.0
    op = ip + rng.randint(30, 80) / 100.0
    has_inter = rng.random() < 0.5
    anchors = rng.random() < 0.35
    duct_tin = rng.choice([20.0, 25.0])
    duct_thot = rng.choice([duct_tin, 450.0])      # blocks of an assembly must have equal (hot) areas
    for bi in range(nbd):
        word = rng.choice(BLOCK_WORDS)
        name = word if bi == 0 else f"{rng.choice(['lower', 'upper', 'inner', 'outer'])} {word} {bi}" if rng.random() < 0.5 else f"{word} {bi}"
        if name in blocks:
            name = f"{name} x{bi}"
        npins = rng.choice([1, 7, 19, 37, 61])
        fod = rng.randint(40, 80) / 100.0
        gap = rng.randint(0, 5) / 100.0
        if anchors and rng.random() < 0.5:
            gap = 0.0          # fuel.od == bond.id == bond.od == clad.id: one anchor reused three times
        cth = rng.randint(3, 8) / 100.0
        tin = rng.choice([20.0, 25.0])
        comps = {}
        comps["fuel"] = dict(shape="Circle", material=rng.choice(["UZr", "UZr", "HT9"]), Tinput=tin,
                             Thot=rng.choice([tin, 400.0, 600.0]), id=0.0, od=fod, mult=float(npins))
        link_bond = rng.random() < 0.7 and not anchors
        cid = round(fod + 2 * gap, 4)
        comps["bond"] = dict(shape="Circle", material="Sodium", Tinput=450.0, Thot=450.0,
                             id=("fuel.od" if link_bond else fod), od=("clad.id" if link_bond else cid), mult="fuel.mult")
        comps["clad"] = dict(shape="Circle", material="HT9", Tinput=tin, Thot=rng.choice([tin, 450.0]),
                             id=cid, od=round(cid + 2 * cth, 4), mult=("bond.mult" if rng.random() < 0.3 else "fuel.mult"))
        if anchors:
            comps["bond"]["mult"] = comps["clad"]["mult"] = float(npins)     # rendered as aliases of the fuel's anchor
        comps["coolant"] = dict(shape="DerivedShape", material="Sodium", Tinput=450.0, Thot=450.0)
        if cart:
            comps["duct"] = dict(shape="Rectangle", material="HT9", Tinput=duct_tin, Thot=duct_thot,
                                 lengthInner=ip, lengthOuter=op, widthInner=ip, widthOuter=op, mult=1.0)
            if has_inter:
                comps["intercoolant"] = dict(shape="Rectangle", material="Sodium", Tinput=450.0, Thot=450.0,
                                             lengthInner="duct.lengthOuter", lengthOuter=round(op + 0.2, 2),
                                             widthInner="duct.widthOuter", widthOuter=round(op + 0.2, 2), mult=1.0)
        else:
            comps["duct"] = dict(shape="Hexagon", material="HT9", Tinput=duct_tin, Thot=duct_thot, ip=ip, op=op, mult=1.0)
            if has_inter:
                comps["intercoolant"] = dict(shape="Hexagon", material="Sodium", Tinput=450.0, Thot=450.0,
                                             ip="duct.op", op=round(op + 0.2, 2), mult=1.0)
        # explicit `flags:` entries REPLACE the flags derived from the name: rename the design so that its name carries a
        # flag word (TEST / UPPER) that the explicit entry does not repeat; components likewise (bond -> gap, duct + structure)
        if rng.random() < 0.35:
            explicit = " ".join(w for w in name.split() if w.isalpha() and w not in ("lower", "upper", "inner", "outer")) or "fuel"
            name = f"{rng.choice(['test', 'upper'])} {name}"
            blockflags[name] = explicit
        if rng.random() < 0.3:
            comps["bond"]["flags"] = "gap"
        if rng.random() < 0.3:
            comps["duct"]["flags"] = "duct structure"
        blocks[name] = comps
        # pin lattice: the block names a grid, pin components name lattice ids and learn their multiplicity from it
        if geom == "hex" and (rng.random() < 0.4 or (force_pin and bi == 0)):
            rings_p = rng.choice([1, 2, 3])
            pcells = hex_cells(rings_p)
            ids = {c: (1 if c == (0, 0) or rng.random() < 0.8 else 2) for c in pcells}
            gname = f"pins{bi}"
            pingrids[gname] = dict(cells=ids, use_map=rng.random() < 0.6, quoted=rng.random() < 0.5)
            if force_pin == "int-list" and bi == 0:
                pingrids[gname].update(use_map=False, quoted=False)   # explicit list with YAML integer specifiers
            elif force_pin == "map" and bi == 0:
                pingrids[gname].update(use_map=True)
            blockgrid[name] = gname
            for cn, lids in (("fuel", [1]), ("bond", [1]), ("clad", [1, 2])):
                comps[cn].pop("mult", None)
                comps[cn]["latticeIDs"] = lids
    bnames = list(blocks)
    nb = rng.randint(1, 4)
    heights = [rng.randint(20, 160) / 4.0 for _ in range(nb)]
    assems = {}
    for ai in range(rng.randint(1, 3)):
        bl = [rng.choice(bnames) for _ in range(nb)]
        a = dict(specifier=SPECS[ai], blocks=bl, height=list(heights), mesh=[rng.randint(1, 3) for _ in range(nb)],
                 xs=[rng.choice("ABCD") for _ in range(nb)])
        # material modifications: zeros, "" placeholders and non-zero values, by block and by component
        if rng.random() < 0.6:
            mm = {}
            def col():
                return [rng.choice([0.0, "", 0.1, 0.25, 0.5, 1.0]) for _ in range(nb)]
            if rng.random() < 0.8:
                mm["U235_wt_frac"] = col()
            if rng.random() < 0.6:
                mm["ZR_wt_frac"] = [rng.choice([0.0, "", 0.06, 0.1, 0.2]) for _ in range(nb)]
            if rng.random() < 0.5:
                mm["by component"] = {"fuel": {rng.choice(["U235_wt_frac", "ZR_wt_frac"]): [rng.choice([0.0, "", 0.15, 0.3]) for _ in range(nb)]}}
            # a modification is only legal where the block's fuel material takes it: placeholders elsewhere
            for key, colv in list(mm.items()):
                cols = [colv] if key != "by component" else list(colv["fuel"].values())
                for cvals in cols:
                    for k, bname in enumerate(bl):
                        if blocks[bname]["fuel"]["material"] != "UZr":
                            cvals[k] = ""
            a["matmods"] = mm
        assems[f"assem_{ai}"] = a
    specs = [a["specifier"] for a in assems.values()]
    symmetry = "full"
    cart_shape = None
    if cart:
        n = rng.randint(1, 6)
        m = rng.randint(1, 6)
        # a completely blank EDGE column or row of placeholders (the centring offset comes from the whole text's extent)
        blank = rng.choice([None, "left", "right", "top", "bottom"])
        if cart_force:
            n, m, blank = cart_force
        if blank in ("left", "right") and n < 2 or blank in ("top", "bottom") and m < 2:
            blank = None
        dropped = {"left": lambda c: c[0] == 0, "right": lambda c: c[0] == n - 1, "bottom": lambda c: c[1] == 0,
                   "top": lambda c: c[1] == m - 1}.get(blank, lambda c: False)
        cells = [(i, j) for i in range(n) for j in range(m) if not dropped((i, j))]
        contents = {c: rng.choice(specs) for c in cells}
        use_map = True
        cart_shape = (n, m, blank)
    else:
        rings = rng.randint(0, 3)
        if geom == "hex" and rng.random() < 0.35:
            symmetry = "third periodic"
            cells = third_cells(rings)
        else:
            cells = hex_cells(rings)
        p = rng.choice([0.0, 0.0, 0.15])
        contents = {c: rng.choice(specs) for c in cells if (c == (0, 0) or rng.random() >= p)}
        use_map = rng.random() < 0.6
    return dict(blocks=blocks, assems=assems, contents=contents, geom=geom, symmetry=symmetry, use_map=use_map,
                pingrids=pingrids, blockgrid=blockgrid, blockflags=blockflags, cart_shape=cart_shape, anchors=anchors)


def map_kind(doc):
    if doc["geom"] == "cartesian":
        return "cart"
    if doc["geom"] == "hex_corners_up":
        return "tips"
    return "third" if doc["symmetry"].startswith("third") else "full"


def lattice_text(doc):
    """A lattice map text for the document's contents (only when the real writer draws it completely; the text
    is merely an input - its independent reading is the Lean ascii model's)."""
    kind = map_kind(doc)
    if kind == "tips" and doc["symmetry"] != "full":
        return None
    contents = doc["contents"]
    if kind == "cart" and doc.get("cart_shape"):
        # written out by hand, top row first, placeholders where the map is blank
        n, m, _blank = doc["cart_shape"]
        return "\n".join(" ".join(contents.get((i, j), "-") for i in range(n)) for j in reversed(range(m))) + "\n"
    ans, text, back = impl_write(kind, contents)
    if text is None or back is None or data_of(back) != contents:
        return None
    return text


def to_yaml(doc, text_map=None, mutate=None):
    out = [NUCLIDE_FLAGS.rstrip("\n"), "blocks:"]
    idx = {}
    for bi, (bn, comps) in enumerate(doc["blocks"].items()):
        idx[bn] = bi
        out.append(f"    {bn}: &blk{bi}")
        if bn in doc.get("blockgrid", {}):
            out.append(f"        grid name: {doc['blockgrid'][bn]}")
        if bn in doc.get("blockflags", {}):
            out.append(f"        flags: {doc['blockflags'][bn]}")
        table = {}
        for cn, c in comps.items():
            out.append(f"        {cn}:")
            for k, v in c.items():
                if doc.get("anchors") and k in ANCHOR_KEYS and isinstance(v, (int, float)) and not isinstance(v, bool):
                    # YAML anchors / aliases on dimensions and mult: first use defines, equal values later refer to it
                    key = repr(float(v))
                    if key in table:
                        out.append(f"            {k}: *{table[key]}")
                    else:
                        table[key] = f"b{bi}n{len(table)}"
                        out.append(f"            {k}: &{table[key]} {v}")
                else:
                    out.append(f"            {k}: {v}")
            if mutate == "duplicate-component" and cn == "clad":
                out.append(f"        {cn}:")
                for k, v in c.items():
                    out.append(f"            {k}: {v}")
    if mutate == "duplicate-block-name":
        bn, comps = list(doc["blocks"].items())[0]
        out.append(f"    {bn}: &blkdup")
        out.append("        fuel:")
        for k, v in comps["fuel"].items():
            out.append(f"            {k}: {v}")
    out.append("assemblies:")
    if mutate == "duplicate-specifier":
        an0, a0 = list(doc["assems"].items())[0]
        out.append("    shadow:")
        out.append(f"        specifier: {a0['specifier']}")
        out.append("        blocks: [" + ", ".join(f"*blk{idx[b]}" for b in reversed(a0["blocks"])) + "]")
        out.append(f"        height: {a0['height']}")
        out.append(f"        axial mesh points: {a0['mesh']}")
        out.append(f"        xs types: {a0['xs']}")
    for an, a in doc["assems"].items():
        out.append(f"    {an}:")
        out.append(f"        specifier: {a['specifier']}")
        out.append("        blocks: [" + ", ".join(f"*blk{idx[b]}" for b in a["blocks"]) + "]")
        if doc.get("anchors") and mutate is None:
            first_a = an == list(doc["assems"])[0]
            if first_a:
                seen, items = {}, []
                for h in a["height"]:
                    if repr(h) in seen:
                        items.append(f"*{seen[repr(h)]}")
                    else:
                        seen[repr(h)] = f"h{len(seen)}"
                        items.append(f"&{seen[repr(h)]} {h}")
                out.append("        height: &hts [" + ", ".join(items) + "]")
            elif a["height"] == list(doc["assems"].values())[0]["height"]:
                out.append("        height: *hts")          # the whole list by alias (only when it IS the same list)
            else:
                out.append(f"        height: {a['height']}")
            seenx, itemsx = {}, []
            for x in a["xs"]:
                if x in seenx:
                    itemsx.append(f"*{seenx[x]}")
                else:
                    seenx[x] = f"x{an[-1]}{len(seenx)}"
                    itemsx.append(f"&{seenx[x]} {x}")
            out.append("        xs types: [" + ", ".join(itemsx) + "]")
        else:
            out.append(f"        height: {a['height']}")
            out.append(f"        xs types: {a['xs']}")
        out.append(f"        axial mesh points: {a['mesh']}")
        mm = a.get("matmods")
        if mm:
            out.append("        material modifications:")
            for k, v in mm.items():
                if k == "by component":
                    out.append("            by component:")
                    for cn, d in v.items():
                        out.append(f"                {cn}:")
                        for kk, vv in d.items():
                            out.append(f"                    {kk}: [" + ", ".join("''" if x == "" else str(x) for x in vv) + "]")
                else:
                    out.append(f"            {k}: [" + ", ".join("''" if x == "" else str(x) for x in v) + "]")
    out.append("systems:\n    core:\n        grid name: core\n        origin:\n            x: 0.0\n            y: 0.0\n            z: 0.0")
    out.append(f"grids:\n    core:\n        geom: {doc['geom']}\n        symmetry: {doc['symmetry']}")
    if doc["geom"] == "cartesian":
        out.append("        lattice pitch:\n            x: 20.0\n            y: 20.0")
    if text_map is not None:
        out.append("        lattice map: |4")
        for line in text_map.rstrip("\n").split("\n"):
            out.append("            " + line)
    else:
        out.append("        grid contents:")
        for (i, j), s in doc["contents"].items():
            out.append(f"            ? - {i}\n              - {j}\n            : {s}")
        if mutate == "duplicate-grid-location":
            (i, j), s = list(doc["contents"].items())[0]
            out.append(f"            ? - {i}\n              - {j}\n            : {s}")
    for gname, pg in doc.get("pingrids", {}).items():
        out.append(f"    {gname}:\n        geom: hex_corners_up\n        symmetry: full")
        text = pin_map_text(pg) if pg["use_map"] else None
        if text is not None:
            out.append("        lattice map: |4")
            for line in text.rstrip("\n").split("\n"):
                out.append("            " + line)
        else:
            out.append("        grid contents:")
            for (i, j), s in pg["cells"].items():
                out.append(f"            ? - {i}\n              - {j}\n            : " + (f"'{s}'" if pg.get("quoted", True) else f"{s}"))
    return "\n".join(out) + "\n"


def pin_map_text(pg):
    """tips-up text of a complete pin hexagon (written by the real class, read independently by the Lean model)"""
    cont = {c: str(v) for c, v in pg["cells"].items()}
    ans, text, back = impl_write("tips", cont)
    if text is None or back is None or data_of(back) != cont:
        return None
    return text


def pin_cells(pg):
    """Independent reading of a pin grid: explicit list as is, text map through the Lean ascii model."""
    text = pin_map_text(pg) if pg["use_map"] else None
    if text is None:
        return {c: str(v) for c, v in pg["cells"].items()}
    lines = [l.split() for l in text.strip().splitlines()]
    out = lean_run("AsciiMap", [f"read tips {show_lines(lines)}"])[0]
    lab = out.split(" ")[0][len("labels=["):-1]
    cells = {}
    for item in lab.split(","):
        i, j, t = item.split(":")
        if t != "-":
            cells[(int(i), int(j))] = t
    return cells


def known_flags():
    from armi.reactor.flags import Flags
    return sorted(n for n in dir(Flags) if n.isupper() and isinstance(getattr(Flags, n), Flags))


def flag_words(f):
    from armi.reactor.flags import Flags
    return sorted(Flags.toString(f).split()) if int(f) else []


def tilde(s):
    return s.replace(" ", "~")


PHRASES = [("GRID PLATE", ["GRID_PLATE"]), ("GRID", ["GRID_PLATE"]), ("INLET NOZZLE", ["INLET_NOZZLE"]), ("NOZZLE", ["INLET_NOZZLE"]),
           ("LOAD PAD", ["LOAD_PAD"]), ("HANDLING SOCKET", ["HANDLING_SOCKET"]), ("GUIDE TUBE", ["GUIDE_TUBE"]),
           ("FISSION CHAMBER", ["FISSION_CHAMBER"]), ("SOCKET", ["HANDLING_SOCKET"]), ("SHIELD BLOCK", ["SHIELD_BLOCK"]),
           ("SHIELDBLOCK", ["SHIELD_BLOCK"]), ("CORE BARREL", ["CORE_BARREL"]), ("INNERDUCT", ["INNER", "DUCT"]),
           ("GAP1", ["GAP", "A"]), ("GAP2", ["GAP", "B"]), ("GAP3", ["GAP", "C"]), ("GAP4", ["GAP", "D"]), ("GAP5", ["GAP", "E"]),
           ("LINER1", ["LINER", "A"]), ("LINER2", ["LINER", "B"])]


def flags_of_name(name):
    """Independent reading of 'flags from names' (the documented rule): multi-word phrases / aliases first, then every
    word that names a flag, exactly or after dropping its digits, contributes it; other words are ignored."""
    from armi.reactor.flags import Flags
    f = Flags(0)
    words = name.upper().split()
    for phrase, fl in PHRASES:
        ph = phrase.split()
        k, hit = 0, False
        while k + len(ph) <= len(words):
            if words[k:k + len(ph)] == ph:
                del words[k:k + len(ph)]
                hit = True
            else:
                k += 1
        if hit:
            for x in fl:
                f |= Flags[x]
    for w in words:
        for cand in (w, "".join(ch for ch in w if not ch.isdigit())):
            if cand:
                try:
                    f |= Flags[cand]
                    break
                except KeyError:
                    pass
    return f


def expected_massfrac(material, mods):
    """Independent composition of the generated fuel materials from the modification values in the text."""
    if material != "UZr":
        return None
    z = mods.get("ZR_wt_frac", 0.10)
    e = mods.get("U235_wt_frac", 0.10)
    return {"ZR": z, "U235": e * (1.0 - z), "U238": (1.0 - e) * (1.0 - z)}


def eval_doc(doc, contents):
    """The independent reading: per location the assembly design, per block its type / height / elevations
    (elevations from the Lean model), xs type, flags, per component the document's fields."""
    by_spec = {a["specifier"]: (an, a) for an, a in doc["assems"].items()}
    return {loc: by_spec.get(spec) for loc, spec in contents.items()}


def mods_for(a, k, comp_name):
    """material modifications applying to component `comp_name` of block index k of assembly design a:
    "" entries are not applied, by-component entries override by-block ones (text of the input docs)."""
    mm = a.get("matmods") or {}
    out = {}
    for key, col in mm.items():
        if key == "by component":
            continue
        if col[k] != "" and col[k] is not None:
            out[key] = col[k]
    for key, col in (mm.get("by component") or {}).get(comp_name, {}).items():
        if col[k] != "" and col[k] is not None:
            out[key] = col[k]
    return out


def build(text):
    from armi import settings
    from armi.reactor import blueprints, reactors
    bp = blueprints.Blueprints.load(io.StringIO(text))
    cs = settings.Settings().modified(newSettings={"power": 1e6, "nCycles": 1, "burnSteps": 1})
    return reactors.factory(cs, bp)


def check_reactor(ctx, doc, r, contents, tag, B):
    """Field-by-field comparison of the built reactor with the independent reading + Lean sub-models."""
    from fractions import Fraction
    core = r.core
    case = {"tag": tag, "geom": doc["geom"], "symmetry": doc["symmetry"], "n": len(contents)}
    if doc.get("_yaml"):
        case["yaml"] = doc["_yaml"]
    got = {tuple(int(v) for v in a.spatialLocator.indices[:2]): a for a in core}
    # placement (model: place)
    names = {a["specifier"]: an for an, a in doc["assems"].items()}
    # third-core maps may name "edge assemblies" on the 120-degree symmetry line (2i + j = 0, j > 0): legal input that Core.add
    # accepts with symmetryOverlap and removeEdgeAssemblies trims afterwards; there the reactor either holds the specified design
    # or nothing, everywhere else exactly what is specified
    edge = {c for c in contents if doc["symmetry"].startswith("third") and 2 * c[0] + c[1] == 0 and c[1] > 0}
    trimmed = {c for c in edge if c not in got}
    if edge:
        ctx.count("third-core documents naming edge assemblies (120-degree line)")
        contents = {c: v for c, v in contents.items() if c not in trimmed}
    B.send("place [" + ",".join(f"{an}={a['specifier']}" for an, a in doc["assems"].items()) + "] [" +
           ",".join(f"{i}:{j}:{s}" for (i, j), s in contents.items()) + "]",
           "[" + ",".join(f"{i}:{j}:{got[(i, j)].getType() if (i, j) in got else 'MISSING'}" for (i, j) in contents) + "]", case)
    if set(got) != set(contents):
        fail_few(ctx, "bp-placement-set", "an assembly stands at every location named in the map and nowhere else", case,
                 observed={"missing": sorted(set(contents) - set(got))[:4], "extra": sorted(set(got) - set(contents))[:4]})
    for loc, spec in contents.items():
        a = got.get(loc)
        if a is None:
            continue
        an, ad = names[spec], doc["assems"][names[spec]]
        c2 = {**case, "loc": list(loc), "design": an}
        if a.getType() != an:
            fail_few(ctx, "bp-assembly-design", "the assembly at a location has the design of that location's specifier", c2,
                     observed=a.getType(), expected=an)
            continue
        if [b.getType() for b in a] != ad["blocks"]:
            fail_few(ctx, "bp-block-order", "blocks have the specified order", c2, observed=[b.getType() for b in a], expected=ad["blocks"])
            continue
    # per design (assemblies of one design are deep copies: check one instance per design fully)
    seen = set()
    for loc, spec in contents.items():
        a = got.get(loc)
        if a is None or spec in seen or a.getType() != names[spec]:
            continue
        seen.add(spec)
        an, ad = names[spec], doc["assems"][names[spec]]
        c2 = {**case, "design": an}
        B.send("stack " + common.ratlist(ad["height"]),
               "[" + ",".join(f"({common.rat(b.p.zbottom)},{common.rat(b.p.ztop)})" for b in a) + "]", c2)
        B.send(f"consistent {len(ad['blocks'])} {len(ad['height'])} {len(ad['xs'])} {len(ad['mesh'])}", "T", c2)
        B.send("blocks [" + ",".join(tilde(x) for x in ad["blocks"]) + "] " + common.ratlist(ad["height"]) + " [" +
               ",".join(ad["xs"]) + "] [" + ",".join(str(x) for x in ad["mesh"]) + "]",
               "[" + ",".join(f"{tilde(b.getType())}|{common.rat(b.getHeight())}|{b.p.xsType}|{int(b.p.axMesh)}" for b in a) + "]", c2)
        for b, bt in zip(a, ad["blocks"]):
            B.send("flags [" + ",".join(known_flags()) + "] " + tilde(doc.get("blockflags", {}).get(bt, bt)),
                   "[" + ",".join(flag_words(b.p.flags)) + "]", {**c2, "type": bt})
        z = Fraction(0)
        for k, (b, h, xs, bt) in enumerate(zip(a, ad["height"], ad["xs"], ad["blocks"])):
            c3 = {**c2, "block": k, "type": bt}
            if Fraction(b.getHeight()) != Fraction(h) or Fraction(b.p.zbottom) != z or Fraction(b.p.ztop) != z + Fraction(h):
                fail_few(ctx, "bp-block-height", "blocks have the specified heights, stacked from 0", c3,
                         observed=[b.getHeight(), b.p.zbottom, b.p.ztop], expected=[h, float(z), float(z + Fraction(h))])
            z += Fraction(h)
            if b.p.xsType != xs:
                fail_few(ctx, "bp-xs-type", "blocks have the specified cross-section types", c3, observed=b.p.xsType, expected=xs)
            xsnum = int("".join("%02d" % ord(ch) for ch in xs))
            if int(b.p.xsTypeNum) != xsnum:
                fail_few(ctx, "bp-xs-type", "blocks have the cross-section type number of the type specified at their axial position", c3,
                         observed=int(b.p.xsTypeNum), expected=xsnum)
            if int(b.p.axMesh) != int(ad["mesh"][k]):
                fail_few(ctx, "bp-axial-mesh-points", "blocks have the axial mesh points specified at their axial position", c3,
                         observed=int(b.p.axMesh), expected=int(ad["mesh"][k]))
            flagtext = doc.get("blockflags", {}).get(bt, bt)      # an explicit entry replaces the name
            if b.p.flags != flags_of_name(flagtext):
                fail_few(ctx, "bp-block-flags" + (":explicit-entry" if flagtext != bt else ""),
                         "blocks carry the specified flags (an explicit `flags:` entry replaces the ones named by the type)", c3,
                         observed=str(b.p.flags), expected=str(flags_of_name(flagtext)))
            if flagtext != bt:
                from armi.reactor.flags import Flags
                for extra in (flags_of_name(bt) & ~flags_of_name(flagtext), ):
                    if int(extra) and b in a.getBlocks(extra):
                        fail_few(ctx, "bp-block-flags:explicit-entry", "a block is not found under a flag that only its name carries",
                                 c3, observed=str(b.p.flags), expected=str(flags_of_name(flagtext)))
                ctx.count("blocks with an explicit flags entry checked")
            comps = {cn: dict(cd) for cn, cd in doc["blocks"][bt].items()}
            by_name = {c.name: c for c in b}
            if bt in doc.get("blockgrid", {}):
                pg = doc["pingrids"][doc["blockgrid"][bt]]
                pcells = pin_cells(pg)
                for cn, cd in comps.items():
                    lids = cd.pop("latticeIDs", None)
                    if lids is None:
                        continue
                    want = sorted(c for c, v in pcells.items() if v in [str(x) for x in lids])
                    cd["mult"] = float(len(want))        # the document's multiplicity: positions carrying one of the ids
                    if cn in by_name:
                        B.send("mult [" + ",".join(f"{i}:{j}:{v}" for (i, j), v in pcells.items()) + "] [" +
                               ",".join(str(x) for x in lids) + "] _", common.rat(by_name[cn].getDimension("mult")), {**c3, "component": cn})
                    if cn in by_name:
                        try:
                            have = sorted(tuple(int(x) for x in loc.indices[:2]) for loc in by_name[cn].spatialLocator)
                        except Exception:
                            have = None
                        if have != want:
                            fail_few(ctx, "bp-pin-lattice-positions",
                                     "pin components stand at the lattice positions carrying their ids (text maps and explicit lists alike)",
                                     {**c3, "component": cn, "ids": lids}, observed=have, expected=want)
                ctx.count("blocks with a pin lattice checked" + ("" if pg.get("quoted", True) or pg["use_map"] else
                                                                 " (integer specifiers in an explicit list)"))
            if set(by_name) != set(comps):
                fail_few(ctx, "bp-component-set", "a block has exactly the specified components", c3, observed=sorted(by_name), expected=sorted(comps))
                continue
            # cold dimensions with links: the Lean model follows the links of the document
            dimkeys = ("id", "od", "ip", "op", "mult", "lengthInner", "lengthOuter", "widthInner", "widthOuter")
            req, exp = [], []
            for cn, cd in comps.items():
                parts = [cn]
                for dk in dimkeys:
                    if dk in cd:
                        v = cd[dk]
                        parts.append(f"{dk}=@{v}" if isinstance(v, str) else f"{dk}={common.rat(v)}")
                        try:
                            exp.append(f"{cn}.{dk}={common.rat(by_name[cn].getDimension(dk, cold=True))}")
                        except Exception:
                            exp.append(f"{cn}.{dk}=reject")
                req.append(":".join(parts))
            B.send("dims [" + ",".join(req) + "]", "[" + ",".join(exp) + "]", c3)

            def chain(cn, dk, depth=0):
                v = comps[cn][dk]
                if isinstance(v, str) and depth < 20:
                    t, kk = [s.strip() for s in v.split(".")]
                    return chain(t, kk, depth + 1)
                return cn, dk, v
            for cn, cd in comps.items():
                c = by_name[cn]
                c4 = {**c3, "component": cn}
                ctext = cd.get("flags", cn)
                if c.p.flags != flags_of_name(ctext):
                    fail_few(ctx, "bp-component-flags" + (":explicit-entry" if "flags" in cd else ""),
                             "components carry the specified flags (an explicit entry replaces the ones named by the component)", c4,
                             observed=str(c.p.flags), expected=str(flags_of_name(ctext)))
                B.send("flags [" + ",".join(known_flags()) + "] " + tilde(ctext), "[" + ",".join(flag_words(c.p.flags)) + "]", c4)
                if "flags" in cd:
                    ctx.count("components with an explicit flags entry checked")
                if type(c).__name__ != cd["shape"]:
                    fail_few(ctx, "bp-component-shape", "components have the specified shape", c4, observed=type(c).__name__, expected=cd["shape"])
                if type(c.material).__name__ != cd["material"]:
                    fail_few(ctx, "bp-component-material", "components have the specified material", c4,
                             observed=type(c.material).__name__, expected=cd["material"])
                if (c.inputTemperatureInC, c.temperatureInC) != (cd["Tinput"], cd["Thot"]):
                    fail_few(ctx, "bp-component-temperature", "components have the specified input and hot temperatures", c4,
                             observed=[c.inputTemperatureInC, c.temperatureInC], expected=[cd["Tinput"], cd["Thot"]])
                for dk in dimkeys:
                    if dk not in cd:
                        continue
                    tn, tk, val = chain(cn, dk)
                    cold = c.getDimension(dk, cold=True)
                    if Fraction(cold) != Fraction(float(val)):
                        fail_few(ctx, "bp-cold-dimension", "components have the specified cold dimensions (numeric or linked)",
                                 {**c4, "dim": dk}, observed=cold, expected=val)
                    # hot value: the (link-target) component's own thermal expansion of the cold number
                    tc = by_name[tn]
                    td = comps[tn]
                    if tk == "mult" or td["material"] == "Sodium" or td["Tinput"] == td["Thot"]:
                        hot = float(val)
                    else:
                        p = tc.material.linearExpansionPercent
                        hot = float(val) * (1.0 + p(Tc=td["Thot"]) / 100.0) / (1.0 + p(Tc=td["Tinput"]) / 100.0)
                    g = c.getDimension(dk)
                    if abs(g - hot) > 1e-10 * max(1.0, abs(hot)):
                        fail_few(ctx, "bp-hot-dimension", "hot dimensions are the cold ones expanded by the owning component's material",
                                 {**c4, "dim": dk}, observed=g, expected=hot)
                # composition after material modifications
                mods = mods_for(ad, k, cn)
                expm = expected_massfrac(cd["material"], mods)
                if expm is not None:
                    mf = c.material.massFrac
                    gotm = {"ZR": sum(v for n, v in mf.items() if n.startswith("ZR")), "U235": mf.get("U235", 0.0), "U238": mf.get("U238", 0.0)}
                    if any(abs(gotm[n] - expm[n]) > 1e-12 for n in expm):
                        fail_few(ctx, "bp-composition", "composition after the requested material modifications", {**c4, "mods": mods},
                                 observed=gotm, expected=expm)
                    # and the component's own nuclide inventory has those fractions
                    try:
                        tot = c.getMass()
                        if tot > 0:
                            e = c.getMass("U235") / tot
                            if abs(e - expm["U235"]) > 1e-9:
                                fail_few(ctx, "bp-composition", "component inventory reflects the modified composition", {**c4, "mods": mods},
                                         observed=e, expected=expm["U235"])
                    except Exception:
                        pass
                    ctx.count("components with material modifications checked" if mods else "fuel components at default composition")


class BP:
    def __init__(self, ctx):
        self.ctx = ctx
        self.req, self.exp, self.cases = [], [], []

    def send(self, line, expected, case):
        self.req.append(line)
        self.exp.append(expected)
        self.cases.append(case)

    def flush(self, what):
        if not self.req:
            return
        out = lean_run("Blueprint", self.req)
        for r, e, c, o in zip(self.req, self.exp, self.cases, out):
            if o == "bad-op":
                raise common.Infra(f"Blueprint driver: bad-op for {r[:300]}")
            if o != e:
                self.ctx.disagree(what, {"request": r[:500], "case": c}, o[:500], e[:500])
        self.ctx.count(f"model lines ({what})", len(self.req))
        self.req, self.exp, self.cases = [], [], []


def text_inconsistency(kind, text, an):
    """Inconsistent documents must be inconsistent in the TEXT armi parses: re-read the YAML with plain ruamel (anchors and
    aliases resolved by the parser) and look for the defect the kind names. Returns None when it is there, else a reason."""
    from ruamel.yaml import YAML
    if kind in ("duplicate-component", "duplicate-block-name", "duplicate-specifier", "duplicate-grid-location"):
        y = YAML(typ="safe")
        y.allow_duplicate_keys = True
        try:
            y.load(text)
        except Exception:
            return None
        lines = text.split("\n")
        if kind == "duplicate-component":
            blk, seen = None, set()
            for l in lines:
                if l.startswith("    ") and not l.startswith("     ") and l.rstrip().endswith(tuple(f"&blk{i}" for i in range(9)) + ("&blkdup",)):
                    blk, seen = l, set()
                elif l.startswith("        ") and not l.startswith("         ") and l.rstrip().endswith(":"):
                    if l.strip() in seen:
                        return None
                    seen.add(l.strip())
            return "no component name occurs twice in a block"
        if kind == "duplicate-block-name":
            names = [l.split(":")[0].strip() for l in lines if "&blk" in l]
            return None if len(names) != len(set(names)) else "no block name occurs twice"
        if kind == "duplicate-specifier":
            specs = [l.split(":")[1].strip() for l in lines if l.strip().startswith("specifier:")]
            return None if len(specs) != len(set(specs)) else "no specifier occurs twice"
        keys = [tuple(lines[k:k + 2]) for k, l in enumerate(lines) if l.strip().startswith("? -")]
        return None if len(keys) != len(set(keys)) else "no grid location occurs twice"
    y = YAML(typ="safe")
    d = y.load(text)
    designs = d["assemblies"]
    a = designs.get(an, {})
    nb = len(a.get("blocks", []))
    if kind == "unequal-heights":
        return None if len(a["height"]) != nb else "height list has one entry per block"
    if kind == "unequal-xs":
        return None if len(a["xs types"]) != nb else "xs types list has one entry per block"
    if kind == "unequal-mesh":
        return None if len(a["axial mesh points"]) != nb else "mesh list has one entry per block"
    if kind == "unequal-matmod" or kind.startswith("matmod-"):
        mm = a.get("material modifications", {})
        lens = [len(v) for k, v in mm.items() if k != "by component"] + \
               [len(v) for c in (mm.get("by component") or {}).values() for v in c.values()]
        return None if any(n != nb for n in lens) else "every modifier list has one entry per block"
    if kind == "unknown-specifier":
        specs = {x["specifier"] for x in designs.values()}
        used = set(d["grids"]["core"]["grid contents"].values())
        return None if used - specs else "every specifier of the grid is defined"
    blocks = d["blocks"]
    if kind == "cyclic-link":
        return None if any(b["bond"].get("od") == "clad.id" and b["clad"].get("id") == "bond.od" for b in blocks.values()) \
            else "no bond.od <-> clad.id cycle"
    if kind == "unknown-link-target":
        return None if any(b["bond"].get("od") == "cladding.id" for b in blocks.values()) else "no link to an unknown component"
    if kind == "overlapping-solids":
        return None if any(isinstance(b["clad"]["id"], float) and b["clad"]["id"] < b["fuel"]["od"] and b["bond"]["material"] == "HT9"
                           for b in blocks.values()) else "no solid liner squeezed to negative area"
    if kind.startswith("overlap-"):
        cold = kind.endswith("cold")
        ok = all(b["bond"].get("id") == "fuel.od" and b["bond"].get("od") == "clad.id" and
                 ((b["clad"]["id"] < b["fuel"]["od"]) if cold else (b["fuel"]["od"] < b["clad"]["id"] < b["fuel"]["od"] * 1.005))
                 for b in blocks.values())
        return None if ok else "the linked component between fuel and clad is not squeezed as the kind says"
    if kind == "solids-exceed-block":
        return None if any(b["fuel"].get("mult") == 5000.0 for b in blocks.values()) else "no oversized multiplicity"
    if kind == "conflicting-mult":
        return None if any("latticeIDs" in b["fuel"] and "mult" in b["fuel"] for b in blocks.values()) else "no declared mult on a lattice component"
    return None


def independent_contents(ctx, doc, text_map, A):
    """Location -> specifier as the document says: the explicit mapping, or the Lean reading of the map text
    (placeholders dropped; full Cartesian maps are centred as the grid blueprint documents)."""
    if text_map is None:
        return dict(doc["contents"])
    kind = map_kind(doc)
    lines = [l.split() for l in text_map.strip().splitlines()]
    full = "T" if doc["symmetry"] == "full" else "F"
    out = lean_run("AsciiMap", [f"gridcontents {kind} {full} {show_lines(lines)}"])[0]
    if out == "reject":
        return None
    cells = {}
    for item in [x for x in out.strip("[]").split(",") if x]:
        i, j, t = item.split(":")
        cells[(int(i), int(j))] = t
    return cells


def run_blueprints(ctx):
    rng = ctx.rng
    B = BP(ctx)
    n_ok = n_rej = 0
    with common.scratch_dir("c18-"):
        for t in range(ctx.pick(22, 300)):
            # every fifth document is a hex core whose first block has a pin lattice given as an explicit list with
            # integer specifiers, every fifth one as a text map
            # every fifth one is a full Cartesian map with a blank edge on an EVEN-sized axis (4x4 left, 6x3 right, 3x4 top, 5x2 bottom)
            forced = [(4, 4, "left"), (6, 3, "right"), (3, 4, "top"), (5, 2, "bottom"), (2, 2, "left"), (4, 3, "right")]
            doc = gen_doc(rng, "hex", "int-list") if t % 5 == 1 else gen_doc(rng, "hex", "map") if t % 5 == 3 else \
                gen_doc(rng, "cartesian", cart_force=forced[(t // 5) % len(forced)]) if t % 5 == 2 else gen_doc(rng)
            if t % 5 in (1, 3):
                first = list(doc["blocks"])[0]
                for a in doc["assems"].values():
                    a["blocks"][0] = first        # make sure the pin-lattice block is used
                    if doc["blocks"][first]["fuel"]["material"] != "UZr":
                        mm = a.get("matmods") or {}
                        for key, colv in mm.items():
                            for cvals in ([colv] if key != "by component" else list(colv["fuel"].values())):
                                cvals[0] = ""     # a modification is only legal where the fuel material takes it
            text_map = lattice_text(doc) if doc["use_map"] else None
            if doc["geom"] == "cartesian" and text_map is None:
                continue
            text = to_yaml(doc, text_map)
            contents = independent_contents(ctx, doc, text_map, None)
            tag = f"doc#{t}:{doc['geom']}:{doc['symmetry']}:{'map' if text_map else 'list'}"
            try:
                r = build(text)
            except Exception as e:
                n_rej += 1
                ctx.count(f"well-formed documents refused: {type(e).__name__}")
                fail_few(ctx, "bp-wellformed-refused", "a well-formed blueprint builds", {"tag": tag, "yaml": text[:3000]},
                         observed=f"{type(e).__name__}: {e}"[:300])
                continue
            n_ok += 1
            ctx.count(f"documents built ({doc['geom']}, {doc['symmetry']}, {'lattice map' if text_map else 'grid contents'})")
            if doc.get("anchors"):
                ctx.count("documents with YAML anchors / aliases on dimensions, mult, heights, xs types")
            if doc.get("cart_shape") and doc["cart_shape"][2]:
                ctx.count(f"Cartesian maps with a blank {doc['cart_shape'][2]} edge ({doc['cart_shape'][0]}x{doc['cart_shape'][1]})")
            check_reactor(ctx, doc, r, contents, tag, B)
            # determinism: building the same text again gives the same reactor (by the same reading)
            if t % 5 == 0:
                r2 = build(text)
                sig = lambda rr: sorted((tuple(int(v) for v in a.spatialLocator.indices[:2]), a.getType(),
                                         tuple((b.getType(), b.getHeight(), b.p.xsType, round(b.getMass(), 9)) for b in a)) for a in rr.core)
                if sig(r) != sig(r2):
                    fail_few(ctx, "bp-nondeterministic", "construction is deterministic", {"tag": tag})
            # declaration order of the components inside every block design carries no meaning: same reactor
            if t % 4 == 1:
                doc2 = dict(doc)
                doc2["blocks"] = {}
                for bn, comps in doc["blocks"].items():
                    items = list(comps.items())
                    rng.shuffle(items)
                    doc2["blocks"][bn] = dict(items)
                text2 = to_yaml(doc2, text_map)
                case2 = {"tag": tag, "yaml": text2[:3000], "order": {bn: list(c) for bn, c in doc2["blocks"].items()}}
                try:
                    r2 = build(text2)
                except Exception as e:
                    r2 = None
                    fail_few(ctx, "bp-order-changes-verdict", "the order in which a block's components are declared does not change "
                             "whether the blueprint is accepted", case2, observed=f"{type(e).__name__}: {e}"[:300], expected="built")
                if r2 is not None:
                    bysite = lambda rr: {tuple(int(v) for v in a.spatialLocator.indices[:2]): a for a in rr.core}
                    s1, s2 = bysite(r), bysite(r2)
                    if s1.keys() != s2.keys():
                        fail_few(ctx, "bp-order-changes-block", "the constructed model does not depend on the declaration order of components", case2)
                    else:
                        for loc in s1:
                            for b1, b2 in zip(s1[loc], s2[loc]):
                                if not _sig_close(block_signature(b1), block_signature(b2)):
                                    fail_few(ctx, "bp-order-changes-block", "the constructed model does not depend on the declaration order "
                                             "of components", {**case2, "location": loc, "block": b1.getType()})
                                    break
                    ctx.count("documents rebuilt with permuted component declarations")
            ctx.case(("bp", tag, text), nontrivial=True,
                     sample={"tag": tag, "assemblies": len(r.core), "blocks": sum(len(a) for a in r.core)} if t < 3 else None)
        # ---- inconsistent documents must be refused
        for t in range(ctx.pick(2 * len(KINDS_BAD), 10 * len(KINDS_BAD))):
            kind = KINDS_BAD[t % len(KINDS_BAD)]
            doc = gen_doc(rng, "hex", "map") if kind == "conflicting-mult" else gen_doc(rng, geom=rng.choice(["hex", "hex_corners_up"]))
            mutate = None
            an = rng.choice(list(doc["assems"]))
            a = doc["assems"][an]
            bt = rng.choice(a["blocks"])
            if kind == "unknown-specifier":
                doc["contents"][rng.choice(list(doc["contents"]))] = "ZZ"
            elif kind == "unequal-heights":
                a["height"] = a["height"] + [10.0]
            elif kind == "unequal-xs":
                a["xs"] = a["xs"][:-1]
            elif kind == "unequal-mesh":
                a["mesh"] = a["mesh"] + [1]
            elif kind == "unequal-matmod":
                a["matmods"] = {"U235_wt_frac": [0.1] * (len(a["blocks"]) + 1)}
            elif kind.startswith("matmod-"):
                # the same modifier by block and/or by component; every list must have one entry per block
                for bname in set(a["blocks"]):
                    doc["blocks"][bname]["fuel"]["material"] = "UZr"
                nbk = len(a["blocks"])
                ok_col, long_col, short_col = [0.1] * nbk, [0.1] * (nbk + 1), [0.1] * max(nbk - 1, 0)
                a["matmods"] = {
                    "matmod-bycomponent-long": {"by component": {"fuel": {"U235_wt_frac": long_col}}},
                    "matmod-bycomponent-short": {"by component": {"fuel": {"U235_wt_frac": short_col}}},
                    "matmod-both-bycomponent-long": {"U235_wt_frac": ok_col, "by component": {"fuel": {"U235_wt_frac": long_col}}},
                    "matmod-both-byblock-short": {"U235_wt_frac": short_col, "by component": {"fuel": {"U235_wt_frac": ok_col}}},
                }[kind]
                mmlens = [len(v) for k, v in a["matmods"].items() if k != "by component"] + \
                         [len(v) for d in a["matmods"].get("by component", {}).values() for v in d.values()]
            elif kind == "duplicate-component":
                mutate = "duplicate-component"
            elif kind == "cyclic-link":
                doc["blocks"][bt]["bond"]["od"] = "clad.id"
                doc["blocks"][bt]["clad"]["id"] = "bond.od"
            elif kind == "unknown-link-target":
                doc["blocks"][bt]["bond"]["od"] = "cladding.id"
            elif kind == "overlapping-solids":
                # a solid liner between fuel and clad, linked to both, squeezed to negative area: the clad's inner
                # surface lies inside the fuel (armi knows overlap only through linked dimensions / areas)
                blk = doc["blocks"][bt]
                blk["bond"].update(material="HT9", Tinput=blk["clad"]["Tinput"], Thot=blk["clad"]["Tinput"], id="fuel.od", od="clad.id")
                blk["clad"]["id"] = round(blk["fuel"]["od"] - 0.2, 4)
            elif kind == "solids-exceed-block":
                blk = doc["blocks"][bt]
                blk["fuel"]["mult"] = 5000.0
            elif kind.startswith("overlap-"):
                # overlapping solids seen as the negative area of the linked component between them: a liquid or a solid
                # is refused when the overlap is cold, a solid also when it is only hot
                make_overlap(doc, ["Sodium", "Lead"][(t // len(KINDS_BAD)) % 2] if "liquid" in kind else "HT9", kind.rsplit("-", 1)[1])
            elif kind == "conflicting-mult":
                # a lattice component that declares a multiplicity other than 1 or its number of lattice positions
                bt = list(doc["blocks"])[0]
                for x in doc["assems"].values():
                    x["blocks"][0] = bt
                    x.pop("matmods", None)
                pg = doc["pingrids"][doc["blockgrid"][bt]]
                npos = sum(1 for v in pg["cells"].values() if v == 1)
                doc["blocks"][bt]["fuel"]["mult"] = float(npos + 2)
                conflict = (pg, npos + 2)
            elif kind == "duplicate-block-name":
                mutate = "duplicate-block-name"
            elif kind == "duplicate-specifier":
                mutate = "duplicate-specifier"
            elif kind == "duplicate-grid-location":
                mutate = "duplicate-grid-location"
            used = {s for s in doc["contents"].values()}
            if kind not in ("unknown-specifier",) and a["specifier"] not in used:
                doc["contents"][(0, 0)] = a["specifier"]
            text = to_yaml(doc, None, mutate)
            tag = f"bad#{t}:{kind}"
            why = text_inconsistency(kind, text, an)
            if why is not None:
                raise common.Infra(f"generator bug: the document of {tag} is not inconsistent in the text armi parses ({why})")
            try:
                r = build(text)
                refused = False
            except Exception as e:
                refused = True
                ctx.count(f"inconsistent document refused ({kind}): {type(e).__name__}")
            if not refused:
                fail_few(ctx, f"bp-inconsistent-accepted:{kind}", "inconsistent blueprints are refused with an error",
                         {"tag": tag, "yaml": text[:3000]})
            # model side of the refusals it covers
            if kind == "unknown-specifier":
                B.send("place [" + ",".join(f"{n}={x['specifier']}" for n, x in doc["assems"].items()) + "] [" +
                       ",".join(f"{i}:{j}:{s}" for (i, j), s in doc["contents"].items()) + "]", "reject" if refused else "accepted", {"tag": tag})
            elif kind in ("unequal-heights", "unequal-xs", "unequal-mesh"):
                B.send(f"consistent {len(a['blocks'])} {len(a['height'])} {len(a['xs'])} {len(a['mesh'])}", "F" if refused else "T", {"tag": tag})
                B.send("blocks [" + ",".join(tilde(x) for x in a["blocks"]) + "] " + common.ratlist(a["height"]) + " [" +
                       ",".join(a["xs"]) + "] [" + ",".join(str(x) for x in a["mesh"]) + "]", "reject" if refused else "accepted", {"tag": tag})
            elif kind.startswith("matmod-"):
                B.send(f"listsok {len(a['blocks'])} [" + ",".join(str(x) for x in mmlens) + "]", "F" if refused else "T", {"tag": tag})
            elif kind == "conflicting-mult":
                pg, decl = conflict
                B.send("mult [" + ",".join(f"{i}:{j}:{v}" for (i, j), v in pg["cells"].items()) + "] [1] " + str(decl),
                       "reject" if refused else "accepted", {"tag": tag})
            elif kind in ("cyclic-link", "unknown-link-target"):
                comps = doc["blocks"][bt]
                req = []
                for cn, cd in comps.items():
                    parts = [cn]
                    for dk in ("id", "od"):
                        if dk in cd:
                            v = cd[dk]
                            parts.append(f"{dk}=@{v}" if isinstance(v, str) else f"{dk}={common.rat(v)}")
                    req.append(":".join(parts))
                line = "dims [" + ",".join(req) + "]"
                B.send(line, None, {"tag": tag})
                B.reject_expected = getattr(B, "reject_expected", []) + [(len(B.req) - 1, refused, tag)]
            ctx.case(("bp-bad", tag, text), nontrivial=True)
        # ---- the same overlaps with a Void gap are tolerated by design (and a liquid squeezed only when hot is not judged)
        for t in range(ctx.pick(6, 40)):
            mat, mode = [("Void", "cold"), ("Void", "hot"), ("Sodium", "hot")][t % 3]
            doc = gen_doc(rng, geom=rng.choice(["hex", "hex_corners_up"]))
            make_overlap(doc, mat, mode)
            text = to_yaml(doc, None)
            try:
                build(text)
                outcome = "built"
            except Exception as e:
                outcome = f"refused: {type(e).__name__}"
                if mat == "Void":
                    fail_few(ctx, "bp-void-gap-refused", "a Void gap between overlapping components is tolerated (negative area allowed for Void)",
                             {"tag": f"void#{t}:{mode}", "yaml": text[:3000]}, observed=f"{type(e).__name__}: {e}"[:300])
            ctx.count(f"{mat} gap squeezed {mode}: {outcome}")
            ctx.case(("bp-gap", mat, mode, text), nontrivial=True)
        _flush_bp(ctx, B)
    ctx.count("well-formed documents built", n_ok)


def _flush_bp(ctx, B):
    what = "Blueprint model vs reactors.factory (placement, stacking, link resolution, refusals)"
    if not B.req:
        return
    out = lean_run("Blueprint", B.req)
    special = {i: (refused, tag) for i, refused, tag in getattr(B, "reject_expected", [])}
    for idx, (r, e, c, o) in enumerate(zip(B.req, B.exp, B.cases, out)):
        if o == "bad-op":
            raise common.Infra(f"Blueprint driver: bad-op for {r[:300]}")
        if idx in special:
            refused, tag = special[idx]
            if ("reject" in o) != refused:
                ctx.disagree(what, {"request": r[:500], "case": c}, o[:300], "refused" if refused else "accepted")
        elif e is not None and o != e:
            ctx.disagree(what, {"request": r[:500], "case": c}, o[:500], e[:500])
    ctx.count(f"model lines ({what})", len(B.req))
    B.req, B.exp, B.cases = [], [], []


# =========================================================================== grid blueprints: text -> contents -> saveToStream -> reload
GEOM_OF = {"cart": ("cartesian", "full"), "third": ("hex", "third periodic"), "full": ("hex", "full"), "tips": ("hex_corners_up", "full")}

# every (geom, symmetry) combination whose lattice map READING is supported, with the map class that reading dispatches
# to (written from the documentation of asciimaps.asciiMapFromGeomAndDomain: corners-up + full core -> tips-up map, any
# other hex -> flats-up map of the domain, Cartesian full / quarter -> Cartesian map); compared with the real dispatch
# function (called with the geometry STRING of the document, as reading does) and with the Lean `dispatch` on every run
COMBOS = [("hex", "full", "full"), ("hex", "third periodic", "third"), ("hex_corners_up", "full", "tips"),
          ("hex_corners_up", "third periodic", "third"), ("hex", "full through center assembly", "full"),
          ("hex_corners_up", "full through center assembly", "tips"),
          ("cartesian", "full", "cart"), ("cartesian", "full through center assembly", "cart"),
          ("cartesian", "quarter reflective", "cart"), ("cartesian", "quarter periodic", "cart"),
          ("cartesian", "quarter reflective through center assembly", "cart"),
          ("cartesian", "quarter periodic through center assembly", "cart")]
UNSUPPORTED_COMBOS = [("cartesian", "eighth reflective"), ("cartesian", "eighth periodic through center assembly"),
                      ("cartesian", "third periodic"), ("hex", "quarter reflective"), ("hex", "eighth periodic"),
                      ("hex_corners_up", "quarter reflective")]


def domain_word(sym):
    return sym.split()[0]


def check_dispatch(ctx):
    """asciiMapFromGeomAndDomain (function level): the class for every (geometry string, domain) against the table above and
    against the Lean model's `dispatch`; unsupported combinations are refused by both."""
    from armi.reactor import geometry
    from armi.utils import asciimaps as am
    names = {"cart": "AsciiMapCartesian", "third": "AsciiMapHexThirdFlatsUp", "full": "AsciiMapHexFullFlatsUp",
             "tips": "AsciiMapHexFullTipsUp"}
    req, exp, cases = [], [], []
    for geom, sym, kind in COMBOS + [(g, s, None) for g, s in UNSUPPORTED_COMBOS]:
        case = {"geom": geom, "symmetry": sym}
        try:
            cls = am.asciiMapFromGeomAndDomain(geom, geometry.SymmetryType.fromStr(sym).domain).__name__
        except Exception:
            cls = None
        want = names.get(kind)
        if cls != want:
            fail_few(ctx, f"ascii-dispatch:{geom}:{domain_word(sym)}", "every supported (geom, symmetry) combination is read with the "
                     "map class of that geometry and domain", case, observed=cls, expected=want)
        req.append(f"dispatch {geom} {domain_word(sym)}")
        exp.append({v: k for k, v in names.items()}.get(cls, "reject"))
        cases.append(case)
        ctx.count("ascii map dispatch combinations" if cls else "ascii map dispatch combinations refused")
        ctx.case(("dispatch", geom, sym), nontrivial=True)
    out = lean_run("AsciiMap", req)
    for r, e, c, o in zip(req, exp, cases, out):
        if o == "bad-op":
            raise common.Infra(f"AsciiMap driver: bad-op for {r}")
        if o != e:
            ctx.disagree("AsciiMap model vs asciiMapFromGeomAndDomain", c, o, e)


GRID_Q = []


def flush_grid_q(ctx):
    if not GRID_Q:
        return
    out = lean_run("AsciiMap", [q[0] for q in GRID_Q])
    for (r, e, c, what), o in zip(GRID_Q, out):
        if o == "bad-op":
            raise common.Infra(f"AsciiMap driver: bad-op for {r[:200]}")
        if o != e:
            ctx.disagree(what, c, o[:600], e[:600])
    ctx.count("model lines (grid blueprint read / save)", len(GRID_Q))
    del GRID_Q[:]


def grid_yaml(kind, text_map=None, contents=None, combo=None):
    geom, sym = combo or GEOM_OF[kind]
    out = ["core:", f"    geom: {geom}", f"    symmetry: {sym}"]
    if kind == "cart":
        out.append("    lattice pitch:\n        x: 10.0\n        y: 10.0")
    if text_map is not None:
        out.append("    lattice map: |4")
        out += ["        " + l for l in text_map.rstrip("\n").split("\n")]
    else:
        out.append("    grid contents:")
        for (i, j), sp in contents.items():
            out.append(f"        ? - {i}\n          - {j}\n        : {sp}")
    return "\n".join(out) + "\n"


def grid_roundtrip(ctx, kind, text_map, contents, tag, combo=None):
    """GridBlueprint as the user meets it: load (text map or explicit list), save with tryMap=True, load again.
    The saved form must describe the same location -> specifier mapping, or fall back to the explicit list; a saved
    lattice map must be the text that the map class READING dispatches to (`kind`) draws for these contents."""
    import textwrap
    from armi.reactor.blueprints import Blueprints
    from armi.reactor.blueprints.gridBlueprint import saveToStream
    geom, sym = combo or GEOM_OF[kind]
    case = {"kind": kind, "geom": geom, "symmetry": sym, "tag": tag, "map": text_map,
            "contents": None if contents is None else show_labels(contents)}
    label = f"{geom}, {sym}"
    try:
        bp = Blueprints.load(io.StringIO("grids:\n" + textwrap.indent(grid_yaml(kind, text_map, contents, combo), "    ")))
        g = bp.gridDesigns
        g["core"]._readGridContents()
        first = {(k[0], k[1]): v for k, v in g["core"].gridContents.items()}
    except Exception:
        ctx.count(f"grid blueprint refused on load ({label})")
        return
    if not first:
        return
    if text_map is not None:
        # reading the text map is the Lean model's reading (centred for full Cartesian maps)
        lines = [l.split() for l in text_map.strip().splitlines()]
        GRID_Q.append((f"readlattice {geom} {domain_word(sym)} {show_lines(lines)}", show_labels(first), case,
                       "AsciiMap model vs GridBlueprint._readGridContentsLattice"))
    out = io.StringIO()
    try:
        saveToStream(out, bp, full=False, tryMap=True)
    except Exception as e:
        ctx.count(f"grid blueprint refused on save ({label}): {type(e).__name__}")
        return
    # contents in the represented domain only (saveToStream documents that it drops the rest)
    try:
        grid = g["core"].construct()
        inside = {k: v for k, v in first.items() if grid.locatorInDomain(grid[k + (0,)], symmetryOverlap=False)}
    except Exception:
        inside = first
    try:
        g2 = Blueprints.load(io.StringIO("grids:\n" + textwrap.indent(out.getvalue(), "    "))).gridDesigns
        g2["core"]._readGridContents()
        second = {(k[0], k[1]): v for k, v in g2["core"].gridContents.items()}
    except Exception as e:
        fail_few(ctx, f"grid-saved-form-unreadable:{kind}", "a saved grid blueprint loads again", case,
                 observed=f"{type(e).__name__}: {e}"[:200])
        return
    wrote_map = g2["core"].latticeMap is not None
    ctx.count(f"grid blueprint save/reload ({label}, {'lattice map' if wrote_map else 'grid contents'})")
    if len(set(inside.values())) > 1:
        ctx.count(f"grid blueprint save/reload with several distinct specifiers ({label})")
    ctx.case(("grid-rt", kind, geom, sym, tag, text_map, case["contents"]), nontrivial=True)
    from armi.reactor import geometry as _geo
    s1, s2 = _geo.SymmetryType.fromStr(sym), _geo.SymmetryType.fromStr(g2["core"].symmetry)
    same_sym = (s1.domain, s1.boundary) == (s2.domain, s2.boundary) and \
        (domain_word(sym) == "full" or s1.isThroughCenterAssembly == s2.isThroughCenterAssembly)
    if g2["core"].geom != geom or not same_sym:
        fail_few(ctx, f"grid-save-geom-changed:{kind}", "a saved grid blueprint keeps its geometry and symmetry", case,
                 observed=[g2["core"].geom, g2["core"].symmetry])
    # what the map class that reading dispatches to draws for these contents (index shift of centred Cartesian maps undone)
    shifted = inside
    if kind == "cart" and domain_word(sym) == "full" and inside:
        nx = max(i for i, _ in inside) - min(i for i, _ in inside) + 1
        ny = max(j for _, j in inside) - min(j for _, j in inside) + 1
        shifted = {(i + int(nx / 2), j + int(ny / 2)): v for (i, j), v in inside.items()}
    ans, own_text, own_back = impl_write(kind, shifted)
    own_complete = own_text is not None and own_back is not None and data_of(own_back) == shifted
    saved_lines = None
    if wrote_map:
        saved_lines = [l.split() for l in str(g2["core"].latticeMap).strip().splitlines()]
        own_lines = None if own_text is None else [l.split() for l in own_text.strip().splitlines()]
        if own_lines is not None and saved_lines != own_lines:
            fail_few(ctx, f"grid-saved-map-not-of-reading-class:{kind}", "the written lattice map is the text the map class that "
                     "reading dispatches to draws for the contents", case, observed=str(g2["core"].latticeMap)[:600],
                     expected=own_text[:600])
    # saveToStream (function level): the Lean model's lattice lines for the contents in the domain, or its refusal
    if inside and all(" " not in v and v for v in inside.values()):
        GRID_Q.append((f"savelattice {geom} {domain_word(sym)} [" + ",".join(f"{i}:{j}:{t}" for (i, j), t in inside.items()) + "]",
                       show_lines(saved_lines) if wrote_map else "reject", case, "AsciiMap model vs gridBlueprint.saveToStream"))
    if second != inside:
        # only a drawing that the dispatched class itself leaves incomplete can be one of the known hole findings
        mech = classify_incomplete(kind, shifted, str(g2["core"].latticeMap)) if (wrote_map and not own_complete) else None
        key = f"grid-save-reload-differs:{kind}:{mech or 'unexplained'}"
        fail_few(ctx, key, "a lattice map read, written and read again gives the same indexed contents", case,
                 observed={"saved": out.getvalue()[:600], "reloaded": show_labels(second)}, expected=show_labels(inside))


def asym_contents(kind, n, rng, quarter=False):
    """Contents over a complete outline with several distinct specifiers placed asymmetrically (no two cells related by a
    rotation / reflection of the outline are forced to agree): NOT invariant under a flats-up <-> tips-up relayout."""
    cells = outline(kind, n)
    labs = list(LABELS)
    cont = {c: rng.choice(labs) for c in cells}
    if len(cells) >= 2:
        # make sure at least two specifiers occur and that the map differs from its transpose / mirror image
        a, b = rng.sample(cells, 2)
        cont[a], cont[b] = "A", "B"
    return cont


def run_grids(ctx):
    rng = ctx.rng
    del GRID_Q[:]
    check_dispatch(ctx)
    for kind in KINDS:
        for n in range(0, ctx.pick(4, 8)):
            cells = outline(kind, n)
            full = {c: rng.choice(LABELS) for c in cells}
            for variant in range(ctx.pick(3, 10)):
                cont = dict(full) if variant == 0 else {c: v for c, v in full.items() if rng.random() > 0.2}
                if not cont:
                    continue
                grid_roundtrip(ctx, kind, None, cont, f"list-{n}-{variant}")
                ans, text, back = impl_write(kind, cont)
                if text is not None and back is not None and data_of(back) == cont:
                    grid_roundtrip(ctx, kind, text, None, f"map-{n}-{variant}")
    # every supported (geom, symmetry) combination: complete outlines with asymmetric contents, as a text map and as an
    # explicit list (tryMap=True), saved and read again
    for geom, sym, kind in COMBOS:
        quarter = domain_word(sym) == "quarter"
        for n in range(1, ctx.pick(5, 7)):
            for rep in range(ctx.pick(3, 6)):
                cont = asym_contents(kind, n, rng)
                if kind == "cart" and rng.random() < 0.5:
                    # rectangular, not square
                    w = rng.randint(1, n + 1)
                    cont = {c: v for c, v in cont.items() if c[0] < w} if rng.random() < 0.5 else {c: v for c, v in cont.items() if c[1] < w}
                if kind == "cart" and domain_word(sym) == "full":
                    nx = max(i for i, _ in cont) + 1
                    ny = max(j for _, j in cont) + 1
                    listed = {(i - int(nx / 2), j - int(ny / 2)): v for (i, j), v in cont.items()}
                else:
                    listed = cont
                grid_roundtrip(ctx, kind, None, listed, f"combo-list-{n}-{rep}", combo=(geom, sym))
                ans, text, back = impl_write(kind, cont)
                if text is not None and back is not None and data_of(back) == cont:
                    grid_roundtrip(ctx, kind, text, None, f"combo-map-{n}-{rep}", combo=(geom, sym))
    for geom, sym in UNSUPPORTED_COMBOS:
        grid_roundtrip(ctx, "cart" if geom == "cartesian" else "full", "A B\nC D\n", None, "unsupported-combination", combo=(geom, sym))
    # a completely empty interior row / trailing rows; pin map with rings 0 and 2 only
    for text in ("- A B C\n- D E F\n- A A B\n- C C D\n", "A B C D E -\nA B C D E -\nF F F F F -\n", "- - -\nA B C\nD E F\nA A A\n",
                 "A B\nC D\n- -\n", "- A\n- B\n", "A B -\nC D -\n"):
        grid_roundtrip(ctx, "cart", text, None, "cart-blank-edge")
    grid_roundtrip(ctx, "cart", "A B\n- -\nC D\n", None, "cart-empty-interior-row")
    grid_roundtrip(ctx, "cart", "A B\nC D\n- -\n", None, "cart-empty-bottom-row")
    grid_roundtrip(ctx, "cart", None, {(0, 0): "A", (1, 0): "B", (0, 2): "C", (1, 2): "D"}, "cart-empty-interior-row-list")
    for kind in ("tips", "full"):
        grid_roundtrip(ctx, kind, None, {c: "P" for c in hex_cells(2) if hexdist(*c) in (0, 2)}, "rings-0-and-2-only")
    flush_grid_q(ctx)


# =========================================================================== one block design at several axial positions
def restack(doc, rng):
    """Rewrite the assemblies of a generated document so that block designs REPEAT along the stack (e.g. [refl, fuel, fuel, fuel,
    refl]) and the per-position attributes (xs types, heights, axial mesh points, material modifications) are drawn independently
    per position with a chosen coincidence pattern: everything but one attribute equal at the repeated positions, or several
    differing. Heights are common to all assemblies of a core."""
    bnames = list(doc["blocks"])
    nb = rng.randint(3, 6)
    main = rng.choice(bnames)
    ends = rng.choice(bnames)
    layout = rng.choice(["ends", "all", "alternate", "random"])
    if layout == "ends":
        pattern = [ends] + [main] * (nb - 2) + [ends]
    elif layout == "all":
        pattern = [main] * nb
    elif layout == "alternate":
        pattern = [main if k % 2 == 0 else ends for k in range(nb)]
    else:
        pattern = [rng.choice([main, main, ends]) for _ in range(nb)]
    differ = rng.choice([("xs",), ("xs",), ("xs", "height"), ("xs", "mesh"), ("xs", "mods"), ("height",), ("mesh",), ("mods",),
                         ("xs", "height", "mesh", "mods")])
    hby = {bn: rng.randint(20, 160) / 4.0 for bn in bnames}
    heights = [hby[bn] for bn in pattern]
    if "height" in differ:
        heights[rng.randrange(nb)] += rng.choice([0.25, 1.0, 2.5])
    doc["assems"] = {an: a for an, a in list(doc["assems"].items())}
    for an, a in doc["assems"].items():
        a["blocks"] = list(pattern)
        a["height"] = list(heights)
        # cross-section types: independent per position; pairwise distinct when they are what differs
        a["xs"] = rng.sample("ABCDEFRS", nb) if "xs" in differ else [rng.choice("ABCD")] * nb
        m0 = rng.randint(1, 3)
        a["mesh"] = [m0] * nb
        if "mesh" in differ:
            a["mesh"][rng.randrange(nb)] = m0 % 3 + 1
        a.pop("matmods", None)
        uz = [doc["blocks"][bn]["fuel"]["material"] == "UZr" for bn in pattern]
        if any(uz) and rng.random() < 0.7:
            v = rng.choice([0.1, 0.25, 0.5])
            col = [v if u else "" for u in uz]
            if "mods" in differ:
                ks = [k for k, u in enumerate(uz) if u]
                col[rng.choice(ks)] = rng.choice([x for x in (0.1, 0.25, 0.5, 0.0, "") if x != v])
            a["matmods"] = {"U235_wt_frac": col}
            if rng.random() < 0.4:
                a["matmods"]["by component"] = {"fuel": {"ZR_wt_frac": [rng.choice([0.06, 0.1]) if u else "" for u in uz]}}
    doc["stack"] = {"pattern": pattern, "differ": list(differ), "layout": layout}
    return doc


def run_stacks(ctx):
    """Assemblies that stack the same block design at two or more axial positions: every constructed block is compared with the
    independently read input AT ITS OWN INDEX (xs type and number, height and elevations, mesh points, flags, composition after
    the material modifications of that index). Model: Blueprint.pairBlocks (theorem repeated_design_keeps_own_xs)."""
    rng = ctx.rng
    B = BP(ctx)
    with common.scratch_dir("c18k-"):
        for t in range(ctx.pick(14, 120)):
            doc = restack(gen_doc(rng, rng.choice(["hex", "hex", "hex_corners_up", "cartesian"])), rng)
            if t == 0:
                # the plain instance: one design in the middle with equal heights / mesh / modifications, different xs types
                while not ("xs" in doc["stack"]["differ"] and len(doc["stack"]["differ"]) == 1 and doc["stack"]["layout"] == "ends" and len(doc["stack"]["pattern"]) >= 5):
                    doc = restack(gen_doc(rng, "hex"), rng)
            text_map = lattice_text(doc) if doc["use_map"] else None
            if doc["geom"] == "cartesian" and text_map is None:
                continue
            text = to_yaml(doc, text_map)
            contents = independent_contents(ctx, doc, text_map, None)
            tag = f"stack#{t}:{doc['stack']['layout']}:{'+'.join(doc['stack']['differ'])} differ"
            try:
                r = build(text)
            except Exception as e:
                fail_few(ctx, "bp-wellformed-refused", "a well-formed blueprint builds", {"tag": tag, "yaml": text}, observed=f"{type(e).__name__}: {e}"[:300])
                continue
            doc["_yaml"] = text
            check_reactor(ctx, doc, r, contents, tag, B)
            # every instance of every design (check_reactor looks at one instance per design in full): xs / mesh / height per index
            names = {a["specifier"]: an for an, a in doc["assems"].items()}
            for a in r.core:
                ad = doc["assems"].get(a.getType())
                if ad is None:
                    continue
                for k, b in enumerate(a):
                    want = (ad["blocks"][k], ad["xs"][k], int("".join("%02d" % ord(ch) for ch in ad["xs"][k])), ad["height"][k], ad["mesh"][k])
                    got = (b.getType(), b.p.xsType, int(b.p.xsTypeNum), b.getHeight(), int(b.p.axMesh))
                    if got != want:
                        fail_few(ctx, "bp-xs-type" if got[1:3] != want[1:3] else "bp-block-attributes-by-position",
                                 "every block carries the attributes given for ITS axial position (also when the design is repeated)",
                                 {"tag": tag, "design": a.getType(), "block": k, "pattern": ad["blocks"], "xs types": ad["xs"], "yaml": text},
                                 observed=list(got), expected=list(want))
            ctx.count(f"stacked documents built ({doc['stack']['layout']}, differing: {'+'.join(doc['stack']['differ'])})")
            ctx.case(("stack", tag, text), nontrivial=True, sample={"tag": tag, "pattern": doc["stack"]["pattern"]} if t < 2 else None)
    _flush_bp(ctx, B)


# =========================================================================== third-core maps, edge assemblies
def run_third(ctx):
    """Third-core (`third periodic`) hex cores given as explicit grid contents (and as text maps where the third-core map class
    can draw them): complete first thirds of 2..4 rings with holes, with and without edge assemblies on the 120-degree line
    (rings 3, 5), and documents naming a location genuinely outside the first third. Legal documents build and hold the
    specified designs (edge assemblies: the specified design or trimmed); only outside locations are refused.
    Model: Blueprint.loadThird / inFirstThird / onOverlapLine (function level against HexGrid)."""
    from armi.reactor import grids
    rng = ctx.rng
    B = BP(ctx)
    g = grids.HexGrid.fromPitch(1.0, numRings=0)
    g.symmetry = "third periodic"
    for c in hex_cells(7):
        loc = g[c[0], c[1], 0]
        dom = g.locatorInDomain(loc)
        over = g.locatorInDomain(loc, symmetryOverlap=True)
        B.send(f"firstthird {c[0]} {c[1]}", ("T" if dom else "F") + ("T" if (over and not dom) else "F"), {"cell": list(c)})
        if g.isInFirstThird(loc) != dom:
            fail_few(ctx, "third-domain-inconsistent", "the represented domain of a third-core grid is its first third", {"cell": list(c)})
    with common.scratch_dir("c18t-"):
        for t in range(ctx.pick(10, 80)):
            doc = gen_doc(rng, "hex")
            doc["symmetry"] = "third periodic"
            specs = [a["specifier"] for a in doc["assems"].values()]
            rings = rng.choice([2, 3, 4]) if t >= 3 else [2, 3, 4][t]
            cells = third_cells(rings)
            p = rng.choice([0.0, 0.15])
            doc["contents"] = {c: rng.choice(specs) for c in cells if c == (0, 0) or rng.random() >= p}
            mode = ["edge", "edge", "plain", "outside"][t % 4] if t >= 3 else "edge"
            edges = [(-k, 2 * k) for k in (1, 2, 3) if 2 * k <= rings]
            named_edges = []
            if mode == "edge":
                for e in edges:
                    if e is edges[0] or rng.random() < 0.7:
                        # the duplicate of the assembly on the 0-degree line (or any design where that cell is a hole)
                        doc["contents"][e] = doc["contents"].get((e[1], -e[0] - e[1]), rng.choice(specs))
                        named_edges.append(e)
            outside = None
            if mode == "outside":
                cand = [c for c in hex_cells(rings) if c not in cells and not (2 * c[0] + c[1] == 0 and c[1] > 0)]
                outside = rng.choice(cand)
                doc["contents"][outside] = rng.choice(specs)
            items = list(doc["contents"].items())
            rng.shuffle(items)
            doc["contents"] = dict(items)
            text_map = lattice_text(doc) if rng.random() < 0.5 else None
            text = to_yaml(doc, text_map)
            tag = f"third#{t}:{mode}:{rings} rings:{'map' if text_map else 'list'}"
            case = {"tag": tag, "edge cells": [list(e) for e in named_edges], "outside": None if outside is None else list(outside), "yaml": text}
            contents = independent_contents(ctx, doc, text_map, None)
            try:
                r = build(text)
                err = None
            except Exception as e:
                r, err = None, f"{type(e).__name__}: {e}"[:300]
            B.send("thirdload [" + ",".join(f"{i}:{j}:{sp}" for (i, j), sp in contents.items()) + "]",
                   "reject" if r is None else "[" + ",".join(f"{i}:{j}:{sp}" for (i, j), sp in contents.items()
                                                              if (i, j) in {tuple(int(v) for v in a.spatialLocator.indices[:2]) for a in r.core}) + "]", case)
            if mode == "outside":
                if r is not None:
                    fail_few(ctx, "bp-inconsistent-accepted:location-outside-first-third", "a third-core map naming a location outside the "
                             "first third is refused", case)
                ctx.count("third-core documents naming an outside location: " + ("refused" if r is None else "built"))
            elif r is None:
                fail_few(ctx, "bp-wellformed-refused:third-core-edge-assemblies" if named_edges else "bp-wellformed-refused",
                         "a well-formed blueprint builds (edge assemblies on the 120-degree line of a third-core map are legal input)", case, observed=err)
            else:
                check_reactor(ctx, doc, r, contents, tag, B)
                ctx.count(f"third-core documents built ({mode}, {'lattice map' if text_map else 'grid contents'})")
            ctx.case(("third", tag, text), nontrivial=True, sample={"tag": tag} if t < 2 else None)
    _flush_bp(ctx, B)


# =========================================================================== declaration order of a block's components
def _rings_for(npins):
    """Rings of a hex pin lattice needed for npins positions (1, 7, 19, ...): smallest n with 3n(n-1)+1 >= npins."""
    n = 0
    while (3 * n * (n - 1) + 1 if n else 0) < npins:
        n += 1
    return n


def gen_pin_block(rng):
    """A hex block with wire-wrapped pins inside one to three nested hexagonal ducts, optional solid liners abutting the clad,
    optionally a second clad; the pin bundle either fits the INNER duct or exceeds it by more than the tolerance while still
    fitting the next duct.  Returns (components in canonical order, facts)."""
    import math
    npins = rng.choice([1, 7, 19, 37, 61, 91, 12, 20, 40])
    fod = rng.randint(40, 70) / 100.0
    cth = rng.randint(3, 6) / 100.0
    two_clads = False      # (a fuel block with two clads is refused by armi elsewhere: no unique clad; the branch is exercised on built blocks below)
    nliner = rng.choice([0, 0, 1, 2])
    lth = 0.02
    cid = round(fod + 0.04 + 2 * lth * nliner, 4)
    cod = round(cid + 2 * cth, 4)
    has_wire = (not two_clads) and rng.random() < 0.9      # a wire around two clads has no defined pin pitch
    wod = rng.randint(5, 15) / 100.0
    outer_pin = round(cod + 0.06, 4) if two_clads else cod
    nr = _rings_for(npins)
    bundle = math.sqrt(3.0) * (nr - 1) * (cod + wod) + cod + 2 * wod
    mode = rng.choice(["fits", "exceeds-inner", "exceeds-inner", "overlap-liner"]) if not two_clads and has_wire else rng.choice(["fits", "exceeds-inner"])
    nducts = rng.choice([1, 2, 2, 2, 3])
    if mode == "exceeds-inner":
        ip0 = round(bundle - rng.randint(5, 30) / 100.0, 2)
    else:
        ip0 = round(bundle + rng.randint(5, 40) / 100.0, 2)
    if mode != "exceeds-inner":
        ip0 = max(ip0, round(outer_pin + 2 * wod + 0.05, 2))
    T = rng.choice([20.0, 25.0])
    comps = []

    def circle(name, mat, i, o, **kw):
        comps.append((name, dict(shape="Circle", material=mat, Tinput=T, Thot=T, id=i, od=o, mult=float(npins), **kw)))
    circle("fuel", "UZr", 0.0, fod)
    inner_names = [f"liner{k + 1}" for k in range(nliner)]
    circle("bond", "Sodium", "fuel.od", f"{inner_names[0]}.id" if inner_names else "clad.id")
    x = round(cid - 2 * lth * nliner, 4)
    for k, ln in enumerate(inner_names):
        # solid liners abutting each other and the clad (od of one = id of the next, numerically)
        lo = round(x + 2 * lth, 4)
        if mode == "overlap-liner" and k == 0:
            # a solid liner LINKED between the fuel and the next solid, squeezed to negative area: overlapping solids
            comps.append((ln, dict(shape="Circle", material="HT9", Tinput=T, Thot=T, id="fuel.od", od=round(fod - 0.1, 4), mult=float(npins))))
        else:
            circle(ln, "HT9", x, lo)
        x = lo
    if mode == "overlap-liner" and not inner_names:
        comps[-1] = ("bond", dict(shape="Circle", material="HT9", Tinput=T, Thot=T, id="fuel.od", od="clad.id", mult=float(npins)))
        cid = round(fod - 0.1, 4)
    circle("clad", "HT9", cid, cod)
    if two_clads:
        circle("clad2", "HT9", cod, outer_pin)
    if has_wire:
        comps.append(("wire", dict(shape="Helix", material="HT9", Tinput=T, Thot=T, axialPitch=30.0,
                                   helixDiameter=round(outer_pin + wod, 4), id=0.0, od=wod, mult=float(npins))))
    comps.append(("coolant", dict(shape="DerivedShape", material="Sodium", Tinput=T, Thot=T)))
    ducts = []
    ip = ip0
    for k in range(nducts):
        op = round(ip + rng.choice([0.2, 0.3]), 2)
        name = ["inner duct", "duct", "outer duct"][k] if nducts == 3 else (["inner duct", "outer duct"][k] if nducts == 2 else "duct")
        ducts.append((name, ip, op))
        comps.append((name, dict(shape="Hexagon", material="HT9", Tinput=T, Thot=T, ip=ip, op=op, mult=1.0)))
        nxt = round(op + rng.choice([0.0, 0.1, 0.4]), 2)       # abutting or separated ducts
        if k == 0 and mode == "exceeds-inner":
            nxt = max(nxt, round(bundle + 0.2, 2))             # the bundle still fits inside the next duct
        ip = nxt
    last = ducts[-1][0]
    comps.append(("intercoolant", dict(shape="Hexagon", material="Sodium", Tinput=T, Thot=T, ip=f"{last}.op", op=round(ducts[-1][2] + 0.3, 2), mult=1.0)))
    if mode == "overlap-liner":
        expect = "refused"
    elif two_clads or not has_wire:
        expect = "built"          # verifyBlockDims cannot tell what the block looks like / no wire: nothing to check
    else:
        expect = "refused" if mode == "exceeds-inner" else "built"
    facts = dict(npins=npins, rings=nr, bundle=bundle, mode=mode, inner_ip=ducts[0][1], ducts=ducts, two_clads=two_clads,
                 has_wire=has_wire, expect=expect, cod=cod, wod=wod)
    return comps, facts


def pin_block_yaml(comps):
    out = [NUCLIDE_FLAGS.rstrip("\n"), "blocks:", "    fuel: &block_fuel"]
    for name, c in comps:
        out.append(f"        {name}:")
        for k, v in c.items():
            out.append(f"            {k}: {v}")
    out.append("assemblies:\n    fuel:\n        specifier: IC\n        blocks: [*block_fuel]\n        height: [25.0]\n"
               "        axial mesh points: [1]\n        xs types: [A]")
    return "\n".join(out) + "\n"


def build_block(text):
    from armi import settings
    from armi.reactor import blueprints
    cs = settings.Settings()
    bp = blueprints.Blueprints.load(io.StringIO(text))
    bp._prepConstruction(cs)
    return bp.assemblies["fuel"][0]


def block_signature(b):
    sig = {}
    for c in b:
        dims = []
        for k in sorted(c.DIMENSION_NAMES):
            try:
                v = c.getDimension(k, cold=True)
            except Exception:
                v = None
            dims.append((k, None if v is None else float(v)))
        sig[c.name] = (type(c).__name__, c.material.name, float(c.inputTemperatureInC), float(c.temperatureInC), tuple(dims),
                       float(c.getArea()), str(c.p.flags))
    try:
        gap = b.getPinToDuctGap(cold=True)
    except Exception:
        gap = None
    try:
        order = [c.name for c in sorted(b)]
    except Exception:
        order = sorted(c.name for c in b)
    pitch = b.getPitch()
    extra = {"sorted": order, "gap": gap, "pitch": tuple(pitch) if isinstance(pitch, (tuple, list)) else pitch, "mass": b.getMass(),
             "type": type(b).__name__, "npins": b.p.nPins}
    return sig, extra


def _sig_close(a, b):
    import math
    if type(a) is not type(b):
        return False
    if isinstance(a, float):
        return math.isclose(a, b, rel_tol=1e-11, abs_tol=1e-12)
    if isinstance(a, (tuple, list)):
        return len(a) == len(b) and all(_sig_close(x, y) for x, y in zip(a, b))
    if isinstance(a, dict):
        return a.keys() == b.keys() and all(_sig_close(a[k], b[k]) for k in a)
    return a == b


def run_order(ctx):
    """Declaration order of a block's components carries no meaning: every permutation of the component declarations gets
    the same accept / refuse verdict (the verdict the dimensions call for: a wire-wrapped pin bundle larger than the INNER
    duct's inner flat-to-flat by more than the tolerance is refused, overlapping solids are refused) and, when accepted,
    the same constructed block. Model: Blueprint.verifyBlockDims (theorem verifyBlockDims_perm)."""
    import math
    from armi.utils import hexagon
    rng = ctx.rng
    B = BP(ctx)
    for n in list(range(0, 130)) + [169, 217, 271, 272, 331, 1000]:
        B.send(f"numrings {n}", str(hexagon.numRingsToHoldNumCells(n)), {"numCells": n})
    for n in (1, 7, 19, 37, 61, 91, 127, 169, 217, 271):
        if hexagon.numRingsToHoldNumCells(n) != _rings_for(n):
            fail_few(ctx, "numrings-complete-lattice", "a complete hex lattice of n rings holds 3n(n-1)+1 pins", {"numCells": n},
                     observed=hexagon.numRingsToHoldNumCells(n), expected=_rings_for(n))
    with common.scratch_dir("c18o-"):
        for t in range(ctx.pick(40, 300)):
            comps, facts = gen_pin_block(rng)
            if t < 3:
                # always present: two ducts, one clad, one wire, bundle larger than the inner duct but inside the outer one
                for _ in range(200):
                    if facts["mode"] == "exceeds-inner" and len(facts["ducts"]) == 2 and facts["has_wire"] and facts["npins"] > 1:
                        break
                    comps, facts = gen_pin_block(rng)
            names = [n for n, _ in comps]
            orders = [list(range(len(comps))), list(reversed(range(len(comps))))]
            # ducts outermost-first, everything else in place
            dpos = [k for k, (n, c) in enumerate(comps) if c.get("shape") == "Hexagon" and "duct" in n]
            if len(dpos) > 1:
                o = list(range(len(comps)))
                for a, b in zip(dpos, reversed(dpos)):
                    o[a] = b
                orders.append(o)
            for _ in range(ctx.pick(2, 5)):
                o = list(range(len(comps)))
                rng.shuffle(o)
                orders.append(o)
            results = []
            for o in orders:
                perm = [comps[k] for k in o]
                text = pin_block_yaml(perm)
                case = {"order": [n for n, _ in perm], "facts": {k: (round(v, 4) if isinstance(v, float) else v) for k, v in facts.items()},
                        "yaml": text, "yaml_canonical": pin_block_yaml(comps)}
                try:
                    b = build_block(text)
                    verdict, sig, msg = "built", block_signature(b), None
                except Exception as e:
                    verdict, sig, msg = "refused", None, f"{type(e).__name__}: {e}"[:160]
                results.append((o, verdict, sig, msg, case))
                ctx.count(f"pin blocks {verdict} ({facts['mode']}, {len(facts['ducts'])} duct(s){', 2 clads' if facts['two_clads'] else ''}{'' if facts['has_wire'] else ', no wire'})")
                if verdict != facts["expect"]:
                    if facts["expect"] == "refused":
                        key = "bp-inconsistent-accepted:overlapping-solids" if facts["mode"] == "overlap-liner" else "bp-inconsistent-accepted:pins-exceed-inner-duct"
                        fail_few(ctx, key, "blueprints that are inconsistent (overlapping solid components) are refused with an error, in whatever "
                                 "order the components are declared", case, observed="built", expected="refused")
                    else:
                        fail_few(ctx, "bp-wellformed-refused", "a well-formed blueprint builds", case, observed=msg)
                # the model on the components in THIS order
                def tok(n, c):
                    w = n.split()
                    isd, isc, isw = "duct" in w, n.rstrip("0123456789") == "clad", n == "wire"
                    q = lambda v: str(common.rat(v)) if isinstance(v, float) else "0"
                    return (f"{tilde(n)}:{'T' if isd else 'F'}:{'T' if isc else 'F'}:{'T' if isw else 'F'}:{q(c.get('op'))}:{q(c.get('ip'))}:"
                            f"{q(c.get('od')) if (isc or isw) else '0'}:{int(c.get('mult', 0) or 0)}")
                if facts["mode"] != "overlap-liner":
                    want_v = {"built": "accept", "refused": "refuse"}[verdict]
                    if facts["two_clads"]:
                        want_v = "skipped"
                    elif not facts["has_wire"]:
                        want_v = "nogap"
                    inner = tilde(sorted(b)[[c.name for c in sorted(b)].index(
                        [c.name for c in sorted(b) if "duct" in c.name.split()][0])].name) if verdict == "built" else tilde(facts["ducts"][0][0])
                    rings = "-" if facts["two_clads"] else str(facts["rings"])
                    B.send("pinduct [" + ",".join(tok(n, c) for n, c in perm) + "]", f"{want_v} duct={inner} rings={rings}", case)
                if verdict == "built":
                    # linked dimensions of the round components in THIS declaration order (Lean resolve / theorem resolve_perm)
                    rq, ex = [], []
                    for n_, c_ in perm:
                        if c_.get("shape") != "Circle":
                            continue
                        parts = [n_]
                        for dk in ("id", "od"):
                            v = c_[dk]
                            parts.append(f"{dk}=@{v}" if isinstance(v, str) else f"{dk}={common.rat(v)}")
                            ex.append(f"{n_}.{dk}={common.rat(dict(sig[0][n_][4])[dk])}")
                        rq.append(":".join(parts))
                    B.send("dims [" + ",".join(rq) + "]", "[" + ",".join(ex) + "]", case)
                ctx.case(("order", t, tuple(o), text), nontrivial=True,
                         sample={"order": case["order"], "verdict": verdict, "mode": facts["mode"]} if t < 2 and o is orders[1] else None)
            # the "too complicated" branches of verifyBlockDims on the built block itself: a second clad / second wire added in place
            if results[0][1] == "built" and facts["has_wire"]:
                import copy as _copy
                perm = list(comps)
                b = build_block(pin_block_yaml(perm))
                which = rng.choice(["clad", "wire"])
                extra = _copy.deepcopy(b.getComponentByName(which))
                extra.name = which + "2"
                b.add(extra)
                try:
                    b.verifyBlockDims()
                    got = "skipped"
                except Exception as e:
                    got = f"refuse ({type(e).__name__})"
                def tok2(n, c, nm=None):
                    w = n.split()
                    isd, isc, isw = "duct" in w, n == "clad", n == "wire"
                    q = lambda v: str(common.rat(v)) if isinstance(v, float) else "0"
                    return (f"{tilde(nm or n)}:{'T' if isd else 'F'}:{'T' if isc else 'F'}:{'T' if isw else 'F'}:{q(c.get('op'))}:{q(c.get('ip'))}:"
                            f"{q(c.get('od')) if (isc or isw) else '0'}:{int(c.get('mult', 0) or 0)}")
                cd = dict(comps)
                B.send("pinduct [" + ",".join(tok2(n, c) for n, c in perm) + "," + tok2(which, cd[which], which + "2") + "]",
                       f"{got} duct={tilde(facts['ducts'][0][0])} rings={'-' if which == 'clad' else facts['rings']}",
                       {"facts": str(facts)[:300], "added": which + "2"})
                ctx.count(f"verifyBlockDims with a second {which}: {got}")
            # same verdict, same block
            v0 = results[0]
            for o, verdict, sig, msg, case in results[1:]:
                if verdict != v0[1]:
                    fail_few(ctx, "bp-order-changes-verdict", "the order in which a block's components are declared does not change "
                             "whether the blueprint is accepted", case, observed=f"{verdict} ({msg})", expected=f"{v0[1]} in canonical order ({v0[3]})")
                elif verdict == "built" and not _sig_close(sig, v0[2]):
                    diff = [k for k in sig[0] if not _sig_close(sig[0][k], v0[2][0].get(k))] + [k for k in sig[1] if not _sig_close(sig[1][k], v0[2][1][k])]
                    fail_few(ctx, "bp-order-changes-block", "the constructed block does not depend on the declaration order of its components",
                             case, observed=diff[:6])
            # the built block against the document (independent reading of the numbers)
            if v0[1] == "built":
                sig, extra = v0[2]
                for n, c in comps:
                    got = dict(sig[n][4])
                    for k in ("ip", "op", "id", "od"):
                        if isinstance(c.get(k), float) and not math.isclose(got.get(k, float("nan")), c[k], rel_tol=1e-12, abs_tol=1e-12):
                            fail_few(ctx, "bp-component-dimension", "components have the specified cold dimensions", {"component": n, "dim": k,
                                     "yaml": v0[4]["yaml"]}, observed=got.get(k), expected=c[k])
                if extra["gap"] is not None and facts["has_wire"] and not facts["two_clads"]:
                    want = (facts["inner_ip"] - facts["bundle"]) / 2.0
                    if not math.isclose(extra["gap"], want, rel_tol=1e-9, abs_tol=1e-9):
                        fail_few(ctx, "bp-pin-duct-gap-not-innermost", "the pin-to-duct gap is measured against the innermost duct", v0[4],
                                 observed=extra["gap"], expected=want)
    B.flush("Blueprint model vs HexBlock.verifyBlockDims / numRingsToHoldNumCells (declaration order)")


# =========================================================================== flags from names
def run_flags(ctx):
    """Flags.fromStringIgnoreErrors on generated names vs the Lean word-splitting model (and the strict variant's verdict)."""
    from armi.reactor.flags import Flags
    rng = ctx.rng
    known = known_flags()
    phrases = ["grid plate", "grid", "inlet nozzle", "nozzle", "load pad", "handling socket", "guide tube", "fission chamber",
               "socket", "shield block", "shieldblock", "core barrel", "innerduct", "gap1", "gap2", "gap3", "gap4", "gap5",
               "liner1", "liner2", "liner"]
    junk = ["bogus", "x9", "12", "7", "fuelish", "b10", "b10x", "plate", "pad", "a1", "3a"]
    B = BP(ctx)
    for t in range(ctx.pick(400, 6000)):
        parts = []
        for _ in range(rng.randint(1, 5)):
            r = rng.random()
            w = rng.choice(known).lower() if r < 0.5 else rng.choice(phrases) if r < 0.75 else rng.choice(junk)
            if rng.random() < 0.25:
                w = w + str(rng.randint(0, 12))
            if rng.random() < 0.2:
                w = w.upper() if rng.random() < 0.5 else w.title()
            parts.append(w)
        name = (" " * rng.randint(1, 2)).join(parts)
        got = flag_words(Flags.fromStringIgnoreErrors(name))
        B.send("flags [" + ",".join(known) + "] " + tilde(name), "[" + ",".join(got) + "]", {"name": name})
        ctx.case(("flags", name), nontrivial=True, sample={"name": name, "flags": got} if t == 0 else None)
        # oracle: the strict parser accepts exactly the names the lenient one reads without dropping a word
        try:
            strict = flag_words(Flags.fromString(name))
            if strict != got:
                fail_few(ctx, "flags-strict-vs-lenient", "the strict and the error-ignoring flag parsers agree on names both accept",
                         {"name": name}, observed=strict, expected=got)
        except Exception:
            pass
    B.flush("Blueprint model (flagsOfName) vs Flags.fromStringIgnoreErrors")


# =========================================================================== custom isotopics
ISO_NUCS = ("U235", "U238", "ZR")


def gen_iso_doc(rng):
    """Blueprint documents whose fuel-like components take their composition from `custom isotopics`, SHARED between
    components and blocks, in all three input forms, with and without `density`, on Custom and library (UZr) materials,
    with material modifications on some (earlier-built) users of a shared vector."""
    isos = {}
    for name in rng.sample(["isoA", "isoB", "isoC"], rng.randint(1, 3)):
        form = rng.choice(["mass fractions", "number fractions", "number densities"])
        z = rng.choice([0.0, 0.0625, 0.125, 0.25])
        e = rng.choice([0.125, 0.25, 0.375])
        if form == "number densities":
            scale = rng.choice([0.02, 0.03125, 0.05])
            vals = {"U235": e * (1 - z) * scale, "U238": (1 - e) * (1 - z) * scale, "ZR": z * scale}
            dens = None
        else:
            vals = {"U235": e * (1 - z), "U238": (1 - e) * (1 - z), "ZR": z}
            dens = rng.choice([None, 10.0, 12.5, 15.75])
        isos[name] = dict(form=form, vals=vals, density=dens)
    names = list(isos)
    blocks = {}
    for bi in range(rng.randint(1, 3)):
        comps = {}
        for cn, od, mult in (("fuel", 0.75, 61.0), ("slug", 0.25, 7.0)):
            if cn == "slug" and rng.random() < 0.4:
                continue
            mat = rng.choice(["UZr", "UZr", "Custom", "UO2", "HT9"])
            tin = rng.choice([20.0, 25.0])
            comps[cn] = dict(shape="Circle", material=mat, isotopics=rng.choice(names), Tinput=tin,
                             Thot=tin if (mat == "Custom" or rng.random() < 0.4) else rng.choice([600.0, 450.0, 300.0]), id=0.0, od=od, mult=mult)
        if rng.random() < 0.5:
            # a FLUID with custom isotopics (and possibly a custom density): its density follows the fluid's own temperature law
            tin = rng.choice([200.0, 350.0])
            comps["pool"] = dict(shape="Circle", material=rng.choice(["Sodium", "Lead"]), isotopics=rng.choice(names), Tinput=tin,
                                 Thot=rng.choice([tin, 500.0]), id=0.0, od=0.5, mult=3.0)
        comps["coolant"] = dict(shape="DerivedShape", material="Sodium", Tinput=450.0, Thot=450.0)
        comps["duct"] = dict(shape="Hexagon", material="HT9", Tinput=25.0, Thot=25.0, ip=14.0, op=14.5, mult=1.0)
        blocks["fuel" if bi == 0 else f"fuel {bi}"] = comps
    bnames = list(blocks)
    nb = rng.randint(2, 4)
    heights = [rng.randint(20, 160) / 4.0 for _ in range(nb)]
    assems = {}
    for ai in range(rng.randint(1, 3)):
        bl = [rng.choice(bnames) for _ in range(nb)]
        a = dict(specifier=SPECS[ai], blocks=bl, height=list(heights), mesh=[1] * nb, xs=["A"] * nb)
        mm = {}
        # modifications on the EARLIER blocks, placeholders on the later ones
        def col(vals):
            return [rng.choice(vals) if (k == 0 or rng.random() < 0.3) else "" for k in range(nb)]
        if rng.random() < 0.8:
            mm["U235_wt_frac"] = col([0.5, 0.0, 0.75])
        if rng.random() < 0.4:
            mm["ZR_wt_frac"] = col([0.0, 0.2])
        if rng.random() < 0.5:
            mm["by component"] = {"fuel": {rng.choice(["U235_wt_frac", "ZR_wt_frac"]): col([0.3, 0.0, 0.15])}}
        for key, colv in mm.items():
            for cvals in ([colv] if key != "by component" else list(colv["fuel"].values())):
                for k, bname in enumerate(bl):
                    if blocks[bname]["fuel"]["material"] != "UZr" or any(c.get("material") in ("UO2", "HT9") and "isotopics" in c
                                                                         for c in blocks[bname].values()):
                        cvals[k] = ""
        if mm:
            a["matmods"] = mm
        assems[f"assem_{ai}"] = a
    specs = [a["specifier"] for a in assems.values()]
    contents = {c: rng.choice(specs) for c in hex_cells(1)}
    for k, sp in enumerate(specs):
        contents[hex_cells(1)[k]] = sp
    return dict(isos=isos, blocks=blocks, assems=assems, contents=contents, geom="hex", symmetry="full", use_map=False)


def iso_yaml(doc, reverse_assemblies=False):
    out = ["custom isotopics:"]
    for name, iso in doc["isos"].items():
        out.append(f"    {name}:")
        out.append(f"        input format: {iso['form']}")
        if iso["density"] is not None:
            out.append(f"        density: {iso['density']}")
        for n, v in iso["vals"].items():
            out.append(f"        {n}: {v!r}")
    d2 = dict(doc)
    if reverse_assemblies:
        d2["assems"] = dict(reversed(list(doc["assems"].items())))
    body = to_yaml(d2, None)
    return body.replace("blocks:\n", "\n".join(out) + "\nblocks:\n", 1)


def iso_massfracs(iso):
    """Independent mass fractions of a custom isotopic vector from the numbers in the text."""
    from armi.nucDirectory import nucDir
    A = {n: nucDir.getAtomicWeight(n) for n in iso["vals"]}
    if iso["form"] == "mass fractions":
        return dict(iso["vals"])
    tot = sum(v * A[n] for n, v in iso["vals"].items())
    return {n: v * A[n] / tot for n, v in iso["vals"].items()}


def group3(mf):
    return {"U235": mf.get("U235", 0.0), "U238": mf.get("U238", 0.0),
            "ZR": sum(v for n, v in mf.items() if n.startswith("ZR"))}


def expected_iso_composition(doc, ad, k, bt, cn):
    cd = doc["blocks"][bt][cn]
    base = iso_massfracs(doc["isos"][cd["isotopics"]])
    mods = {m: v for m, v in mods_for(ad, k, cn).items() if m in ("U235_wt_frac", "ZR_wt_frac")}
    if cd["material"] == "UZr" and mods:
        z = mods.get("ZR_wt_frac", 0.10)
        e = mods.get("U235_wt_frac", 0.10)
        base = dict(base)
        base.update({"ZR": z, "U235": e * (1.0 - z), "U238": (1.0 - e) * (1.0 - z)})
    return base, mods


def iso_signature(a):
    sig = {}
    for k, b in enumerate(a):
        for c in b:
            if c.name in ("fuel", "slug"):
                sig[(k, c.name)] = tuple(round(v, 14) for v in group3(c.material.massFrac).values()) + \
                    tuple(round(v, 14) for v in group3(c.getNumberDensities()).values())
    return sig


ISO_Q = []


def iso_density(iso):
    """The density a custom isotopic vector carries: explicit, or implied by `number densities` input (sum of N_i A_i / N_A)."""
    from armi.nucDirectory import nucDir
    from armi.utils import units
    if iso["form"] == "number densities":
        return sum(v * nucDir.getAtomicWeight(n) for n, v in iso["vals"].items()) / units.MOLES_PER_CC_TO_ATOMS_PER_BARN_CM
    return iso["density"]


def iso_mass_check(ctx, doc, text, case0):
    """A component whose custom isotopics carry a density holds the mass the input text describes:
      density x cold cross-section x mult x height.  Library SOLIDS at Thot != Tinput: with input heights considered hot the
      block height is the hot height, so the hot density is custom / (1 + dL/L)^2 (mass = custom x cold area x input height);
      with cold input heights the hot density is custom / (1 + dL/L)^3 (mass per hot cm = custom x cold area / (1 + dL/L)).
      Fluids follow their own density law (custom x rho(Thot) / rho(Tinput)), Custom materials hold the custom density as is.
    Thermal expansion and the fluids' density law are the material's own (parameters)."""
    import math
    from armi import settings
    from armi.reactor import blueprints
    from armi.materials import Fluid
    # ---- function level: ComponentBlueprint.construct under both height conventions (before any axial expansion)
    try:
        bp0 = blueprints.Blueprints.load(io.StringIO(text))
        bp0._prepConstruction(settings.Settings().modified(newSettings={"power": 1e6, "nCycles": 1, "burnSteps": 1}))
    except Exception as e:
        fail_few(ctx, "bp-wellformed-refused", "a well-formed blueprint builds", case0, observed=f"{type(e).__name__}: {e}"[:300])
        return
    for bt, comps in doc["blocks"].items():
        for design in bp0.blockDesigns[bt]:
            cd = comps.get(design.name)
            if not cd or "isotopics" not in cd:
                continue
            iso = doc["isos"][cd["isotopics"]]
            rho = iso_density(iso)
            if rho is None:
                continue
            for hot in (True, False):
                case = {**case0, "type": bt, "component": design.name, "material": cd["material"], "Tinput": cd["Tinput"], "Thot": cd["Thot"],
                        "isotopics": cd["isotopics"], "form": iso["form"], "custom density": rho, "inputHeightsConsideredHot": hot}
                try:
                    c = design.construct(bp0, {}, hot)
                except Exception as e:
                    fail_few(ctx, "bp-wellformed-refused", "a well-formed blueprint builds", case, observed=f"{type(e).__name__}: {e}"[:300])
                    continue
                if cd["material"] == "Custom":
                    kind, want = "Custom", rho
                elif isinstance(c.material, Fluid):
                    kind, want = "fluid", rho * c.material.density(Tc=cd["Thot"]) / c.material.density(Tc=cd["Tinput"])
                else:
                    dLL = c.material.linearExpansionFactor(Tc=cd["Thot"], T0=cd["Tinput"])
                    kind, want = "solid", rho / (1.0 + dLL) ** (2 if hot else 3)
                    ISO_Q.append((f"customdensity {'T' if hot else 'F'} {common.rat(rho)} {common.rat(dLL)}", c.density(), case))
                if abs(c.density() - want) > 1e-9 * want:
                    fail_few(ctx, f"bp-custom-density:{kind}", "a custom isotopic with a density gives the component that density at the input "
                             "temperature: hot input heights -> hot density = custom / (1 + dL/L)^2, cold input heights -> ^3", case,
                             observed=c.density(), expected=want)
                ctx.count(f"custom-density components constructed ({kind}, {'Thot = Tinput' if cd['Thot'] == cd['Tinput'] else 'Thot != Tinput'}, "
                          f"{'hot' if hot else 'cold'} input heights)")
    # ---- assembly level, default convention (input heights are hot): the mass the text describes
    for hot in (True,):
        cs = settings.Settings().modified(newSettings={"power": 1e6, "nCycles": 1, "burnSteps": 1, "inputHeightsConsideredHot": hot})
        try:
            bp = blueprints.Blueprints.load(io.StringIO(text))
            built = {an: bp.constructAssem(cs, name=an) for an in doc["assems"]}
        except Exception as e:
            fail_few(ctx, "bp-wellformed-refused", "a well-formed blueprint builds", {**case0, "inputHeightsConsideredHot": hot},
                     observed=f"{type(e).__name__}: {e}"[:300])
            continue
        for an, ad in doc["assems"].items():
            a = built[an]
            for k, (b, bt) in enumerate(zip(a, ad["blocks"])):
                for c in b:
                    cd = doc["blocks"][bt].get(c.name)
                    if not cd or "isotopics" not in cd:
                        continue
                    iso = doc["isos"][cd["isotopics"]]
                    rho = iso_density(iso)
                    if rho is None:
                        continue
                    mods = {m_: v for m_, v in mods_for(ad, k, c.name).items() if m_ in ("U235_wt_frac", "ZR_wt_frac")} if c.name == "fuel" or c.name == "slug" else {}
                    area_cold = math.pi / 4.0 * (cd["od"] ** 2 - cd["id"] ** 2) * cd["mult"]
                    h_in = ad["height"][k]
                    fluid = isinstance(c.material, Fluid)
                    if cd["material"] == "Custom":
                        kind, want_rho, want_mass = "Custom", rho, rho * area_cold * b.getHeight()
                    elif fluid:
                        ratio = c.material.density(Tc=cd["Thot"]) / c.material.density(Tc=cd["Tinput"])
                        kind, want_rho, want_mass = "fluid", rho * ratio, rho * ratio * area_cold * b.getHeight()
                    else:
                        dLL = c.material.linearExpansionFactor(Tc=cd["Thot"], T0=cd["Tinput"])
                        kind = "solid"
                        # the mass is the cold one under both conventions (cold input heights: the axial expansion that follows
                        # construction conserves it); hot heights: the hot density is custom / (1 + dL/L)^2
                        want_mass = rho * area_cold * h_in
                        want_rho = rho / (1.0 + dLL) ** 2 if hot else want_mass / (area_cold * (1.0 + dLL) ** 2 * b.getHeight())
                    case = {**case0, "design": an, "block": k, "type": bt, "component": c.name, "material": cd["material"], "Tinput": cd["Tinput"],
                            "Thot": cd["Thot"], "isotopics": cd["isotopics"], "form": iso["form"], "custom density": rho, "mods": mods,
                            "inputHeightsConsideredHot": hot, "height": h_in}
                    if hot and abs(b.getHeight() - h_in) > 1e-9:
                        fail_few(ctx, "bp-block-height", "blocks have the specified heights", case, observed=b.getHeight(), expected=h_in)
                    if abs(c.density() - want_rho) > 1e-9 * want_rho:
                        fail_few(ctx, f"bp-custom-density:{kind}", "a custom isotopic with a density gives the component that density at the input "
                                 "temperature (scaled to the hot state as the height convention implies)", case, observed=c.density(), expected=want_rho)
                    if abs(c.getMass() - want_mass) > 1e-9 * want_mass:
                        fail_few(ctx, f"bp-custom-density-mass:{kind}", "the component holds the mass the input text describes "
                                 "(density x cold area x mult x height)", case, observed=c.getMass(), expected=want_mass)
                    ctx.count(f"custom-density mass checked ({kind}, {'Thot = Tinput' if cd['Thot'] == cd['Tinput'] else 'Thot != Tinput'}, "
                              f"{'hot' if hot else 'cold'} input heights, {'explicit density' if iso['form'] != 'number densities' else 'implied by number densities'})")


def run_isotopics(ctx):
    del ISO_Q[:]
    from armi import settings
    from armi.nucDirectory import nucDir
    from armi.reactor import blueprints, reactors
    rng = ctx.rng
    cs = settings.Settings().modified(newSettings={"power": 1e6, "nCycles": 1, "burnSteps": 1})
    with common.scratch_dir("c18iso-"):
        for t in range(ctx.pick(40, 400)):
            doc = gen_iso_doc(rng)
            text = iso_yaml(doc)
            tag = f"iso#{t}"
            case0 = {"tag": tag, "yaml": text[:4000]}
            try:
                bp = blueprints.Blueprints.load(io.StringIO(text))
                first = {n: (group3(v.massFracs), dict(v), v.density) for n, v in bp.customIsotopics.items()}
                built = {}
                for rep in range(3):
                    for an in doc["assems"]:
                        built.setdefault(an, []).append(bp.constructAssem(cs, name=an))
            except Exception as e:
                fail_few(ctx, "bp-wellformed-refused", "a well-formed blueprint builds", case0, observed=f"{type(e).__name__}: {e}"[:300])
                continue
            # the parsed custom isotopics say what the text says, and construction leaves them alone
            for n, iso in doc["isos"].items():
                exp = group3(iso_massfracs(iso))
                got0 = first[n][0]
                if any(abs(got0[x] - exp[x]) > 1e-12 for x in exp):
                    fail_few(ctx, "bp-custom-isotopic-parsed", "a custom isotopic vector has the composition its text describes",
                             {**case0, "isotopic": n}, observed=got0, expected=exp)
                now = bp.customIsotopics[n]
                if (group3(now.massFracs), dict(now), now.density) != first[n]:
                    fail_few(ctx, "bp-custom-isotopics-mutated", "construction leaves the blueprint's custom isotopics unchanged",
                             {**case0, "isotopic": n}, observed=[group3(now.massFracs), dict(now)], expected=list(first[n][:2]))
            # per component composition
            for an, ad in doc["assems"].items():
                sigs = [iso_signature(a) for a in built[an]]
                if any(sg != sigs[0] for sg in sigs[1:]):
                    fail_few(ctx, "bp-nondeterministic", "construction is deterministic (1st, 2nd, 3rd assembly of a design agree)", {**case0, "design": an})
                a = built[an][0]
                for k, (b, bt) in enumerate(zip(a, ad["blocks"])):
                    for c in b:
                        if c.name not in ("fuel", "slug"):
                            continue
                        cd = doc["blocks"][bt][c.name]
                        iso = doc["isos"][cd["isotopics"]]
                        exp, mods = expected_iso_composition(doc, ad, k, bt, c.name)
                        case = {**case0, "design": an, "block": k, "type": bt, "component": c.name, "material": cd["material"],
                                "isotopics": cd["isotopics"], "form": iso["form"], "mods": mods}
                        got = group3(c.material.massFrac)
                        if any(abs(got[x] - exp[x]) > 1e-12 for x in exp):
                            fail_few(ctx, "bp-composition:custom-isotopics",
                                     "composition after the requested material modifications and isotopic overrides", case, observed=got, expected=exp)
                        nd = group3(c.getNumberDensities())
                        A = {x: nucDir.getAtomicWeight(x) for x in ("U235", "U238")}
                        heavy = nd["U235"] * A["U235"] + nd["U238"] * A["U238"]
                        if heavy > 0 and exp["U235"] + exp["U238"] > 0:
                            enr = nd["U235"] * A["U235"] / heavy
                            enr_exp = exp["U235"] / (exp["U235"] + exp["U238"])
                            if abs(enr - enr_exp) > 1e-9:
                                fail_few(ctx, "bp-composition:custom-isotopics", "the component's nuclide inventory has the described enrichment",
                                         case, observed=enr, expected=enr_exp)
                        if cd["material"] == "Custom" and iso["form"] == "number densities":
                            for x in ISO_NUCS:
                                if abs(nd[x] - iso["vals"][x]) > 1e-12 + 1e-9 * abs(iso["vals"][x]):
                                    fail_few(ctx, "bp-custom-number-densities", "a Custom material given number densities has exactly those", case,
                                             observed=nd, expected=iso["vals"])
                        if iso["density"] is not None and cd["Tinput"] == cd["Thot"] and not mods:
                            if abs(c.density() - iso["density"]) > 1e-9 * iso["density"]:
                                fail_few(ctx, "bp-custom-density", "a custom isotopic with a density gives the component that density", case,
                                         observed=c.density(), expected=iso["density"])
                        ctx.count(f"custom-isotopic components checked ({cd['material']}, {iso['form']}, "
                                  f"{'density' if iso['density'] is not None else 'no density'}, {'modified' if mods else 'unmodified'})")
            # mass from the input text for custom isotopics that carry a density, under both height conventions
            iso_mass_check(ctx, doc, text, {**case0, "yaml": text})
            # order independence: the same document with the assembly designs defined in the opposite order
            try:
                bp2 = blueprints.Blueprints.load(io.StringIO(iso_yaml(doc, reverse_assemblies=True)))
                for an in doc["assems"]:
                    if iso_signature(bp2.constructAssem(cs, name=an)) != iso_signature(built[an][0]):
                        fail_few(ctx, "bp-composition-order-dependent",
                                 "building the assembly designs in a different order gives the same per-component compositions", {**case0, "design": an})
                r = reactors.factory(cs, blueprints.Blueprints.load(io.StringIO(text)))
                for a in r.core:
                    if iso_signature(a) != iso_signature(built[a.getType()][0]):
                        fail_few(ctx, "bp-composition-order-dependent", "assemblies in the core have the compositions of their designs",
                                 {**case0, "design": a.getType()})
            except Exception as e:
                fail_few(ctx, "bp-wellformed-refused", "a well-formed blueprint builds", case0, observed=f"{type(e).__name__}: {e}"[:300])
            ctx.case(("iso", text), nontrivial=True, sample={"tag": tag, "isotopics": {n: v["form"] for n, v in doc["isos"].items()}} if t == 0 else None)
    if ISO_Q:
        out = lean_run("Blueprint", [q[0] for q in ISO_Q])
        for (r, dens, c), o in zip(ISO_Q, out):
            if o == "bad-op":
                raise common.Infra(f"Blueprint driver: bad-op for {r}")
            if not common.close(dens, common.unrat(o), 1e-9):
                ctx.disagree("Blueprint model (customDensityHot) vs ComponentBlueprint._setComponentCustomDensity", {"request": r, "case": {k: v for k, v in c.items() if k != "yaml"}},
                             o, repr(dens))
        ctx.count("model lines (custom density)", len(ISO_Q))
        del ISO_Q[:]


# =========================================================================== entry points
def limit_failures(ctx, per_key=3):
    """Ctx keeps the first 200 failures only: keep a few per key so that no key is crowded out by another."""
    orig, counts = ctx.fail, {}

    def fail(key, *a, **k):
        counts[key] = counts.get(key, 0) + 1
        if counts[key] <= per_key:
            orig(key, *a, **k)
    ctx.fail = fail


def run(ctx):
    limit_failures(ctx)
    ctx.rule = ("ascii maps: one case per (class, indexed contents) or (class, token lines); exhaustive over index sets of size <= 2 in "
                "a 5x5 box and over all hole patterns of <= 2-ring outlines with 2 labels, sampled beyond; grid blueprints: one case per "
                "(geom, symmetry, contents, input form) saved and reloaded; pin blocks: one case per (block, declaration order); third-core "
                "cores: one case per document (edge assemblies / outside location / plain); blueprints: one case per "
                "generated YAML document (distinct text); non-trivial = all")
    with mute():
        run_ascii(ctx)
        run_grids(ctx)
        run_order(ctx)
        run_third(ctx)
        run_stacks(ctx)
        run_blueprints(ctx)
        run_flags(ctx)
        run_isotopics(ctx)


def search(ctx, disagreements, broken):
    """Around a disagreeing case: evaluate the implementation-side oracles on the case itself and on its
    neighbourhood (cells removed / added one at a time for maps; fresh generated documents for blueprints)."""
    sub = common.Ctx(ctx.prop, ctx.tier, ctx.seed + 1000)
    limit_failures(sub)
    with mute():
        A = Ascii(sub)
        for d in disagreements[:30]:
            c = d.case if isinstance(d.case, dict) else {}
            c = c.get("case", c) if "kind" not in c else c
            kind = c.get("kind")
            if kind in KINDS and "geom" in c:
                cont = None
                if c.get("contents"):
                    cont = {}
                    for it in [x for x in c["contents"].strip("[]").split(",") if x]:
                        i, j, t = it.split(":")
                        cont[(int(i), int(j))] = t
                with common.scratch_dir("c18s-"):
                    grid_roundtrip(sub, kind, c.get("map"), cont, "search", combo=(c["geom"], c["symmetry"]))
                del GRID_Q[:]
            elif kind in KINDS and c.get("contents"):
                items = [x for x in c["contents"].strip("[]").split(",") if x]
                base = {}
                for it in items:
                    i, j, t = it.split(":")
                    base[(int(i), int(j))] = t
                A.write(kind, base, "search")
                for k in list(base):
                    A.write(kind, {q: v for q, v in base.items() if q != k}, "search-minus")
                for n in range(0, 5):
                    A.write(kind, {q: "A" for q in outline(kind, n)}, "search-complete")
            elif kind in KINDS and "lines" in c:
                for n in range(0, 5):
                    res = A.write(kind, {q: "A" for q in outline(kind, n)}, "search-complete")
                    if res and res[1]:
                        A.read(kind, [l.split() for l in res[1].strip().splitlines()], "search-complete")
        A.req, A.impl, A.cases = [], [], []
        reqs = [str((d.case if isinstance(d.case, dict) else {}).get("request", "")) for d in disagreements]
        if any(r.startswith(("pinduct", "numrings")) for r in reqs):
            run_order(sub)
        if any(r.startswith(("thirdload", "firstthird")) for r in reqs):
            run_third(sub)
        if any(r.startswith("customdensity") for r in reqs):
            run_isotopics(sub)
        if any(r and not r.startswith(("pinduct", "numrings", "thirdload", "firstthird", "customdensity")) for r in reqs):
            run_blueprints(sub)
    return [Failure(f.key, f.clause, f.case, f.observed, f.expected, "found by the directed search") for f in sub.failures]


def replay_custom_density(payload, case):
    """Re-evaluate one custom-density clause from the recorded YAML and the recorded numbers."""
    import math
    from armi import settings
    from armi.materials import Fluid
    from armi.reactor import blueprints
    res = []
    hot = bool(case.get("inputHeightsConsideredHot", True))
    rho = case["custom density"]
    with common.scratch_dir("c18r-"):
        cs = settings.Settings().modified(newSettings={"power": 1e6, "nCycles": 1, "burnSteps": 1, "inputHeightsConsideredHot": hot})
        bp = blueprints.Blueprints.load(io.StringIO(case["yaml"]))
        if "design" in case:
            a = bp.constructAssem(cs, name=case["design"])
            b = a[case["block"]]
            c = b.getComponentByName(case["component"])
        else:
            bp._prepConstruction(settings.Settings().modified(newSettings={"power": 1e6, "nCycles": 1, "burnSteps": 1}))
            design = [d for d in bp.blockDesigns[case["type"]] if d.name == case["component"]][0]
            c, b = design.construct(bp, {}, hot), None
        if case["material"] == "Custom":
            f = 1.0
        elif isinstance(c.material, Fluid):
            f = c.material.density(Tc=case["Thot"]) / c.material.density(Tc=case["Tinput"])
        else:
            f = 1.0 / (1.0 + c.material.linearExpansionFactor(Tc=case["Thot"], T0=case["Tinput"])) ** (2 if hot else 3)
        if b is None or "mass" not in str(payload.get("key")):
            if abs(c.density() - rho * f) > 1e-9 * rho * f:
                res.append({"density": c.density(), "expected": rho * f})
        else:
            area = math.pi / 4.0 * (c.getDimension("od", cold=True) ** 2 - c.getDimension("id", cold=True) ** 2) * c.getDimension("mult")
            solid = case["material"] != "Custom" and not isinstance(c.material, Fluid)
            want = rho * area * case["height"] if solid else rho * f * area * b.getHeight()
            if abs(c.getMass() - want) > 1e-9 * want:
                res.append({"mass": c.getMass(), "expected": want})
    return res


def replay(ctx, payload):
    case = payload.get("case") or {}
    res = []
    with mute():
        if case.get("kind") in KINDS and "geom" in case:
            # grid blueprint load -> saveToStream -> load: re-run the oracle on the recorded map / contents
            sub = common.Ctx(ctx.prop, ctx.tier, ctx.seed)
            cont = None
            if case.get("contents"):
                cont = {}
                for it in [x for x in case["contents"].strip("[]").split(",") if x]:
                    i, j, t = it.split(":")
                    cont[(int(i), int(j))] = t
            del GRID_Q[:]
            with common.scratch_dir("c18r-"):
                grid_roundtrip(sub, case["kind"], case.get("map"), cont, "replay", combo=(case["geom"], case["symmetry"]))
            del GRID_Q[:]
            known = {f["key"] for f in common.load_findings()["finding"] if f["property"] == ctx.prop}
            for f in sub.failures:
                if f.key == payload.get("key") or f.key not in known:
                    res.append({"key": f.key, "observed": f.observed, "expected": f.expected})
        elif "yaml" in case and str(payload.get("key", "")) in ("bp-xs-type", "bp-axial-mesh-points", "bp-block-attributes-by-position"):
            # per-position attributes against an independent reading of the recorded YAML
            from ruamel.yaml import YAML
            y = YAML(typ="safe").load(case["yaml"])
            with common.scratch_dir("c18r-"):
                r = build(case["yaml"])
                for a in r.core:
                    ad = y["assemblies"].get(a.getType())
                    if not ad:
                        continue
                    got = [(b.p.xsType, int(b.p.xsTypeNum), int(b.p.axMesh), b.getHeight()) for b in a]
                    want = [(x, int("".join("%02d" % ord(ch) for ch in x)), int(m_), float(h_))
                            for x, m_, h_ in zip(ad["xs types"], ad["axial mesh points"], ad["height"])]
                    if got != want:
                        res.append({"design": a.getType(), "built": got, "specified": want})
                        break
        elif "yaml" in case and str(payload.get("key", "")).startswith("bp-custom-density"):
            res += replay_custom_density(payload, case)
        elif "yaml" in case and "systems:" not in case["yaml"]:
            # a single block design (declaration-order stream)
            def verdict(text):
                try:
                    return "built", block_signature(build_block(text))
                except Exception as e:
                    return "refused", f"{type(e).__name__}: {e}"[:200]
            with common.scratch_dir("c18r-"):
                v, sig = verdict(case["yaml"])
                key = payload.get("key", "")
                if key.startswith("bp-inconsistent-accepted") and v == "built":
                    res.append({"accepted": True})
                elif key == "bp-wellformed-refused" and v == "refused":
                    res.append({"refused": sig})
                elif key.startswith("bp-order-changes") and case.get("yaml_canonical"):
                    v0, sig0 = verdict(case["yaml_canonical"])
                    if v0 != v or (v == "built" and not _sig_close(sig, sig0)):
                        res.append({"this order": v, "canonical order": v0})
        elif case.get("kind") in KINDS and "contents" in case:
            base = {}
            for it in [x for x in case["contents"].strip("[]").split(",") if x]:
                i, j, t = it.split(":")
                base[(int(i), int(j))] = t
            ans, text, back = impl_write(case["kind"], base)
            if ans != "reject" and text is not None and (back is None or data_of(back) != data_of(base)):
                res.append({"text": text, "reads back as": None if back is None else show_labels(data_of(back))})
        elif "yaml" in case:
            with common.scratch_dir("c18r-"):
                try:
                    build(case["yaml"])
                    if payload.get("key", "").startswith("bp-inconsistent-accepted"):
                        res.append({"accepted": True})
                except Exception as e:
                    if str(payload.get("key", "")).startswith("bp-wellformed-refused"):
                        res.append({"refused": f"{type(e).__name__}: {e}"[:300]})
    return res
