"""C19 - the nuclide directory and the material library are internally consistent.

Theorems: lean/ArmiVerif/Props/C19.lean (general injectivity/encoding theorems over Model/Nuclide.lean)
and lean/ArmiVerif/Props/C19Table.lean (`decide +kernel` over the table regenerated from /repo's
nuclides.dat, elements.dat, burn-chain.yaml and mcc-nuclides.yaml on every run, lifted by soundness lemmas).

Tie: (1) regeneration (a changed data file changes Gen/NuclideTable.lean; a table theorem that no longer
checks is a broken proof obligation -> `search` scans the data files for the offending rows);
(2) exhaustive correspondence: for every nuclide in nuclideBases.instances the Python ids equal the ids
rendered by the Lean model, and every by* dictionary returns that very object; the generated table is
cross-checked against what armi's own loader built.

Materials half: exhaustive enumeration of armi.materials at sampled temperatures (NOT a theorem).
"""
import collections
import inspect
import sys
import math
import os
import re
from decimal import Decimal
from fractions import Fraction

from harness import common
from harness.common import Failure, lean_run

PROP_MODULES = ["ArmiVerif.Props.C19", "ArmiVerif.Props.C19Strings", "ArmiVerif.Props.C19Table", "ArmiVerif.Props.C19Material", "ArmiVerif.Props.C19MaterialTable"]
GEN_MODULES = ["ArmiVerif.Gen.NuclideTable", "ArmiVerif.Props.C19Table", "ArmiVerif.Gen.MaterialTable", "ArmiVerif.Props.C19MaterialTable"]
PARTIAL = ("identifier STRINGS are proved injective (Props/C19Strings.lean: name, label, MCNP, AAAZZZS, database name as the "
           "character sequences Python produces, tied by exhaustive string comparison); MC2 ids are data (uniqueness per library "
           "column is a table theorem, pseudo-nuclides DUMP1/DUMP2 excluded: finding F18); lumped/dummy burn-chain products are "
           "defined in code and checked on the implementation only; the materials half is exhaustive enumeration of the material "
           "classes at sampled temperatures, not a theorem")
ASSUMPTIONS = [
    "translator harness/c19.py:regenerate (data only, no theorem text); its output is cross-checked on every run against "
    "the objects armi's own loader built from the same files",
    "material property correlations are sampled on a temperature grid over each property's stated validity range",
]

ABUND_SCALE = 10 ** 17
GEN_PATH = os.path.join(common.LEAN, "ArmiVerif", "Gen", "NuclideTable.lean")
NAME_RE = re.compile(r"^([A-Z]{1,2})(\d{1,3})(M[23]?|G)?$")


# ------------------------------------------------------------------------------------------ data files
def res(name):
    return os.path.join(common.REPO, "armi", "resources", name)


def sym_code(sym):
    sym = sym.upper()
    if not (1 <= len(sym) <= 2 and sym.isalpha() and sym.isascii()):
        return 27 * 27 + sum(ord(c) for c in sym)  # not a 1-2 letter symbol: a code no element row can have
    c = (ord(sym[0]) - 64) * 27
    if len(sym) == 2:
        c += ord(sym[1]) - 64
    return c


def str_code(s):
    """injective natural code of a non-empty ascii string (base 256, no NUL characters)"""
    n = 0
    for ch in str(s).encode():
        n = n * 256 + ch
    return n


def read_nuclides():
    """rows of nuclides.dat exactly as addNuclideBases splits them (no armi import)"""
    rows = []
    with open(res("nuclides.dat")) as f:
        for ln, line in enumerate(f, 1):
            if line.startswith("#") or line.startswith("Z"):
                continue
            d = line.split()
            if not d:
                continue
            rows.append({"line": ln, "z": int(d[0]), "n": int(d[1]), "a": int(d[2]), "s": int(d[3]),
                         "sym": d[4].upper(), "abund": Decimal(d[6]), "abund_f": float(d[6])})
    return rows


def read_elements():
    out = []
    with open(res("elements.dat")) as f:
        for line in f:
            if line.startswith("#") or line.startswith("Z"):
                continue
            d = line.split()
            if not d:
                continue
            out.append((int(d[0]), d[1].upper()))
    return out


def load_yaml(name):
    from ruamel.yaml import YAML

    y = YAML(typ="rt")
    with open(res(name)) as f:
        return y.load(f)


def resolve_name(name, symz):
    """name -> (z, a, s) following _createName and updateNuclideBasesForSpecialCases; None if not of nuclide form."""
    m = NAME_RE.match(str(name))
    if not m:
        return None
    sym, a, suf = m.group(1), int(m.group(2)), m.group(3)
    s = {None: 0, "M": 1, "M2": 2, "M3": 3, "G": 0}[suf]
    if str(name) == "AM242":
        s = 1  # byName["AM242"] is pointed at AM242M by updateNuclideBasesForSpecialCases
    z = symz.get(sym, 0)
    return (z, a, s)


def full_key(z, a, s):
    return (z * 1000 + a) * 10 + s


def abund_int(dec):
    v = dec * ABUND_SCALE
    if v != v.to_integral_value() or v < 0:
        # finer than 1e-17 or negative: keep the table exact by scaling to a value that fails the sum check
        return int(abs(v)) + 7 * ABUND_SCALE
    return int(v)


def chain_entries(symz):
    """[(parentName, kind, type, productNames, branch)] from burn-chain.yaml"""
    out = []
    data = load_yaml("burn-chain.yaml")
    for parent, info in data.items():
        for cat in info or []:
            for kind, v in cat.items():
                if kind in ("transmutation", "decay"):
                    br = v.get("branch", None)
                    br = 1.0 if br is None else br
                    out.append((str(parent), kind, str(v.get("type")), [str(p) for p in v["products"]], br))
    return out


def build_tables():
    rows = read_nuclides()
    elements = read_elements()
    symz = {s: z for z, s in elements}
    groups = collections.OrderedDict()
    for r in sorted(rows, key=lambda r: (r["z"], r["a"], r["s"], r["line"])):
        groups.setdefault((r["z"], r["sym"]), []).append(r)
    chain = chain_entries(symz)
    known = set()
    trans = []
    for parent, kind, typ, prods, br in chain:
        pk = resolve_name(parent, symz)
        pkey = full_key(*pk) if pk else 0
        known.add(pkey)
        pkeys = []
        for p in prods:
            k = resolve_name(p, symz)
            if k is not None:
                pkeys.append(full_key(*k))
                known.add(pkeys[-1])
        try:
            q = Fraction(float(br))
        except (TypeError, ValueError, OverflowError):
            q = Fraction(2)
        trans.append((pkey, pkeys, q.numerator, q.denominator))
    mcc = load_yaml("mcc-nuclides.yaml")
    cols = {}
    mcckeys = set()
    for colname in ("ENDF/B-V.2", "ENDF/B-VII.0", "ENDF/B-VII.1"):
        col = []
        for name, ids in mcc.items():
            name = str(name)
            if name.startswith("DUMP"):
                continue
            v = ids[colname]
            if v is None:
                continue
            k = resolve_name(name, symz)
            key = full_key(*k) if k else 0
            if key:
                mcckeys.add(key)
            col.append((str_code(v), key, str(v), name))
        cols[colname] = sorted(col)
    # per element, the natural isotopics AS THE LOADED IMPLEMENTATION REPORTS THEM (Element.getNaturalIsotopics), when armi
    # is importable; from the data (abundance > 0, isomers included) otherwise
    naturals = []
    impl = None
    mod = sys.modules.get("armi.nucDirectory.elements")
    if mod is not None and getattr(mod, "byZ", None):
        impl = mod.byZ
    for (z, sym), isos in groups.items():
        if impl is not None and z in impl:
            try:
                ks = sorted(n.a * 10 + n.state for n in impl[z].getNaturalIsotopics())
            except Exception:  # noqa
                ks = [0]
        else:
            ks = sorted(r["a"] * 10 + r["s"] for r in isos if r["abund"] > 0 and r["a"] > 0)
        naturals.append((z, ks))
    return {"naturals": naturals, "rows": rows, "elements": elements, "groups": groups, "trans": trans, "known": sorted(known),
            "cols": cols, "mcckeys": sorted(mcckeys), "chain": chain, "symz": symz, "mcc": mcc}


def render(t):
    L = ["/- GENERATED by harness/c19.py from /repo/armi/resources/{nuclides.dat,elements.dat,burn-chain.yaml,"
         "mcc-nuclides.yaml}. Data only. -/",
         "import ArmiVerif.Model.Nuclide", "namespace ArmiVerif.Nuclide.Gen", "open ArmiVerif.Nuclide", ""]
    L.append("/-- elements.dat sorted by symbol code -/")
    es = sorted((sym_code(s), z, s) for z, s in t["elements"])
    L.append("def elements : List Elem := [")
    L.append(",\n".join(f"  ⟨{z}, {c}⟩ /-{s}-/" for c, z, s in es))
    L.append("]\n")
    gnames = []
    for gi, ((z, sym), isos) in enumerate(t["groups"].items()):
        nm = f"g{gi}"
        gnames.append(nm)
        a0 = min(r["a"] for r in isos)
        body = ", ".join(f"⟨{r['a']},{r['s']},{r['n']},{abund_int(r['abund'])}⟩" for r in isos)
        L.append(f"def {nm} : Group := ⟨{z}, {sym_code(sym)} /-{sym}-/, {a0}, [{body}]⟩")
    L.append("")
    L.append("def groups : List Group := [" + ", ".join(gnames) + "]\n")
    L.append("/-- per element (same order as `groups`): the natural isotopics reported by Element.getNaturalIsotopics as a*10+state -/")
    L.append("def naturals : List (Nat × List Nat) := [" + ", ".join(f"({z}, [{', '.join(map(str, ks))}])" for z, ks in t["naturals"]) + "]\n")
    L.append("/-- sorted distinct nuclide keys ((z*1000+a)*10+s) named by burn-chain.yaml -/")
    L.append("def chainNuclides : List Nat := [" + ", ".join(str(k) for k in t["known"]) + "]\n")
    L.append("def chain : List Trans := [")
    L.append(",\n".join(f"  ⟨{p}, [{', '.join(map(str, ks))}], {n}, {d}⟩" for p, ks, n, d in t["trans"]))
    L.append("]\n")
    for nm, colname in (("mcc2", "ENDF/B-V.2"), ("mcc3v70", "ENDF/B-VII.0"), ("mcc3v71", "ENDF/B-VII.1")):
        L.append(f"/-- {colname}: (id code, nuclide key or 0 for an elemental entry) sorted by id; DUMP1/DUMP2 excluded -/")
        L.append(f"def {nm} : List (Nat × Nat) := [")
        L.append(",\n".join(f"  ({c}, {k}) /-{s} {n}-/" for c, k, s, n in t["cols"][colname]))
        L.append("]\n")
    L.append("def mccKeys : List Nat := [" + ", ".join(str(k) for k in t["mcckeys"]) + "]\n")
    L.append("end ArmiVerif.Nuclide.Gen")
    return "\n".join(L) + "\n"


def regenerate(ctx):
    """Rewrite Gen/NuclideTable.lean from /repo's data files (write-if-changed). No armi import needed."""
    t = build_tables()
    src = render(t)
    old = None
    if os.path.exists(GEN_PATH):
        with open(GEN_PATH) as f:
            old = f.read()
    if old != src:
        os.makedirs(os.path.dirname(GEN_PATH), exist_ok=True)
        tmp = GEN_PATH + f".tmp{os.getpid()}"
        with open(tmp, "w") as f:
            f.write(src)
        os.replace(tmp, GEN_PATH)
        ctx.count("regenerated Gen/NuclideTable.lean (content changed)")
    ctx.count("table rows regenerated", len(t["rows"]))
    if getattr(ctx, "import_error", None) is None and "armi" in sys.modules:
        regenerate_materials(ctx)
    return list(GEN_MODULES)



# ------------------------------------------------------------------------------------------ polynomial correlations -> Lean
MAT_GEN_PATH = os.path.join(common.LEAN, "ArmiVerif", "Gen", "MaterialTable.lean")

class NotPoly(Exception): pass

class Poly:
    """polynomial in one variable with exact rational coefficients; comparisons are decided at the probe point"""
    __array_priority__ = 1000
    def __init__(self, cs, probe):
        cs=list(cs)
        while len(cs)>1 and cs[-1]==0: cs.pop()
        self.cs=cs; self.probe=probe
    @staticmethod
    def lift(o, probe):
        if isinstance(o, Poly): return o
        if isinstance(o,Fraction): return Poly([o],probe)
        if isinstance(o,(int,float)) and not isinstance(o,bool):
            if not math.isfinite(o): raise NotPoly('nonfinite')
            return Poly([Fraction(o)], probe)
        try:
            import numpy as np
            if isinstance(o,(np.floating,np.integer)): return Poly([Fraction(float(o))],probe)
        except ImportError: pass
        raise NotPoly(f'operand {type(o)}')
    def val(self):
        x=Fraction(self.probe); return sum(c*x**k for k,c in enumerate(self.cs))
    def __add__(s,o):
        o=Poly.lift(o,s.probe); n=max(len(s.cs),len(o.cs))
        return Poly([(s.cs[i] if i<len(s.cs) else 0)+(o.cs[i] if i<len(o.cs) else 0) for i in range(n)], s.probe)
    __radd__=__add__
    def __neg__(s): return Poly([-c for c in s.cs], s.probe)
    def __pos__(s): return s
    def __sub__(s,o): return s+(-Poly.lift(o,s.probe))
    def __rsub__(s,o): return Poly.lift(o,s.probe)-s
    def __mul__(s,o):
        o=Poly.lift(o,s.probe); r=[Fraction(0)]*(len(s.cs)+len(o.cs)-1)
        for i,a in enumerate(s.cs):
            for j,b in enumerate(o.cs): r[i+j]+=a*b
        return Poly(r,s.probe)
    __rmul__=__mul__
    def __truediv__(s,o):
        o=Poly.lift(o,s.probe)
        if len(o.cs)!=1 or o.cs[0]==0: raise NotPoly('division by a polynomial')
        return Poly([c/o.cs[0] for c in s.cs], s.probe)
    def __rtruediv__(s,o): raise NotPoly('division by a polynomial')
    def __pow__(s,n):
        if isinstance(n,float) and n.is_integer(): n=int(n)
        if not isinstance(n,int) or n<0 or n>12: raise NotPoly(f'power {n}')
        r=Poly([Fraction(1)],s.probe)
        for _ in range(n): r=r*s
        return r
    def __rpow__(s,o): raise NotPoly('exponential')
    def _cmp(s,o): 
        o=Poly.lift(o,s.probe); return s.val(), o.val()
    def __lt__(s,o): a,b=s._cmp(o); return a<b
    def __le__(s,o): a,b=s._cmp(o); return a<=b
    def __gt__(s,o): a,b=s._cmp(o); return a>b
    def __ge__(s,o): a,b=s._cmp(o); return a>=b
    def __eq__(s,o):
        try: a,b=s._cmp(o)
        except NotPoly: return False
        return a==b
    def __ne__(s,o): return not s.__eq__(o)
    __hash__=None
    def __float__(s): raise NotPoly('float()')
    def __abs__(s): return s if s.val()>=0 else -s
    def __array_ufunc__(s, ufunc, method, *a, **k):
        import numpy as np
        if ufunc is np.isnan: return False
        raise NotPoly('numpy ufunc')
    def __bool__(s): return s.val()!=0

_MISSING = object()
def p_float(x):
    import builtins
    return x if isinstance(x, Poly) else builtins.float(x)
def p_getTk(Tc=None, Tk=None):
    if not ((Tc is not None) ^ (Tk is not None)): raise ValueError
    return Tk if Tk is not None else Tc + 273.15
def p_getTc(Tc=None, Tk=None):
    if not ((Tc is not None) ^ (Tk is not None)): raise ValueError
    return Tc if Tc is not None else Tk - 273.15
def p_interp(x, xp, fp, *a, **k):
    if a or k: raise NotPoly('interp options')
    if not isinstance(x,Poly): 
        import numpy; return numpy.interp(x,xp,fp)
    xp=[float(v) for v in xp]; fp=[float(v) for v in fp]
    v=float(x.val())
    if v<=xp[0]: return Poly([Fraction(fp[0])],x.probe)
    if v>=xp[-1]: return Poly([Fraction(fp[-1])],x.probe)
    import bisect
    i=bisect.bisect_right(xp,v)-1
    # numpy: slope*(x-xp[i])+fp[i]
    slope=(Fraction(fp[i+1])-Fraction(fp[i]))/(Fraction(xp[i+1])-Fraction(xp[i]))
    return (x-xp[i])*slope+fp[i]

class _patched:
    def __init__(self, cls): self.cls=cls; self.saved=[]
    def __enter__(self):
        import numpy as np
        import armi.utils.units as _units
        for name,fn in (('getTk',p_getTk),('getTc',p_getTc)):   # `units.getTk(...)` spelled through the module
            self.saved.append((_units,name,getattr(_units,name))); setattr(_units,name,fn)
        for k in self.cls.__mro__:
            mod=sys.modules.get(getattr(k,'__module__',''))
            if mod is None or not mod.__name__.startswith('armi.materials'): continue
            for name,fn in (('getTk',p_getTk),('getTc',p_getTc),('interp',p_interp)):
                if hasattr(mod,name):
                    self.saved.append((mod,name,getattr(mod,name))); setattr(mod,name,fn)
            # `float(T)` inside a correlation: the identity on a symbolic temperature (module global shadows the builtin)
            self.saved.append((mod,'float',mod.__dict__.get('float',_MISSING))); setattr(mod,'float',p_float)
        return self
    def __exit__(self,*a):
        for mod,name,old in self.saved:
            if old is _MISSING: delattr(mod,name)
            else: setattr(mod,name,old)

def extract(m, fn, unit, lo, hi, cuts):
    """pieces [(a,b,coeffs)] of fn on [lo,hi] or a string reason"""
    pts=sorted({lo,hi}|{c for c in cuts if lo<c<hi})
    pieces=[]
    with _patched(type(m)), common.quiet():
        for a,b in zip(pts,pts[1:]):
            mid=(Fraction(a)+Fraction(b))/2
            x=Poly([Fraction(0),Fraction(1)], mid)
            try:
                r=getattr(m,fn)(Tk=x) if unit=='K' else getattr(m,fn)(Tc=x)
            except NotPoly as e: return f'not polynomial: {e}'
            except Exception as e: return f'raises {type(e).__name__}: {e}'
            try: r=Poly.lift(r,mid)
            except NotPoly as e: return f'not polynomial: {e}'
            if pieces and pieces[-1][2]==r.cs: pieces[-1]=(pieces[-1][0],b,r.cs)
            else: pieces.append((a,b,r.cs))
    return pieces



def _imul(a, b, l, h):
    c = (a * l, a * h, b * l, b * h)
    return min(c), max(c)


def poly_range(cs, a, b):
    """interval Horner, the same computation as Model/Nuclide.lean polyRange"""
    lo = hi = Fraction(0)
    for c in reversed(cs):
        l, h = _imul(a, b, lo, hi)
        lo, hi = c + l, c + h
    return lo, hi


def subintervals_needed(cs, lo, hi, lb, ub):
    """smallest n in 1, 2, 4, ... 1024 for which the Lean check `checkPiece` succeeds; None if none does"""
    lo, hi = Fraction(lo), Fraction(hi)
    n = 1
    while n <= 1024:
        w = (hi - lo) / n
        ok = True
        a = lo
        for _ in range(n):
            l, h = poly_range(cs, a, a + w)
            if not (lb < l and h < ub):
                ok = False
                break
            a += w
        if ok:
            return n
        n *= 2
    return None


def poly_value(cs, x):
    x = Fraction(x)
    return sum(c * x ** k for k, c in enumerate(cs))


def material_plans(m):
    """(function, unit, lo, hi, kind) whose correlation is looked at: the ranges are the ones run_materials samples"""
    from armi.materials import material as mm

    c = type(m)
    pvt = dict(getattr(m, "propertyValidTemperature", {}) or {})
    drange = next((k for k in DENSITY_KEYS if k in pvt), None)
    erange = next((k for k in PERCENT_KEYS + ("linear expansion",) if k in pvt), None)
    src = drange or erange
    plans = []
    if src:
        (lo, hi), unit = pvt[src]
        for fn in ("density", "pseudoDensity"):
            plans.append((fn, unit, lo, hi, "positive"))
        unwrap = lambda f: getattr(f, "__wrapped__", f)  # Material.__init_subclass__ wraps density in every subclass
        base = [fn for fn in ("density", "pseudoDensity") if unwrap(getattr(c, fn)) is unwrap(getattr(mm.Material, fn))]
        if base and isinstance(m.refDens, (int, float)) and m.refDens > 0:
            plans.append(("linearExpansionPercent", unit, lo, hi, "density-by-base-formula:" + "+".join(base)))
    for k in PERCENT_KEYS + ("linear expansion",):
        if k in pvt:
            (lo2, hi2), unit2 = pvt[k]
            plans.append(("linearExpansionPercent", unit2, lo2, hi2, "bounded"))
    return plans


def build_material_table():
    """symbolic execution of every material's density / expansion methods with a polynomial in place of the temperature:
    -> (pieces, report). A piece is emitted when the method is a (piecewise) polynomial on the range; the number of sub-intervals
    the Lean interval check needs is found here with the same arithmetic. report[(material, fn, kind)] says proved / why sampled."""
    pieces, report = [], {}
    for c in material_classes():
        name = c.__name__
        if c.__module__.split(".")[-1] in ABSTRACT_MODULES:
            continue
        try:
            with common.quiet():
                m = c()
        except Exception:  # noqa
            continue
        nums = set()
        for k in c.__mro__:
            modname = getattr(k, "__module__", "")
            if modname.startswith("armi.materials") and not modname.endswith(".material"):
                if modname not in _SRC_NUMS:
                    source_temperatures(c, 0.0, 1.0, None, 10 ** 9)
                nums |= _SRC_NUMS.get(modname, set())
        seen = set()
        for fn, unit, lo, hi, kind in material_plans(m):
            if (fn, unit, lo, hi, kind) in seen or not lo < hi:
                continue
            seen.add((fn, unit, lo, hi, kind))
            cuts = sorted({cc for v in nums for cc in (v, v - 273.15, v + 273.15) if lo < cc < hi})
            r = extract(m, fn, unit, lo, hi, cuts)
            key = (name, fn, kind, unit, lo, hi)
            if isinstance(r, str):
                report[key] = "sampled: " + r
                continue
            lb, ub = ((Fraction(0), Fraction(10 ** 6)) if kind == "positive" else (Fraction(-100), Fraction(1000))
                      if kind.startswith("density-by") else (Fraction(-10 ** 6), Fraction(10 ** 6)))
            ref = Fraction(float(m.refDens)) if kind.startswith("density-by") else Fraction(0)
            out = []
            for a, b, cs in r:
                n = subintervals_needed(cs, a, b, lb, ub)
                if n is None:
                    # does the polynomial itself leave the bounds (then the obligation is emitted and BREAKS), or is only the
                    # enclosure too coarse (then the piece stays sampled)?
                    fa, fb = Fraction(a), Fraction(b)
                    bad = [fa + (fb - fa) * i / 512 for i in range(513) if not lb < poly_value(cs, fa + (fb - fa) * i / 512) < ub]
                    if bad:
                        n = 16
                    else:
                        out = None
                        break
                out.append({"material": name, "fn": fn, "kind": kind, "unit": unit, "lo": Fraction(a), "hi": Fraction(b), "cs": cs,
                            "lb": lb, "ub": ub, "n": n, "refDens": ref})
            if out is None:
                report[key] = "sampled: interval enclosure too coarse"
            else:
                pieces += out
                report[key] = f"proved ({len(out)} piece{'s' if len(out) != 1 else ''}, degree {max(len(p['cs']) - 1 for p in out)})"
                if kind.startswith("density-by"):
                    for bfn in kind.split(":")[1].split("+"):
                        report[(name, bfn, "positive", unit, lo, hi)] = ("proved through matDensity_pos: base-class formula, reference density "
                                                                        f"{float(m.refDens):g} > 0, expansion piece above -100 %")
    return pieces, report


def _q(x):
    x = Fraction(x)
    return f"({x.numerator} : Rat)" if x.denominator == 1 else f"(({x.numerator} : Rat) / {x.denominator})"


def render_material_table(pieces):
    L = ["/- GENERATED by harness/c19.py (build_material_table) from the material classes of /repo/armi/materials: the density / "
         "expansion methods that are piecewise polynomials in the temperature, obtained by running the methods on a symbolic "
         "polynomial. Data only. -/",
         "import ArmiVerif.Model.Nuclide", "namespace ArmiVerif.Nuclide.GenMat", "open ArmiVerif.Nuclide", ""]
    for listname, sel in (("boundPieces", lambda p: not p["kind"].startswith("density-by")),
                          ("densityPieces", lambda p: p["kind"].startswith("density-by"))):
        rows = [p for p in pieces if sel(p)]
        L.append(f"def {listname} : List Piece := [")
        L.append(",\n".join(
            f"  ⟨\"{p['material']}\", \"{p['fn']} [{p['kind']}] T in {p['unit']}\", {_q(p['lo'])}, {_q(p['hi'])}, "
            f"[{', '.join(_q(c) for c in p['cs'])}], {_q(p['lb'])}, {_q(p['ub'])}, {p['n']}, {_q(p['refDens'])}⟩" for p in rows))
        L.append("]\n")
    L.append("end ArmiVerif.Nuclide.GenMat")
    return "\n".join(L) + "\n"


def regenerate_materials(ctx):
    pieces, report = build_material_table()
    src = render_material_table(pieces)
    old = open(MAT_GEN_PATH).read() if os.path.exists(MAT_GEN_PATH) else None
    if old != src:
        tmp = MAT_GEN_PATH + f".tmp{os.getpid()}"
        with open(tmp, "w") as f:
            f.write(src)
        os.replace(tmp, MAT_GEN_PATH)
        ctx.count("regenerated Gen/MaterialTable.lean (content changed)")
    ctx.count("material correlation pieces regenerated", len(pieces))
    ctx.material_table = (pieces, report)


# ------------------------------------------------------------------------------------------ table scan (pure Python)
def scan_tables(t=None):
    """Evaluate the table clauses directly on the data files; returns Failures naming the offending rows.
    Used by `search` when a table theorem no longer checks (and as a cheap oracle on every run)."""
    t = t or build_tables()
    out = []
    rows, symz = t["rows"], t["symz"]
    zsym = {z: s for z, s in t["elements"]}
    seen = {}
    ids = {"name": {}, "label": {}, "mcnp": {}, "aaazzzs": {}}
    for r in rows:
        k = (r["z"], r["a"], r["s"])
        where = {"line": r["line"], "z": r["z"], "a": r["a"], "s": r["s"], "sym": r["sym"]}
        if k in seen:
            out.append(Failure("nuclide-table-duplicate-row", "no two nuclides share (z, a, state) / any identifier",
                               {"rows": [seen[k], where]}))
        seen.setdefault(k, where)
        if zsym.get(r["z"]) != r["sym"]:
            out.append(Failure("nuclide-table-wrong-element", "each nuclide belongs to the element with its atomic number",
                               where, observed=r["sym"], expected=zsym.get(r["z"])))
        if r["z"] + r["n"] != r["a"]:
            out.append(Failure("nuclide-table-z-plus-n", "Z + N = A", where))
        if not (1 <= r["a"] < 400 and 0 <= r["s"] <= 3):
            out.append(Failure("nuclide-table-id-range", "mass number / state within the range the id formats can hold", where))
        # structured ids, computed independently of the Lean model
        z, a, s, sym = r["z"], r["a"], r["s"], r["sym"]
        aa = a
        if z == 95 and a == 242:
            if s != 1:
                aa += 300 + 100 * max(s, 1)
        elif s > 0:
            aa += 300 + 100 * s
        cand = {"name": (sym, a, "G" if (z, a, s) == (95, 242, 0) else s), "mcnp": f"{z}{aa:03d}",
                "aaazzzs": f"{a}{z:03d}{s}", "label": (sym, (a % (10 ** (4 - len(sym)))) // 10, a % 10 + 10 * s)}
        for kind, v in cand.items():
            if v in ids[kind] and ids[kind][v] != k and k != seen.get(k) and False:
                pass
            if v in ids[kind] and ids[kind][v]["line"] != r["line"] and (ids[kind][v]["z"], ids[kind][v]["a"], ids[kind][v]["s"]) != k:
                out.append(Failure(f"nuclide-table-shared-{kind}", f"no two nuclides share a {kind} id",
                                   {"rows": [ids[kind][v], where], "id": str(v)}))
            ids[kind].setdefault(v, where)
    byz = collections.defaultdict(list)
    for r in rows:
        byz[r["z"]].append(r)
    for z, rs in sorted(byz.items()):
        nat = [r for r in rs if r["abund"] > 0]
        if any(r["abund"] < 0 for r in rs):
            out.append(Failure("nuclide-table-abundance-negative", "abundances are fractions", {"z": z}))
        ssum = sum(r["abund"] for r in nat)
        if nat and abs(ssum - 1) > Decimal(len(nat)) * Decimal("1e-5"):
            out.append(Failure("nuclide-table-abundance-sum", "natural abundances of an element sum to one (or it has none)",
                               {"z": z, "symbol": rs[0]["sym"], "isotopes": [f"{r['sym']}{r['a']}" for r in nat]},
                               observed=str(ssum), expected="1 +- n*1e-5"))
        if max(r["a"] for r in rs) - min(r["a"] for r in rs) >= 100:
            out.append(Failure("nuclide-table-mass-range", "isotopes of one element span < 100 mass numbers (labels/MCNP ids "
                               "keep the mass number modulo 100)", {"z": z}))
    have = set(seen)
    for parent, kind, typ, prods, br in t["chain"]:
        case = {"parent": parent, "kind": kind, "type": typ, "products": prods, "branch": br}
        pk = resolve_name(parent, symz)
        if pk is None or pk not in have:
            out.append(Failure("burn-chain-unknown-parent", "every burn-chain nuclide exists", case, observed=parent))
        for p in prods:
            k = resolve_name(p, symz)
            if k is not None and k not in have:
                out.append(Failure("burn-chain-unknown-product", "every decay/transmutation product named in the burn chain exists",
                                   case, observed=p))
        try:
            ok = 0.0 <= float(br) <= 1.0
        except (TypeError, ValueError):
            ok = False
        if not ok:
            out.append(Failure("burn-chain-branch-range", "branching fractions lie in [0, 1]", case, observed=br))
    for colname, col in t["cols"].items():
        last = None
        for code, key, idstr, name in col:
            if last is not None and last[0] == code:
                out.append(Failure("mcc-id-shared", "no two nuclides share an MC2 id within one library",
                                   {"library": colname, "id": idstr, "nuclides": [last[3], name]}))
            last = (code, key, idstr, name)
            k = resolve_name(name, symz)
            if k is not None and k not in have:
                out.append(Failure("mcc-unknown-nuclide", "mcc-nuclides.yaml names only existing nuclides",
                                   {"library": colname, "name": name}))
    return out


def search(ctx, disagreements, broken):
    out = []
    if broken:
        out += scan_tables()
        if any("Material" in str(b[0]) for b in broken):
            out += scan_material_table()
    if disagreements:
        # re-evaluate the oracle on the real objects named by the disagreeing cases
        sub = type(ctx)(ctx.prop, ctx.tier, ctx.seed)
        try:
            run_directory(sub)
        except Exception:  # noqa
            pass
        out += sub.failures
    return out


# ------------------------------------------------------------------------------------------ directory half
def run_directory(ctx):
    from armi.nucDirectory import elements, nucDir
    from armi.nucDirectory import nuclideBases as nb

    t = build_tables()
    inst = list(nb.instances)
    req, impl, cases = [], [], []
    kinds = collections.Counter()
    tableKeys = {(r["z"], r["a"], r["s"]): r for r in t["rows"]}
    a0OfZ = {}
    for r in t["rows"]:
        a0OfZ[r["z"]] = min(a0OfZ.get(r["z"], r["a"]), r["a"])
    seenKeys = set()
    idsets = collections.defaultdict(dict)

    def same(d, k, n):
        return d.get(k) is n

    for n in inst:
        kind = type(n).__name__
        kinds[kind] += 1
        case = {"nuclide": n.name, "class": kind, "z": n.z, "a": n.a, "state": n.state}
        # --- every identifier retrieves this very object
        for what, d, key in (("name", nb.byName, n.name), ("label", nb.byLabel, n.label),
                             ("dbname", nb.byDBName, n.getDatabaseName())):
            if not same(d, key, n):
                ctx.fail(f"lookup-by-{what}", f"by{what} lookup of a nuclide's own {what} returns that nuclide", case,
                         observed=getattr(d.get(key), "name", None), expected=n.name)
            prev = idsets[what].setdefault(key, n)
            if prev is not n:
                ctx.fail(f"shared-{what}", f"no two nuclides share a {what}", {"id": key, "nuclides": [prev.name, n.name]})
        if isinstance(n, nb.IMcnpNuclide):
            mid = n.getMcnpId()
            if not same(nb.byMcnpId, mid, n):
                ctx.fail("lookup-by-mcnp", "byMcnpId lookup returns that nuclide", case,
                         observed=getattr(nb.byMcnpId.get(mid), "name", None))
            prev = idsets["mcnp"].setdefault(mid, n)
            if prev is not n:
                ctx.fail("shared-mcnp", "no two nuclides share an MCNP id", {"id": mid, "nuclides": [prev.name, n.name]})
            if not (mid.isdigit() and int(mid) // 1000 == n.z):
                ctx.fail("mcnp-encodes-z", "the MCNP id starts with the atomic number", case, observed=mid)
        for lib, getter, d in (("mcc2", n.getMcc2Id, nb.byMcc2Id), ("mcc3-VII.0", n.getMcc3IdEndfbVII0, nb.byMcc3IdEndfbVII0),
                               ("mcc3-VII.1", n.getMcc3IdEndfbVII1, nb.byMcc3IdEndfbVII1), ("mcc3", n.getMcc3Id, nb.byMcc3Id)):
            try:
                key = getter()
            except Exception as e:  # noqa
                ctx.fail("mcc-id-getter", "MC2 id getters work for every nuclide", dict(case, library=lib), observed=repr(e))
                continue
            if not key or key is NotImplementedError:
                continue
            ctx.count(f"{lib} ids")
            if not same(d, key, n):
                other = getattr(d.get(key), "name", None)
                k = "mcc-id-shared-by-dummy-nuclides" if isinstance(n, nb.DummyNuclideBase) else "lookup-by-mcc"
                ctx.fail(k, "MC2 id lookup of a nuclide's own id returns that nuclide; no two nuclides share an id",
                         dict(case, library=lib, id=key), observed=other, expected=n.name)
        # --- element membership, for EVERY instance (isotopes, elementals, dummy and lumped pseudo-nuclides), by identity
        e = n.element
        ez = elements.byZ.get(n.z)
        if not (e is not None and e.z == n.z and ez is e and elements.bySymbol.get(e.symbol) is e):
            ctx.fail("element-membership", "each nuclide belongs to the element with its atomic number", case,
                     observed=[getattr(e, "z", None), getattr(e, "symbol", None)])
        else:
            for what, lst in (("element.nuclides", e.nuclides), ("nuclideBases.isotopes(z)", nb.isotopes(n.z)),
                              ("nucDir.getNuclides(elementSymbol)", nucDir.getNuclides(elementSymbol=e.symbol)),
                              ("iter(element)", list(e))):
                if sum(1 for m in lst if m is n) != 1:
                    ctx.fail("element-lists-its-nuclide", "every nuclide is listed exactly once, by identity, by the element with its atomic number",
                             dict(case, query=what), observed=[getattr(m, "name", None) for m in lst][:12])
            if n.name not in nucDir.getNuclideNames(elementSymbol=e.symbol):
                ctx.fail("element-lists-its-nuclide", "every nuclide is listed by the element with its atomic number",
                         dict(case, query="nucDir.getNuclideNames(elementSymbol)"))
            if nucDir.getNuclide(n.name) is not n and n.name != "AM242":
                ctx.fail("lookup-by-name", "nucDir.getNuclide(name) returns that nuclide", case)
        # --- model correspondence
        if isinstance(n, nb.NuclideBase):
            aid = n.getAAAZZZSId()
            if not same(nb.byAAAZZZSId, aid, n):
                ctx.fail("lookup-by-aaazzzs", "byAAAZZZSId lookup returns that nuclide", case)
            prev = idsets["aaazzzs"].setdefault(aid, n)
            if prev is not n:
                ctx.fail("shared-aaazzzs", "no two nuclides share an AAAZZZS id", {"id": aid, "nuclides": [prev.name, n.name]})
            if not (aid.isdigit() and int(aid) % 10 == n.state and (int(aid) // 10) % 1000 == n.z and int(aid) // 10000 == n.a):
                ctx.fail("aaazzzs-encodes-zas", "the AAAZZZS id encodes a, z and the state", case, observed=aid)
            # documented encodings, evaluated independently of the Lean model (ZAID = Z*1000 + A, +300+100m for isomers,
            # Am-242 ground/metastable swapped; label = symbol + tens of A + one character for (A mod 10, state))
            za = n.a
            if (n.z, n.a) == (95, 242):
                za += {0: 400, 1: 0}.get(n.state, 300 + 100 * n.state)
            elif n.state > 0:
                za += 300 + 100 * n.state
            if n.getMcnpId() != f"{n.z}{za:03d}":
                ctx.fail("mcnp-encodes-zas", "the MCNP id encodes z, a and the isomeric state (ZAID convention, +300+100m)", case,
                         observed=n.getMcnpId(), expected=f"{n.z}{za:03d}")
            lastc = "0123456789ABCDEFGHIJKLMNOPQRSTUVWXYZabcd"[(n.a % 10) + 10 * n.state] if n.state <= 3 else "?"
            explabel = f"{e.symbol}{(n.a % (10 ** (4 - len(e.symbol)))) // 10}{lastc}"
            suffix = "G" if (n.z, n.a, n.state) == (95, 242, 0) else ["", "M", "M2", "M3"][n.state] if n.state <= 3 else "?"
            if n.label != explabel or n.name != f"{e.symbol}{n.a}{suffix}" or n.getDatabaseName() != "n" + n.name.capitalize():
                ctx.fail("name-label-encode-zas", "name, label and database name encode the element, a and the isomeric state", case,
                         observed=[n.name, n.label, n.getDatabaseName()], expected=[f"{e.symbol}{n.a}{suffix}", explabel])
            if not (n.name.startswith(e.symbol + str(n.a)) and n.label.startswith(e.symbol)):
                ctx.fail("name-encodes-element-and-a", "name = symbol + mass number (+ isomer suffix)", case, observed=[n.name, n.label])
            req.append(f"ids {n.z} {n.a} {n.state} {e.symbol}")
            impl.append(f"{n.name} {n.label} {n.getMcnpId()} {aid} {n.getDatabaseName()}")
            cases.append(case)
            # the proved decoders applied to the ids the IMPLEMENTATION produced give back this nuclide's (z, a, state)
            if aid.isdigit() and n.getMcnpId().isdigit() and n.z in a0OfZ:
                req.append(f"mcnpdec {a0OfZ[n.z]} {int(n.getMcnpId())}")
                impl.append(f"{n.z} {n.a} {n.state}")
                cases.append(dict(case, decode="MCNP id", id=n.getMcnpId()))
                req.append(f"aaadec {int(aid)}")
                impl.append(f"{n.z} {n.a} {n.state}")
                cases.append(dict(case, decode="AAAZZZS id", id=aid))
            key = (n.z, n.a, n.state)
            seenKeys.add(key)
            row = tableKeys.get(key)
            if row is None or row["sym"] != e.symbol or row["abund_f"] != n.abundance:
                ctx.disagree("Gen/NuclideTable rows vs nuclideBases.instances", case, str(row), [e.symbol, n.abundance])
        elif isinstance(n, nb.NaturalNuclideBase):
            req.append(f"nat {n.z} {e.symbol}")
            impl.append(f"{n.name} {n.label} {n.getMcnpId()} {n.getDatabaseName()}")
            cases.append(case)
        ctx.case(("nuclide", n.name), nontrivial=True,
                 sample={"nuclide": n.name, "label": n.label, "mcnp": getattr(n, "getMcnpId", lambda: None)()} if n.name in ("U235", "AM242M") else None)
    # elements.dat as the translator read it vs armi's own loader, row by row (both directions)
    implEl = {z: e.symbol for z, e in elements.byZ.items()}
    genEl = {z: sym for z, sym in t["elements"]}
    if implEl != genEl or len(genEl) != len(t["elements"]):
        diff = sorted(set(implEl.items()) ^ set(genEl.items()))[:6]
        ctx.disagree("Gen/NuclideTable elements vs elements.byZ", "element rows", str(diff), f"{len(genEl)} vs {len(implEl)}")
    for z, e in elements.byZ.items():
        if elements.bySymbol.get(e.symbol) is not e or elements.byName.get(e.name) is not e:
            ctx.fail("element-lookup", "an element is found under its atomic number, its symbol and its name", {"z": z, "symbol": e.symbol})
    # OBSERVATION (outside the property statement, therefore not a failure): the element look-ups by symbol / by name of
    # elements.py fail for every element (getName indexes byName with a symbol; getSymbol/getElementZ lower-case the name while
    # byName is keyed 'Neon'); see notes/candidate-fixes-C19/elements-lookup-by-symbol-and-name.diff
    obs = collections.Counter()
    for z, e in elements.byZ.items():
        for label, f in (("elements.getName(symbol=)", lambda: elements.getName(symbol=e.symbol) == e.name),
                         ("elements.getSymbol(name=)", lambda: elements.getSymbol(name=e.name) == e.symbol),
                         ("elements.getElementZ(name=)", lambda: elements.getElementZ(name=e.name) == z),
                         ("elements.getElementZ(symbol=)", lambda: elements.getElementZ(symbol=e.symbol) == z),
                         ("elements.getName(z)", lambda: elements.getName(z) == e.name)):
            try:
                obs[label + (" ok" if f() else " wrong")] += 1
            except KeyError:
                obs[label + " KeyError"] += 1
    ctx.extra["observation_element_lookups"] = dict(obs)
    if seenKeys != set(tableKeys):
        ctx.disagree("Gen/NuclideTable rows vs nuclideBases.instances", "row sets", sorted(set(tableKeys) - seenKeys)[:5],
                     sorted(seenKeys - set(tableKeys))[:5])
    # --- the public retrieval helpers (continuation round): spelled names (U-235, U_235), scan by name, MC2 label, isotopics
    special = [n for n in inst if not isinstance(n, nb.NuclideBase)]
    sampleN = special + ctx.rng.sample([n for n in inst if isinstance(n, nb.NuclideBase)], ctx.pick(250, 1500))
    for n in sampleN:
        if n.name == "AM242":
            continue
        case = {"nuclide": n.name, "class": type(n).__name__}
        spellings = [n.name]
        m = NAME_RE.match(n.name)
        if m and isinstance(n, nb.NuclideBase):
            rest = n.name[len(m.group(1)):]
            spellings += [m.group(1) + "-" + rest, m.group(1) + "_" + rest]
        for sp in spellings:
            for fname, f in (("nucDir.getNuclide", nucDir.getNuclide), ("nucDir.getNuclideFromName", nucDir.getNuclideFromName)):
                try:
                    got = f(sp)
                except Exception as e:  # noqa
                    got = repr(e)
                if got is not n:
                    ctx.fail("lookup-by-name", f"{fname}(name) returns that nuclide, also for the spellings U-235 / U_235", dict(case, spelling=sp, function=fname),
                             observed=getattr(got, "name", got), expected=n.name)
        try:
            ok = nb.fromName(n.name) is n and nucDir.getMc2Label(n.name) == n.label
        except Exception as e:  # noqa
            ok = False
        if not ok:
            ctx.fail("lookup-by-name", "nuclideBases.fromName(name) finds exactly that nuclide and nucDir.getMc2Label(name) is its label", case)
        try:
            iso = nb.getIsotopics(n.name)
            if isinstance(n, nb.NuclideBase):
                okI = len(iso) == 1 and iso[0] is n
            elif isinstance(n, nb.NaturalNuclideBase):
                okI = [id(x) for x in iso] == [id(x) for x in n.element.getNaturalIsotopics()] and all(x.z == n.z for x in iso)
            else:
                okI = iso == []
        except Exception as e:  # noqa
            okI = False
        if not okI:
            ctx.fail("isotopics-of-name", "getIsotopics(name) is the nuclide itself, the natural isotopes of an elemental nuclide, or nothing for pseudo-nuclides", case)
        ctx.evaluations += 1
    ctx.count("retrieval helpers checked on nuclides", len(sampleN))
    # --- no stale dictionary entries: every value is an instance and the key is one of its ids (aliases counted)
    live = {id(n) for n in inst}
    for what, d, ids_of in (("name", nb.byName, lambda n: [n.name]), ("label", nb.byLabel, lambda n: [n.label]),
                            ("dbname", nb.byDBName, lambda n: [n.getDatabaseName()]),
                            ("mcnp", nb.byMcnpId, lambda n: [n.getMcnpId()]), ("aaazzzs", nb.byAAAZZZSId, lambda n: [n.getAAAZZZSId()])):
        for k, v in d.items():
            if id(v) not in live:
                ctx.fail(f"stale-entry-by-{what}", "every dictionary value is a nuclide of the directory", {"key": k})
            elif k not in ids_of(v):
                ctx.count(f"alias keys in by{what}")
                if k not in ("AM242", "nAm242"):
                    ctx.fail(f"alias-entry-by-{what}", "a dictionary key that is not the nuclide's own id", {"key": k, "nuclide": v.name})
    # --- per element: the element's list holds exactly the instances with its z (no drop, no stranger, no repeat)
    perz = collections.Counter(n.z for n in inst)
    for z, e in sorted(elements.byZ.items()):
        if len(e.nuclides) != perz.get(z, 0) or any(m.z != z or id(m) not in {id(x) for x in inst} for m in e.nuclides):
            ctx.fail("element-nuclide-count", "an element lists exactly the nuclides of the directory with its atomic number",
                     {"element": e.symbol, "z": z}, observed=[m.name for m in e.nuclides][:15],
                     expected=[x.name for x in inst if x.z == z][:15])
    for z in perz:
        if z not in elements.byZ:
            ctx.fail("element-membership", "each nuclide belongs to the element with its atomic number", {"z": z})
    # --- abundances per element (float data as loaded)
    for z, e in sorted(elements.byZ.items()):
        nat = e.getNaturalIsotopics()
        # every nuclide of the element with a natural abundance (ground state or isomer, e.g. Ta-180m) is a natural isotopic
        should = [x for x in inst if isinstance(x, nb.NuclideBase) and x.z == z and x.abundance > 0.0]
        if {id(x) for x in should} != {id(x) for x in nat}:
            ctx.fail("natural-isotopics-complete", "an element's natural isotopics are exactly its nuclides of non-zero abundance",
                     {"element": e.symbol}, observed=[x.name for x in nat], expected=[x.name for x in should])
        if nat:
            ssum = math.fsum(x.abundance for x in nat)
            if abs(ssum - 1.0) > min(len(nat) * 1e-5, 5e-5):
                ctx.fail("abundance-sum", "natural abundances of an element sum to one", {"element": e.symbol}, observed=ssum)
            natural = nb.byName.get(e.symbol)
            mean = math.fsum(x.weight * x.abundance for x in nat) / ssum
            if not isinstance(natural, nb.NaturalNuclideBase) or natural.z != z:
                ctx.fail("elemental-nuclide-missing", "a naturally occurring element has an elemental nuclide named by its symbol",
                         {"element": e.symbol}, observed=str(natural))
            elif not math.isclose(natural.weight, mean, rel_tol=1e-4) or not math.isclose(e.standardWeight, mean, rel_tol=1e-9):
                ctx.fail("elemental-weight", "the elemental nuclide's weight is the abundance-weighted mean of its isotopes' weights",
                         {"element": e.symbol}, observed=[natural.weight, e.standardWeight], expected=mean)
        if e.isNaturallyOccurring() != bool(nat):
            ctx.fail("abundance-none", "an element either has natural isotopes or none", {"element": e.symbol})
        ctx.case(("element", z), nontrivial=bool(nat))
    # --- burn chain
    if not nb.burnChainImposed:
        with common.quiet(), open(res("burn-chain.yaml")) as f:
            try:
                nb.imposeBurnChain(f)
            except Exception as e:  # noqa
                ctx.fail("burn-chain-load", "the shipped burn chain can be imposed on the directory", {}, observed=repr(e))
    ntrans = 0
    implChain = []
    for n in inst:
        for tr in list(n.trans) + list(n.decays):
            ntrans += 1
            case = {"parent": n.name, "type": tr.type, "products": list(tr.productNuclides), "branch": tr.branch}
            for p in tr.productNuclides:
                if p not in nb.byName:
                    ctx.fail("burn-chain-unknown-product", "every decay/transmutation product named in the burn chain exists",
                             case, observed=p)
            if not (isinstance(tr.branch, (int, float)) and 0.0 <= tr.branch <= 1.0):
                ctx.fail("burn-chain-branch-range", "branching fractions lie in [0, 1]", case, observed=tr.branch)
            pk = full_key(n.z, n.a, n.state)
            keys = []
            for p in tr.productNuclides:
                o = nb.byName.get(p)
                if isinstance(o, nb.NuclideBase):
                    keys.append(full_key(o.z, o.a, o.state))
            q = Fraction(float(tr.branch))
            implChain.append((pk, tuple(keys), q.numerator, q.denominator))
            ctx.case(("trans", n.name, tr.type, tuple(tr.productNuclides)), nontrivial=True)
    genChain = [(p, tuple(k), a, b) for p, k, a, b in t["trans"]]
    if sorted(genChain) != sorted(implChain):
        diff = sorted(set(genChain) ^ set(implChain))[:4]
        ctx.disagree("Gen/NuclideTable chain vs imposed burn chain", "chain entries", str(diff), f"{len(genChain)} vs {len(implChain)}")
    ctx.count("burn-chain transmutations/decays", ntrans)
    # --- generated MC2 columns vs armi's dictionaries
    for colname, d in (("ENDF/B-V.2", nb.byMcc2Id), ("ENDF/B-VII.0", nb.byMcc3IdEndfbVII0), ("ENDF/B-VII.1", nb.byMcc3IdEndfbVII1)):
        for code, key, idstr, name in t["cols"][colname]:
            o = d.get(idstr)
            okey = full_key(o.z, o.a, o.state) if isinstance(o, nb.NuclideBase) else 0
            if o is None or okey != key or o is not nb.byName.get(name):
                ctx.disagree("Gen/NuclideTable mcc column vs byMcc dictionaries", {"library": colname, "id": idstr, "name": name},
                             key, getattr(o, "name", None))
    # --- model vs implementation, exhaustive
    model = lean_run("Nuclide", req)
    ctx.compare("Model/Nuclide.lean ids vs NuclideBase ids", cases, model, impl)
    ctx.evaluations += len(req)
    for k, v in kinds.items():
        ctx.count(f"instances {k}", v)
    ctx.samples.append({"request": req[0], "model": model[0], "impl": impl[0]})
    # cheap independent re-evaluation of the table clauses on the data files
    for f in scan_tables(t):
        ctx.fail(f.key, f.clause, f.case, f.observed, f.expected)
    return len(inst)


# ------------------------------------------------------------------------------------------ directory mutators
REBUILD_SCRIPT = r"""
import json, sys
sys.path.insert(0, sys.argv[1])
import armi
if not armi.isConfigured():
    armi.configure(permissive=True)
from armi.nucDirectory import nuclideBases as nb, elements
old = {id(n) for n in nb.instances}
nOld = len(nb.instances)
out = {"raised": None}
try:
    nb.destroyGlobalNuclides()
    nb.factory()
except Exception as e:
    out["raised"] = repr(e)
new = {id(n) for n in nb.instances}
out["instances"] = [nOld, len(nb.instances)]
stale, missing, wrongcount = [], [], []
for z, e in elements.byZ.items():
    st = [n.name for n in e.nuclides if id(n) not in new]
    if st:
        stale.append([e.symbol, len(st), st[:3]])
    have = {id(n) for n in e.nuclides}
    ms = [n.name for n in nb.instances if n.z == z and id(n) not in have]
    if ms:
        missing.append([e.symbol, len(ms), ms[:3]])
out["stale"], out["missing"] = stale[:5], missing[:5]
out["nstale"], out["nmissing"] = len(stale), len(missing)
bad = []
for d, name in ((nb.byName, "byName"), (nb.byLabel, "byLabel"), (nb.byDBName, "byDBName"), (nb.byMcnpId, "byMcnpId"),
                (nb.byAAAZZZSId, "byAAAZZZSId"), (nb.byMcc2Id, "byMcc2Id"), (nb.byMcc3Id, "byMcc3Id")):
    k = sum(1 for v in d.values() if id(v) not in new)
    if k:
        bad.append([name, k])
    if not d:
        bad.append([name, "empty"])
out["staleIndexEntries"] = bad
out["elementOfNuclideStale"] = sum(1 for n in nb.instances if n.element is not elements.byZ.get(n.z))
print("REBUILD-RESULT " + json.dumps(out))
"""


def run_mutators(ctx):
    """public mutators of the process-global directory keep the indices truthful (labels restored afterwards)"""
    import json
    import subprocess
    import sys as _sys

    from armi.nucDirectory import nuclideBases as nb

    inst = list(nb.instances)
    snap = {name: dict(getattr(nb, name)) for name in ("byName", "byDBName", "byLabel", "byMcnpId", "byAAAZZZSId", "byMcc2Id",
                                                        "byMcc3IdEndfbVII0", "byMcc3IdEndfbVII1")}
    labels0 = {id(n): n.label for n in inst}
    picks = [nb.byName[x] for x in ("U235", "PU239", "AM242M", "FE56", "NA23", "FE", "LFP35")]
    picks += ctx.rng.sample([n for n in inst if isinstance(n, nb.NuclideBase)], 4)

    def truthful(case, relabelled):
        """every nuclide is found under its CURRENT label; the other indices are untouched"""
        for n in inst:
            if nb.byLabel.get(n.label) is not n:
                ctx.fail("changeLabel-current-label-resolves", "after changeLabel every nuclide is found in byLabel under its current label",
                         dict(case, nuclide=n.name, label=n.label), observed=getattr(nb.byLabel.get(n.label), "name", None))
                break
        for name in snap:
            if name != "byLabel":
                d = getattr(nb, name)
                if d.keys() != snap[name].keys() or any(d[k] is not snap[name][k] for k in d):
                    ctx.fail("changeLabel-other-indices-changed", "changeLabel leaves the other indices unchanged", dict(case, index=name))
        for n, old in relabelled:
            if old != n.label and nb.byLabel.get(old) is n:
                ctx.count("oracle: old label still resolves after changeLabel")
                if ctx.hist["oracle: old label still resolves after changeLabel"] <= 2:
                    ctx.fail("changeLabel-old-label-still-resolves", "after changeLabel the old label no longer resolves to the nuclide",
                             dict(case, nuclide=n.name, oldLabel=old, newLabel=n.label), observed=n.name, expected=None)

    fresh = iter(f"Zq{i:02d}" for i in range(100))
    try:
        for k, n in enumerate(picks):
            orig = n.label
            case = {"nuclide": n.name, "label": orig}
            # idempotent relabel
            nb.changeLabel(n, orig)
            truthful(dict(case, sequence=["relabel to the current label"]), [(n, orig)])
            ctx.case(("changeLabel", "idempotent", n.name), nontrivial=True)
            # away and back
            tmp = next(fresh)
            while tmp in nb.byLabel:
                tmp = next(fresh)
            nb.changeLabel(n, tmp)
            truthful(dict(case, sequence=["relabel to " + tmp]), [(n, orig)])
            nb.changeLabel(n, orig)
            truthful(dict(case, sequence=["relabel to " + tmp, "relabel back"]), [(n, tmp)])
            ctx.case(("changeLabel", "away-and-back", n.name), nontrivial=True)
        # several nuclides relabelled, then restored in another order
        temps = []
        for n in picks[:5]:
            tmp = next(fresh)
            temps.append((n, n.label, tmp))
            nb.changeLabel(n, tmp)
        truthful({"sequence": ["relabel five nuclides"]}, [(n, old) for n, old, _ in temps])
        for n, old, tmp in reversed(temps):
            nb.changeLabel(n, old)
        truthful({"sequence": ["relabel five nuclides", "restore in reverse order"]}, [(n, tmp) for n, _, tmp in temps])
        ctx.case(("changeLabel", "several"), nontrivial=True)
        # addGlobalNuclide refuses a nuclide that is already there and leaves the directory alone
        u = nb.byName["U235"]
        try:
            nb.addGlobalNuclide(u)
            ctx.fail("addGlobalNuclide-duplicate-accepted", "adding a nuclide that already exists is refused", {"nuclide": "U235"})
        except ValueError:
            pass
        if len(nb.instances) != len(inst) or any(a is not b for a, b in zip(nb.instances, inst)):
            ctx.fail("addGlobalNuclide-duplicate-changes-directory", "a refused addition leaves the directory unchanged", {"nuclide": "U235"})
    except common.Infra:
        raise
    except Exception as e:  # noqa  (a mutator that raises on a legal call sequence)
        ctx.fail("directory-mutator-raises", "changeLabel / addGlobalNuclide sequences on existing nuclides do not raise unexpectedly",
                 {"sequence": "changeLabel idempotent / away-and-back / several; duplicate addGlobalNuclide"}, observed=repr(e))
    finally:
        for n in inst:
            n.label = labels0[id(n)]
        nb.byLabel.clear()
        nb.byLabel.update(snap["byLabel"])
    # destroyGlobalNuclides + factory: in a SUBPROCESS (the directory is process-global and other modules hold its objects)
    p = subprocess.run([_sys.executable, "-c", REBUILD_SCRIPT, common.REPO], capture_output=True, text=True, timeout=600,
                       cwd=os.environ.get("VERIF_TMP") or "/tmp", env=dict(os.environ, TERRAPOWER_ARMI_VERIF="1"))
    line = [l for l in p.stdout.split("\n") if l.startswith("REBUILD-RESULT ")]
    if not line:
        raise common.Infra("rebuild subprocess gave no result: " + (p.stderr or p.stdout)[-800:])
    res = json.loads(line[0][len("REBUILD-RESULT "):])
    ctx.case(("rebuild",), nontrivial=True)
    ctx.extra["directory_rebuild"] = res
    if res["raised"]:
        ctx.fail("rebuild-raises", "destroyGlobalNuclides() + factory() rebuilds the directory", {}, observed=res["raised"])
    if res["instances"][0] != res["instances"][1]:
        ctx.fail("rebuild-instance-count", "a rebuilt directory has the same nuclides", {}, observed=res["instances"])
    if res["nstale"] or res["nmissing"]:
        ctx.fail("rebuild-elements-hold-stale-nuclides",
                 "after a rebuild every element lists the NEW nuclide objects and no stale ones", {"sequence": ["destroyGlobalNuclides", "factory"]},
                 observed={"elements with stale objects": res["nstale"], "elements missing new objects": res["nmissing"],
                           "examples": res["stale"][:2]})
    if res["staleIndexEntries"]:
        ctx.fail("rebuild-indices-stale", "after a rebuild every by* index refers to the new objects only", {}, observed=res["staleIndexEntries"])


# ------------------------------------------------------------------------------------------ materials half
ABSTRACT_MODULES = ("material", "custom", "void", "mixture")
DENSITY_KEYS = ("density", "pseudoDensity")
PERCENT_KEYS = ("linear expansion percent", "cumulative linear expansion", "thermal expansion")


def material_classes():
    from armi import materials
    from armi.materials import material as mm

    out = []
    for name in sorted(dir(materials)):
        c = getattr(materials, name)
        if inspect.isclass(c) and issubclass(c, mm.Material) and c.__module__.startswith("armi.materials"):
            out.append(c)
    return out


_SRC_NUMS = {}


def source_temperatures(cls, lo, hi, rng, cap):
    """temperatures at which a piecewise correlation may switch: every numeric literal of the material's module (and of the modules
    of its base classes inside armi.materials) that falls inside [lo, hi] read as the stated unit or converted K<->C, with the
    adjacent doubles and +-0.25 on both sides"""
    import ast

    nums = set()
    for k in cls.__mro__:
        modname = getattr(k, "__module__", "")
        if not modname.startswith("armi.materials") or modname.endswith(".material"):
            continue
        if modname not in _SRC_NUMS:
            vals = set()
            try:
                tree = ast.parse(inspect.getsource(sys.modules[modname]))
                for n in ast.walk(tree):
                    if isinstance(n, ast.Constant) and isinstance(n.value, (int, float)) and not isinstance(n.value, bool):
                        if math.isfinite(float(n.value)):
                            vals.add(float(n.value))
            except (OSError, TypeError, SyntaxError, KeyError):
                pass
            _SRC_NUMS[modname] = vals
        nums |= _SRC_NUMS[modname]
    centres = sorted({c for v in nums for c in (v, v - 273.15, v + 273.15) if lo <= c <= hi})
    if len(centres) > cap:
        centres = sorted(rng.sample(centres, cap))
    pts = set()
    for c in centres:
        for p in (c, math.nextafter(c, -math.inf), math.nextafter(c, math.inf), c - 0.25, c + 0.25):
            if lo <= p <= hi:
                pts.add(p)
    return sorted(pts), len(centres)


def eval_material_point(m, fn, unit, T):
    with common.quiet():
        f = getattr(m, fn)
        return f(Tc=T) if unit == "C" else f(Tk=T)


def run_materials(ctx):
    from armi.materials import material as mm
    from armi.nucDirectory import nuclideBases as nb

    npts = ctx.pick(25, 200)
    classes = material_classes()
    ctx.count("material classes", len(classes))
    for c in classes:
        name = c.__name__
        modname = c.__module__.split(".")[-1]
        case = {"material": name}
        try:
            with common.quiet():
                m = c()
        except Exception as e:  # noqa
            ctx.fail(f"material-instantiate-{name}", "every library material can be instantiated", case, observed=repr(e))
            continue
        ctx.case(("material", name), nontrivial=True)
        # repeated instantiation in one process + setDefaultMassFracs again: same composition every time
        first = dict(m.massFrac)
        for rep in range(1, 5):
            try:
                with common.quiet():
                    m2 = c()
                    comp2 = dict(m2.massFrac)
                    if rep == 4:
                        m2.setDefaultMassFracs()
                        comp3 = dict(m2.massFrac)
                    else:
                        comp3 = comp2
            except Exception as e:  # noqa
                ctx.fail(f"material-reinstantiate-{name}", "a material class can be instantiated repeatedly", dict(case, instance=rep + 1),
                         observed=repr(e))
                break
            ctx.evaluations += 1
            for label, comp in (("instantiation", comp2), ("setDefaultMassFracs called again", comp3)):
                same = comp.keys() == first.keys() and all(math.isclose(comp[k], first[k], rel_tol=1e-12, abs_tol=0.0) for k in comp)
                okr = all(isinstance(v, (int, float)) and 0.0 <= v <= 1.0 for v in comp.values()) and all(k in nb.byName for k in comp)
                if not (same and okr) and first and all(0.0 <= v <= 1.0 for v in first.values()):
                    key = (f"material-composition-stable-{name}" if label == "instantiation"
                           else f"material-setDefaultMassFracs-idempotent-{name}")
                    ctx.fail(key,
                             "every instance of a material class has the same default composition (known nuclides, fractions in [0,1]), "
                             "also when the defaults are set again",
                             dict(case, instance=rep + 1, after=label), observed=comp, expected=first)
                    break
            else:
                continue
            break
        if m.massFrac != first:
            ctx.fail(f"material-composition-stable-{name}", "instantiating a class again does not change earlier instances", case,
                     observed=dict(m.massFrac), expected=first)
        abstract = modname in ABSTRACT_MODULES
        mf = dict(m.massFrac)
        unknown = [k for k in mf if k not in nb.byName]
        if unknown:
            ctx.fail(f"material-unknown-nuclide-{name}", "a material refers only to known nuclides", case, observed=unknown)
        try:
            nucs = list(m.getNuclides()) if hasattr(m, "getNuclides") and m.parent is not None else list(mf)
        except Exception:  # noqa
            nucs = list(mf)
        if not mf:
            if abstract:
                ctx.count("compositionless base/placeholder classes (Material, Fluid, SimpleSolid, FuelMaterial, _Mixture, Custom, Void)")
                continue
            ctx.fail(f"material-no-composition-{name}", "a library material has a composition (mass fractions summing to one)", case,
                     observed=mf)
        else:
            ssum = math.fsum(mf.values())
            tol = max(1e-6, 0.5e-6 * len(mf))
            if any((not math.isfinite(v)) or v < 0 for v in mf.values()) or abs(ssum - 1.0) > tol:
                ctx.fail(f"material-mass-fractions-sum-{name}", "mass fractions sum to one within data precision", case,
                         observed={"sum": ssum, "massFrac": mf}, expected=f"|sum-1| <= {tol}")
        # temperature grids over each stated range
        pvt = dict(getattr(m, "propertyValidTemperature", {}) or {})
        plans = []  # (function, unit, lo, hi, needPositive, rangeSource)
        drange = next((k for k in DENSITY_KEYS if k in pvt), None)
        erange = next((k for k in PERCENT_KEYS + ("linear expansion",) if k in pvt), None)
        src = drange or erange
        if src:
            (lo, hi), unit = pvt[src]
        else:
            (lo, hi), unit, src = (300.0, 900.0), "K", "nominal 300-900 K (no range stated)"
        for fn in ("density", "pseudoDensity"):
            plans.append((fn, unit, lo, hi, True, src))
        for k in PERCENT_KEYS + ("linear expansion",):
            if k in pvt:
                (lo2, hi2), unit2 = pvt[k]
                plans.append(("linearExpansionPercent", unit2, lo2, hi2, False, k))
                if k == "linear expansion":
                    plans.append(("linearExpansion", unit2, lo2, hi2, False, k))
        if not any(p[0] == "linearExpansionPercent" for p in plans):
            plans.append(("linearExpansionPercent", unit, lo, hi, False, src))
        if "volumetric expansion" in pvt:
            (lo2, hi2), unit2 = pvt["volumetric expansion"]
            plans.append(("volumetricExpansion", unit2, lo2, hi2, False, "volumetric expansion"))
        seenPlan = set()
        for fn, unit, lo, hi, positive, src in plans:
            if (fn, unit, lo, hi) in seenPlan or not (lo < hi):
                continue
            seenPlan.add((fn, unit, lo, hi))
            grid = [lo + (hi - lo) * i / (npts - 1) for i in range(npts)] + [ctx.rng.uniform(lo, hi) for _ in range(5)]
            # exact end points and densely just inside them (top and bottom 3 K in 0.25 K steps)
            edge = [k * 0.25 for k in range(0, 13)]
            switch, ncentres = source_temperatures(c, lo, hi, ctx.rng, ctx.pick(40, 400))
            ctx.count("material property grids: candidate switch points taken from the source literals", ncentres)
            grid = sorted(set(grid + switch + [lo + d for d in edge if lo + d <= hi] + [hi - d for d in edge if hi - d >= lo] + [lo, hi]))
            bads = []
            twoway = []
            notimpl = False
            for T in grid:
                try:
                    v = eval_material_point(m, fn, unit, T)
                except NotImplementedError:
                    notimpl = True
                    break
                except Exception as e:  # noqa
                    bads.append((T, repr(e)))
                    continue
                ctx.evaluations += 1
                try:
                    fv = float(v)
                except (TypeError, ValueError):
                    bads.append((T, repr(v)))
                    continue
                if not math.isfinite(fv) or (positive and not fv > 0.0):
                    bads.append((T, fv))
                    continue
                # the same temperature given the other way (Tc= vs Tk=) must give the same finite value
                try:
                    with common.quiet():
                        f = getattr(m, fn)
                        v2 = f(Tk=T + 273.15) if unit == "C" else f(Tc=T - 273.15)
                    fv2 = float(v2)
                    same = math.isfinite(fv2) and math.isclose(fv, fv2, rel_tol=1e-7, abs_tol=1e-10)
                except Exception as e:  # noqa
                    fv2, same = repr(e), False
                ctx.evaluations += 1
                if not same:
                    twoway.append((T, fv, fv2))
            if notimpl:
                ctx.count(f"{fn}: not implemented by the class (abstract)")
                continue
            ctx.count(f"material property grids evaluated: {fn}")
            if twoway:
                inner = [x for x in twoway if lo < x[0] < hi]
                sel = inner or twoway
                ctx.fail(f"material-{fn}-Tc-vs-Tk-{name}" + ("" if inner else "-at-range-end"),
                         f"{fn}(Tc=T) and {fn}(Tk=T+273.15) give the same finite value",
                         dict(case, function=fn, unit=unit, range=[lo, hi], T=sel[0][0], failingPoints=len(sel)),
                         observed={"stated unit": sel[0][1], "other unit": sel[0][2]})
            interior = [b for b in bads if lo < b[0] < hi]
            what = "positive-finite" if positive else "finite"
            for sel, suffix in ((interior, ""), ([b for b in bads if not (lo < b[0] < hi)] if not interior else [], "-at-range-end")):
                if sel:
                    ctx.fail(f"material-{fn}-{what}-{name}{suffix}",
                             f"{fn} is {'finite and positive' if positive else 'finite'} at every temperature of the stated range",
                             dict(case, function=fn, unit=unit, range=[lo, hi], rangeSource=src, T=sel[0][0],
                                  failingPoints=len(sel)), observed=sel[0][1])
    return len(classes)


def run_material_resolution(ctx):
    """materials are requested BY NAME (blueprints): every library class resolves to itself under the default namespace order and
    under its full path; an ordered plugin namespace takes precedence exactly for the names it defines; the order is restored"""
    import types

    from armi import materials

    classes = material_classes()
    order0 = list(materials._MATERIAL_NAMESPACE_ORDER)
    for c in classes:
        name = c.__name__
        case = {"material": name}
        for label, arg in (("simple name", name), ("module:class path", f"{c.__module__}:{name}")):
            try:
                got = materials.resolveMaterialClassByName(arg)
            except Exception as e:  # noqa
                got = repr(e)
            if got is not c and not (inspect.isclass(got) and got.__name__ == name and label == "simple name"
                                     and getattr(materials, name, None) is got):
                ctx.fail(f"material-resolve-by-name-{name}", "every library material class is found under its name", dict(case, how=label),
                         observed=str(got), expected=str(c))
            ctx.evaluations += 1
        ctx.case(("material-resolution", name), nontrivial=True)
    # a plugin namespace defining two library names and one new name
    plug = types.ModuleType("verif_plugin_materials")
    picks = [c for c in classes if c.__name__ in ("UO2", "HT9")]
    for c in picks:
        setattr(plug, c.__name__, type(c.__name__, (c,), {"__module__": "verif_plugin_materials"}))
    other = next(c for c in classes if c.__name__ == "Sodium")
    plug.VerifOnly = type("VerifOnly", (other,), {"__module__": "verif_plugin_materials"})
    sys.modules["verif_plugin_materials"] = plug
    try:
        for orderName, order in (("plugin first", ["verif_plugin_materials", "armi.materials"]),
                                 ("library first", ["armi.materials", "verif_plugin_materials"])):
            for viaGlobal in (False, True):
                if viaGlobal:
                    materials.setMaterialNamespaceOrder(list(order))
                for nm in [c.__name__ for c in picks] + ["Sodium", "VerifOnly"]:
                    want = None
                    for ns in order:
                        cand = getattr(sys.modules[ns] if ns != "armi.materials" else materials, nm, None)
                        if cand is not None:
                            want = cand
                            break
                    try:
                        got = materials.resolveMaterialClassByName(nm) if viaGlobal else materials.resolveMaterialClassByName(nm, list(order))
                    except Exception as e:  # noqa
                        got = repr(e)
                    if got is not want:
                        ctx.fail("material-namespace-order", "a material name resolves to the first namespace of the configured order that defines it",
                                 {"name": nm, "order": order, "via": "setMaterialNamespaceOrder" if viaGlobal else "argument"},
                                 observed=str(got), expected=str(want))
                    else:
                        try:
                            with common.quiet():
                                inst = got()
                            okc = bool(inst.massFrac) or nm in ()
                        except Exception as e:  # noqa
                            okc = False
                        if not okc and nm != "VerifOnly":
                            ctx.fail("material-namespace-order", "a material resolved through a plugin namespace can be instantiated",
                                     {"name": nm, "order": order})
                    ctx.evaluations += 1
                    ctx.case(("material-namespace", orderName, viaGlobal, nm), nontrivial=True)
    finally:
        materials.setMaterialNamespaceOrder(order0)
        sys.modules.pop("verif_plugin_materials", None)
    if materials._MATERIAL_NAMESPACE_ORDER != order0:
        ctx.fail("material-namespace-order", "the namespace order can be restored", {}, observed=materials._MATERIAL_NAMESPACE_ORDER)


def run_material_formulas(ctx):
    """Material.density / pseudoDensity (material.py base-class formulas) against the model
    for every material that uses them, on a temperature grid with both end points; the hypotheses of matDensity_pos
    (reference density > 0, expansion > -100 %) are evaluated on the real objects"""
    from armi.materials import material as mm
    from armi.utils.units import getTk

    req, checks = [], []
    npts = ctx.pick(7, 40)
    for c in material_classes():
        name = c.__name__
        try:
            with common.quiet():
                m = c()
        except Exception:  # noqa  (reported by run_materials)
            continue
        unwrap = lambda f: getattr(f, "__wrapped__", f)  # Material.__init_subclass__ wraps density in every subclass
        baseD = unwrap(c.density) is unwrap(mm.Material.density)
        baseP = c.pseudoDensity is mm.Material.pseudoDensity
        if not (baseD or baseP):
            ctx.count("material formulas: class overrides density and pseudoDensity (not modelled)")
            continue
        pvt = dict(getattr(m, "propertyValidTemperature", {}) or {})
        src = next((k for k in DENSITY_KEYS + PERCENT_KEYS + ("linear expansion",) if k in pvt), None)
        (lo, hi), unit = pvt[src] if src else ((300.0, 900.0), "K")
        if not lo < hi:
            continue
        grid = [lo + (hi - lo) * i / (npts - 1) for i in range(npts)]
        grid[-1] = hi
        pts = []
        for T in grid:
            Tk = T if unit == "K" else getTk(Tc=T)
            try:
                with common.quiet():
                    dLL = float(m.linearExpansionPercent(Tk=Tk))
                    d = float(m.density(Tk=Tk)) if baseD else None
                    p = float(m.pseudoDensity(Tk=Tk)) if baseP else None
            except Exception:  # noqa  (non-finite / refusing points are run_materials' business)
                continue
            if not math.isfinite(dLL):
                continue
            ref = m.refDens
            case = {"material": name, "Tk": Tk, "refDens": ref, "dLL": dLL}
            hyp = isinstance(ref, (int, float)) and ref > 0 and dLL > -100
            ctx.count("hypotheses of matDensity_pos on the real material: " + ("hold" if hyp else "fail (no reference density)"))
            if hyp and ((d is not None and not d > 0) or (p is not None and not p > 0)):
                ctx.fail(f"material-density-formula-{name}", "with a positive reference density and an expansion above -100 % density and "
                         "pseudo-density are positive", case, observed=[d, p])
            if isinstance(ref, (int, float)):
                req.append(f"matdens {common.rat(float(ref))} {common.rat(dLL)}")

                def chk(line, case=case, d=d, p=p):
                    if line in ("reject", "bad-op"):
                        return ctx.disagree("Material.density/pseudoDensity vs model", case, line, [d, p])
                    md, mp = (Fraction(x) for x in line.split(" "))
                    ok = (d is None or common.close(d, md, 1e-11)) and (p is None or common.close(p, mp, 1e-11))
                    return ok or ctx.disagree("Material.density/pseudoDensity vs model", case, [float(md), float(mp)], [d, p])
                checks.append(chk)
            pts.append((T, Tk, dLL))
            ctx.evaluations += 1
        ctx.case(("material-formulas", name), nontrivial=True)
    model = lean_run("Nuclide", req)
    for line, fn in zip(model, checks):
        fn(line)
    ctx.count("material formula requests (density, pseudoDensity)", len(req))


def _material_instances():
    out = {}
    for c in material_classes():
        try:
            with common.quiet():
                out[c.__name__] = c()
        except Exception:  # noqa
            pass
    return out


def run_material_table(ctx):
    """the regenerated polynomial pieces against the real methods (end points, middle, random points of every piece), and the
    list of what is PROVED over the whole range / what remains sampled"""
    pieces, report = getattr(ctx, "material_table", None) or build_material_table()
    inst = _material_instances()
    req, judged = [], []
    for p in pieces:
        m = inst.get(p["material"])
        if m is None:
            continue
        lo, hi = float(p["lo"]), float(p["hi"])
        # end points: a breakpoint between two pieces belongs to ONE of them (e.g. `Tk < 923` / else), so an end point may be
        # judged at the adjacent double inside the piece instead
        pts = [(lo, math.nextafter(lo, hi)), (hi, math.nextafter(hi, lo)), ((lo + hi) / 2, None)]
        pts += [(ctx.rng.uniform(lo, hi), None) for _ in range(ctx.pick(2, 8))]
        for T, alt in pts:
            vals = []
            for t in (T, alt):
                if t is None:
                    vals.append(None)
                    continue
                try:
                    with common.quiet():
                        f = getattr(m, p["fn"])
                        vals.append(float(f(Tk=t) if p["unit"] == "K" else f(Tc=t)))
                except Exception as e:  # noqa
                    vals.append(None)
            if vals[0] is None:
                ctx.count("material table: real method refuses a point of its piece (left to the sampling oracle)")
                continue
            case = {"material": p["material"], "function": p["fn"], "unit": p["unit"], "T": T, "piece": [lo, hi]}
            cs = ",".join(str(c) for c in p["cs"])
            req.append(f"polyeval [{cs}] {common.rat(T)}")
            req.append(f"polyeval [{cs}] {common.rat(alt if alt is not None else T)}")
            judged.append((case, vals))
            ctx.evaluations += 1
        ctx.case(("material-piece", p["material"], p["fn"], p["kind"], float(p["lo"])), nontrivial=True)
    model = lean_run("Nuclide", req)
    for i, (case, vals) in enumerate(judged):
        l0, l1 = model[2 * i], model[2 * i + 1]
        ok0 = l0 not in ("reject", "bad-op") and math.isfinite(vals[0]) and common.close(vals[0], Fraction(l0), 1e-9)
        if ok0:
            continue
        if vals[1] is not None and l1 not in ("reject", "bad-op") and math.isfinite(vals[1]) and common.close(vals[1], Fraction(l1), 1e-9):
            ctx.count("material table: breakpoint belongs to the neighbouring piece (judged at the adjacent double inside)")
            continue
        ctx.disagree("regenerated polynomial correlation vs the material's method", case, l0[:60], vals[0])
    proved = sorted(f"{k[0]}.{k[1]} [{k[2]}] {k[4]}..{k[5]} {k[3]}: {v}" for k, v in report.items() if v.startswith("proved"))
    sampled = sorted(f"{k[0]}.{k[1]} [{k[2]}]: {v}" for k, v in report.items() if not v.startswith("proved"))
    ctx.extra["materials_proved_over_whole_range"] = proved
    ctx.extra["materials_sampled_only"] = sampled
    ctx.count("material correlations proved over the whole stated range (interval arithmetic, kernel-checked)", len(proved))
    ctx.count("material correlations that remain sampled (not polynomial / enclosure too coarse)", len(sampled))
    ctx.count("material table correspondence requests", len(req))


def scan_material_table():
    """a material-table obligation no longer checks: find the temperatures at which a regenerated polynomial leaves its bounds and
    evaluate the REAL density / expansion there"""
    out = []
    pieces, _ = build_material_table()
    inst = _material_instances()
    for p in pieces:
        if subintervals_needed(p["cs"], p["lo"], p["hi"], p["lb"], p["ub"]) is not None:
            continue
        fa, fb = p["lo"], p["hi"]
        bad = [fa + (fb - fa) * i / 2048 for i in range(2049) if not p["lb"] < poly_value(p["cs"], fa + (fb - fa) * i / 2048) < p["ub"]]
        m = inst.get(p["material"])
        if not bad or m is None:
            continue
        fns = ["density", "pseudoDensity"] if p["kind"].startswith("density-by") else [p["fn"]]
        positive = p["kind"] != "bounded"
        for fn in fns:
            for T in (bad[0], bad[len(bad) // 2], bad[-1]):
                T = float(T)
                try:
                    with common.quiet():
                        f = getattr(m, fn)
                        v = f(Tk=T) if p["unit"] == "K" else f(Tc=T)
                    fv = float(v)
                    ok = math.isfinite(fv) and (fv > 0 or not positive)
                except Exception as e:  # noqa
                    fv, ok = repr(e), False
                if not ok:
                    out.append(Failure(f"material-{fn}-{'positive-finite' if positive else 'finite'}-{p['material']}",
                                       f"{fn} is {'finite and positive' if positive else 'finite'} at every temperature of the stated range",
                                       {"material": p["material"], "function": fn, "unit": p["unit"], "range": [float(fa), float(fb)], "T": T,
                                        "failingPoints": len(bad), "foundBy": "broken interval obligation of Gen/MaterialTable"}, observed=fv))
                    break
    return out


def run(ctx):
    n = run_directory(ctx)
    run_material_resolution(ctx)
    run_material_formulas(ctx)
    run_material_table(ctx)
    run_mutators(ctx)
    nm = run_materials(ctx)
    ctx.extra["materials_half"] = ("exhaustive enumeration of the finite material library at SAMPLED temperatures (grid over each "
                                   "property's stated range, exact end points, 0.25 K steps in the top/bottom 3 K) - testing, not a theorem")
    ctx.extra["table_obligations"] = ("nuclide_table_checks, burn_chain_checks, mcc_checks: `decide +kernel` over the table regenerated "
                                      "from /repo on this run (Gen/NuclideTable.lean), lifted by checkTable_facts / chain_sound / mcc_*_sound")
    ctx.exhaustive = True
    ctx.rule = (f"exhaustive: all {n} nuclides of nuclideBases.instances (ids compared with the Lean model, every by* lookup "
                "checked for object identity), all elements, all burn-chain entries, all MC2 ids; the generated table compared "
                f"with the loaded directory row by row. Materials: all {nm} classes of armi.materials instantiated, each "
                "density/expansion function evaluated on a temperature grid over its stated range (exhaustive enumeration of "
                "classes at SAMPLED temperatures - not a theorem). distinct = nuclides + elements + chain entries + classes.")


def replay(ctx, payload):
    key = payload["key"]
    sub = type(ctx)(ctx.prop, "quick", ctx.seed)
    if key.startswith(("nuclide-table-", "burn-chain-", "mcc-")) and not key.startswith("mcc-id-shared-by"):
        hits = [f for f in scan_tables() if f.key == key]
        if hits:
            return hits[0].to_json()
    if key.startswith(("changeLabel-", "rebuild-", "addGlobalNuclide-")):
        run_mutators(sub)
    elif key.startswith(("material-resolve", "material-namespace")):
        run_material_resolution(sub)
    elif key.startswith("material-density-formula"):
        run_material_formulas(sub)
    elif key.startswith("material-"):
        run_materials(sub)
    else:
        run_directory(sub)
    hit = [f for f in sub.failures if f.key == key]
    return hit[0].to_json() if hit else None


def on_import_failure(ctx, err):
    """armi refused to import (nuclideBases.factory raises on duplicate ids at import time): evaluate the table clauses
    on the data files directly; if they scan clean, report the refusal itself with the exception text."""
    out = [f for f in scan_tables()]
    if not out:
        out.append(Failure("nuclide-directory-refuses-to-build", "every nuclide of the directory can be built and retrieved",
                           {"stage": "import armi (nuclideBases.factory)"}, observed=err))
    return out
