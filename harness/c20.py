"""C20 - XS groups partition the blocks; label <-> number; representative blocks are true averages / the median member.

Theorems: lean/ArmiVerif/Props/C20.lean over Model/XsGroup.lean (exact rationals).
Tie: (1) labels EXHAUSTIVE: all 52 + 52^2 admissible labels both ways, plus every number 0..13000 and sampled
larger ones the other way, env-group letters/numbers, micro suffixes; (2) the real CrossSectionGroupManager /
AverageBlockCollection / FluxWeightedAverageBlockCollection / MedianBlockCollection (block level and by
component) on block sets generated from the reference test reactor: the model gets the exact rational value
of every input double (volumes, weighting values, densities, temperatures, burnups, HM masses) and its
exact answers are compared with the floats to 1e-9 relative; (3) implementation-side oracle: partition,
convexity, equal-members, duplication and rescaling invariance, direct weighted means, median rank, and a
dump of the member blocks before/after to show representatives never change the core.
"""
import collections
import math
import os
import random
import string
from fractions import Fraction

from harness import common
from harness.common import Failure, lean_run, rat, ratlist

PROP_MODULES = ["ArmiVerif.Props.C20", "ArmiVerif.Props.C20Mgr"]
PARTIAL = ("floating-point rounding of the numpy sums is not modelled (exact rationals, compared to 1e-9 relative); "
           "lumped-fission-product handling and deep copying of the template block are outside the model; of the 1-D "
           "cylinder / slab collections the area-weighted component average, the candidate choice and the consistency "
           "refusals are tied (slab geometry itself has no fixture: its averaging routine is tied at function level); "
           "pre-generated file copying is outside the model (only which groups are skipped); "
           "core-unchanged is tied by dumping the member blocks before and after (functional model is pure by construction)")
ASSUMPTIONS = [
    "Block.getVolume/getNuclideNumberDensities/getVolumeFractions/getMass and parameter reads are inputs of the model "
    "(read from the real blocks); numpy dot/sum modelled as exact sums",
]
TOL = 1e-9
LETTERS = string.ascii_uppercase + string.ascii_lowercase


def codes(s):
    return "[" + ",".join(str(ord(c)) for c in s) + "]"


def decodes(line):
    if line in ("reject", "bad-op", "_"):
        return line
    return "".join(chr(int(x)) for x in common.parse_list(line))


# ------------------------------------------------------------------------------------------ labels (exhaustive)
def run_labels(ctx):
    from armi.physics.neutronics import crossSectionGroupManager as xg

    labels = list(LETTERS) + [a + b for a in LETTERS for b in LETTERS]
    if set(xg._ALLOWABLE_XS_TYPE_LIST) != set(LETTERS):
        ctx.fail("xs-type-alphabet", "admissible XS type characters are A-Z a-z", {}, observed=sorted(xg._ALLOWABLE_XS_TYPE_LIST))
    req, impl, cases = [], [], []
    seen = {}
    for lab in labels:
        try:
            n = xg.getXSTypeNumberFromLabel(lab)
        except Exception as e:  # noqa
            ctx.fail("label-to-number", "every admissible label has a number", {"label": lab}, observed=repr(e))
            continue
        req.append(f"l2n {codes(lab)}"); impl.append(str(n)); cases.append({"label": lab})
        try:
            with common.quiet():
                back = xg.getXSTypeLabelFromNumber(n)
        except Exception as e:  # noqa
            back = None
            ctx.fail("label-number-roundtrip", "label -> number -> label is the identity for every admissible label",
                     {"label": lab, "number": n}, observed=repr(e), expected=lab)
        if back is not None and back != lab:
            ctx.fail("label-number-roundtrip", "label -> number -> label is the identity for every admissible label",
                     {"label": lab, "number": n}, observed=back, expected=lab)
        if n in seen:
            ctx.fail("label-number-collision", "no two admissible labels share a number", {"labels": [seen[n], lab], "number": n})
        seen[n] = lab
        ctx.case(("label", lab), nontrivial=True, sample={"label": lab, "number": n} if lab in ("A", "zA") else None)
    # numbers -> labels, including numbers that are not the image of a label
    nums = list(range(0, 13000)) + sorted(seen) + [ctx.rng.randrange(13000, 2_000_000) for _ in range(ctx.pick(2000, 20000))]
    for n in nums:
        try:
            with common.quiet():
                s = xg.getXSTypeLabelFromNumber(n)
            out = codes(s)
        except ValueError:
            out = "reject"
        req.append(f"n2l {n}"); impl.append(out); cases.append({"number": n})
    ctx.count("labels (exhaustive 52 + 52^2)", len(labels))
    ctx.count("numbers -> label", len(nums))
    model = lean_run("XsGroup", req)
    ctx.compare("Model/XsGroup label<->number vs getXSTypeNumberFromLabel/getXSTypeLabelFromNumber", cases, model, impl)
    ctx.evaluations += len(nums)
    ctx.samples.append({"request": req[60], "model": model[60], "impl": impl[60]})


# ------------------------------------------------------------------------------------------ reactor-based cases
class World:
    """the reference test reactor, loaded once per run inside a scratch directory"""

    def __init__(self):
        from armi.physics.neutronics import crossSectionGroupManager as xg
        from armi.reactor.flags import Flags
        from armi.reactor.tests import test_reactors
        from armi.tests import TEST_ROOT

        with common.quiet():
            self.o, self.r = test_reactors.loadTestReactor(TEST_ROOT)
            self.csm = xg.CrossSectionGroupManager(self.r, self.o.cs)
            self.csm.interactBOL()
        self.xg = xg
        self.Flags = Flags
        self.core = self.r.core
        self.allNucs = list(self.r.blueprints.allNuclidesInProblem)
        self.fuel = self.core.getBlocks(Flags.FUEL)
        self.nonfuel = [b for b in self.core.getBlocks() if not b.hasFlags(Flags.FUEL)]


def dump_block(b):
    """observable state of a member block (what 'the core is unchanged' compares)"""
    comps = []
    for c in b.getComponents():
        comps.append((c.name, c.temperatureInC, tuple(sorted((k, float(v)) for k, v in c.getNumberDensities().items())),
                      c.getArea(), str(c.p.flags), c.p.mult))
    return (b.getName(), b.p.percentBu, b.p.flux, b.p.xsType, b.p.envGroup, b.p.envGroupNum, b.p.massHmBOL, b.getHeight(),
            b.getVolume(), str(b.p.flags), id(b.parent), tuple(comps),
            id(b.getLumpedFissionProductCollection()))


def blk_line(valid, vol, wp, vals):
    return "[" + ",".join([("1" if valid else "0"), rat(vol), rat(wp)] + [rat(v) for v in vals]) + "]"


def cmp_list(ctx, what, case, model_line, impl_vals, tol=TOL):
    """model line (list of rationals or reject) against implementation floats (or 'reject')"""
    if model_line in ("reject", "bad-op") or isinstance(impl_vals, str):
        if model_line != impl_vals:
            ctx.disagree(what, case, model_line, impl_vals if isinstance(impl_vals, str) else "values")
            return False
        return True
    mv = [Fraction(x) for x in common.parse_list(model_line)] if model_line.startswith("[") else [Fraction(model_line)]
    if len(mv) != len(impl_vals):
        ctx.disagree(what, case, model_line[:200], f"{len(impl_vals)} values")
        return False
    for j, (q, f) in enumerate(zip(mv, impl_vals)):
        if not (math.isfinite(float(f)) and common.close(f, q, tol)):
            ctx.disagree(what, dict(case, index=j), float(q), float(f))
            return False
    return True


def prepare_members(w, rng, trial):
    """draw a member set and perturb it (dyadic factors so that products stay short); returns (members, options)"""
    nmem = rng.randint(1, 12)   # a group with a single member is its own average / median
    members = rng.sample(w.fuel, nmem)
    filt = rng.choice([None, ["fuel"], ["fuel"], ["igniter fuel"]])
    if filt == ["igniter fuel"]:
        for b in members:
            b.setType("igniter fuel" if rng.random() < 0.6 else "feed fuel")
        if not any(b.hasFlags(w.Flags.fromString("igniter fuel")) for b in members):
            members[0].setType("igniter fuel")
    else:
        for b in members:
            b.setType("fuel")
    extra = []
    if filt == ["fuel"] and rng.random() < 0.6:
        extra = rng.sample(w.nonfuel, rng.randint(1, 3))
    if rng.random() < 0.6:
        for b in members:
            b.setHeight(common.dyadic(rng, 10, 40, 2))
    if rng.random() < 0.7:
        # component INSERTION order differing from size-sorted order, and differing between members (Block.add does not sort)
        for b in members:
            comps = list(b.getComponents())
            rng.shuffle(comps)
            b.setChildren(comps)
    fluxmode = rng.choice(["zero", "positive", "positive", "mixed"])
    for k, b in enumerate(members + extra):
        b.p.percentBu = rng.choice([0.0, common.dyadic(rng, 0, 30, 3)])
        if fluxmode == "zero":
            b.p.flux = 0.0
        elif fluxmode == "positive":
            b.p.flux = float(rng.randint(1, 2 ** 20)) * 2.0 ** 20
        else:
            b.p.flux = 0.0 if (k % 2 == 0) else float(rng.randint(1, 2 ** 20)) * 2.0 ** 20
        for c in b.getComponents():
            if c.getNumberDensities() and rng.random() < 0.7:
                c.changeNDensByFactor(common.dyadic(rng, 0.75, 1.25, 4))
            if rng.random() < 0.3 and c.name not in ("duct", "intercoolant", "coolant"):
                # pin components only: a hot duct outgrows the lattice pitch and the derived inter-assembly coolant
                # gets a negative area (negative mass = negative weight: outside the convexity hypothesis)
                c.temperatureInC = float(rng.randint(300, 900))
    if rng.random() < 0.15:
        # members that agree exactly: copies of one block's state
        src = members[0]
        for b in members[1:]:
            b.p.percentBu = src.p.percentBu
            for c, cs in zip(sorted(b.getComponents()), sorted(src.getComponents())):
                c.setNumberDensities(dict(cs.getNumberDensities()))
                c.temperatureInC = cs.temperatureInC
    order = members + extra
    rng.shuffle(order)
    opt = {"filter": filt, "fluxmode": fluxmode, "nmembers": len(order)}
    # (continuation round) scenario classes, undone at the start of the next trial: a nuclide DECLARED with density exactly 0 in
    # some / all members (build-up nuclide at BOL: trace weighting of its temperature), a component without mass in every
    # member (gap: plain-mean fall-back of the component temperature)
    for c, nd in getattr(w, "undo", []):
        c.setNumberDensities(nd)
    w.undo = []
    r2 = random.Random(rng.random())
    mode = r2.choice(["none", "some", "some", "all"])
    if mode != "none":
        nuc = r2.choice(["U235", "ZR96", "ZR91"])
        for b in order:
            if mode == "all" or r2.random() < 0.5:
                for c in b.getComponents():
                    if c.name == "fuel" and nuc in c.p.numberDensities:
                        w.undo.append((c, dict(c.getNumberDensities())))
                        c.setNumberDensity(nuc, 0.0)
        opt["zeroDensityNuclide"] = [nuc, mode]
    if r2.random() < 0.2:
        for b in order:
            for c in b.getComponents():
                if c.name == "bond":
                    w.undo.append((c, dict(c.getNumberDensities())))
                    c.setNumberDensities({k: 0.0 for k in c.getNumberDensities()})
        opt["masslessComponent"] = "bond"
    return order, opt


def temperature_nuclides(w, opt, subset):
    out = []
    for n in ([opt["zeroDensityNuclide"][0]] if "zeroDensityNuclide" in opt else []) + ["U238", w.allNucs[subset[0]], "NA23"]:
        if n not in out and n in w.allNucs:
            out.append(n)
    return out[:3]


def real_weight_inputs(w, bc, b):
    wp = b.p[bc.weightingParam] if bc.weightingParam else 0.0
    return bool(b.hasFlags(bc._validRepresentativeBlockTypes)), b.getVolume(), wp


def trial_collections(ctx, w, trial, oracle_only=False):
    xg = w.xg
    rng = random.Random(f"C20-{ctx.seed}-{trial}")
    order, opt = prepare_members(w, rng, trial)
    case0 = dict(opt, trial=trial, members=[b.getName() for b in order])
    nucs = w.allNucs
    subset = sorted(rng.sample(range(len(nucs)), 8))
    variants = [("Average", None, False), ("Average", None, True), ("FluxWeightedAverage", "flux", False),
                ("Average", "flux", True), ("Median", None, False), ("Median", "flux", False)]
    req, checks = [], []

    def ask(line, fn):
        req.append(line)
        checks.append(fn)

    for kind, wparam, byComp in variants:
        case = dict(case0, collection=kind, weightingParam=wparam, averageByComponent=byComp)
        cls = {"Average": xg.AverageBlockCollection, "FluxWeightedAverage": xg.FluxWeightedAverageBlockCollection,
               "Median": xg.MedianBlockCollection}[kind]
        bc = cls(nucs, validBlockTypes=opt["filter"], averageByComponent=byComp)
        if kind != "FluxWeightedAverage":
            bc.weightingParam = wparam
        for b in order:
            bc.append(b)
        useP = "T" if bc.weightingParam else "F"
        before = [dump_block(b) for b in order]
        cands = bc.getCandidateBlocks()
        win = [real_weight_inputs(w, bc, b) for b in order]
        ctx.count(f"collection {kind} param={bc.weightingParam} byComponent={byComp} filter={opt['filter']}")
        ctx.count(f"weighting values {opt['fluxmode']}")
        try:
            with common.quiet():
                rep = bc.createRepresentativeBlock()
            err = None
        except ValueError as e:
            rep, err = None, "reject"
            ctx.count("refused: mixture of zero and non-zero weighting factors")
        after = [dump_block(b) for b in order]
        if before != after:
            ctx.fail("representative-changes-core", "creating a representative block never changes the blocks of the core",
                     case, observed="member state differs after createRepresentativeBlock")
        ctx.case(("collection", trial, kind, wparam, byComp), nontrivial=True,
                 sample=dict(case, repr=str(rep)) if trial == 0 and kind == "Average" and not byComp else None)
        # expected refusal: candidates' weighting factors mix zero / non-zero
        wf = [b.p[bc.weightingParam] for b in cands] if bc.weightingParam else []
        mixed = any(wf) and not all(wf)
        if (err == "reject") != mixed:
            ctx.fail("mixed-weights-refusal", "mixed zero/non-zero weighting factors are refused, nothing else is", case,
                     observed=err, expected="reject" if mixed else "a block")
        # oracle weights computed from the documented definition (weighting value or 1) x (volume or 1), NOT through getWeight
        ws = [((b.p[bc.weightingParam] or 1.0) if bc.weightingParam else 1.0) * (b.getVolume() or 1.0) for b in cands]
        W = math.fsum(ws)
        for b, wi in zip(cands, ws):
            if not math.isclose(bc.getWeight(b), wi, rel_tol=1e-12):
                ctx.fail("weight-definition", "a member's weight is its weighting value (or 1) times its volume (or 1)",
                         dict(case, block=b.getName()), observed=bc.getWeight(b), expected=wi)
        if kind == "Median":
            names = "[" + ",".join(codes(b.getName()) for b in order) + "]"
            blks = "[" + ",".join(blk_line(v, vol, wp, [b.p.percentBu]) for (v, vol, wp), b in zip(win, order)) + "]"
            mb = bc._getMedianBlock()
            idx = [i for i, b in enumerate(order) if b is mb]
            # modelled domain: the float products bu*weight order the candidates as the exact products do (products a few
            # ulp apart - e.g. bu 3.0 x V against 1.5 x 2V - are the "nearly coincident" stream, judged by the oracle alone)
            fl = sorted((b.p.percentBu * wi, b.getName()) for b, wi in zip(cands, ws))
            ex = sorted((Fraction(b.p.percentBu) * (Fraction(b.p[bc.weightingParam] or 1.0) if bc.weightingParam else 1)
                         * Fraction(b.getVolume() or 1.0), b.getName()) for b in cands)
            inDomain = [n for _, n in fl] == [n for _, n in ex]
            if not inDomain:
                ctx.count("excluded point: median keys a few ulp apart (float and exact order differ), oracle only")
            if not oracle_only and inDomain:
                ask(f"median {useP} {blks} {names}",
                    lambda line, case=case, idx=idx: (line == str(idx[0]) if idx else False)
                    or ctx.disagree("median block vs MedianBlockCollection._getMedianBlock", case, line, idx))
            # oracle: member, eligible, rank
            if not idx or mb not in cands:
                ctx.fail("median-not-eligible-member", "the median representative is an eligible member", case, observed=str(mb))
            else:
                wof = {id(b): wi for b, wi in zip(cands, ws)}
                keyed = sorted((b.p.percentBu * wof[id(b)], b.getName()) for b in cands)
                if (mb.p.percentBu * wof[id(mb)], mb.getName()) != keyed[len(keyed) // 2]:
                    ctx.fail("median-rank", "the median block holds rank len//2 of (burnup x weight, name)", case,
                             observed=mb.getName(), expected=keyed[len(keyed) // 2][1])
                if rep is not None:
                    a = rep.getNuclideNumberDensities(nucs)
                    bvals = mb.getNuclideNumberDensities(nucs)
                    diff = [(nucs[j], x, y) for j, (x, y) in enumerate(zip(a, bvals)) if not math.isclose(x, y, rel_tol=1e-12, abs_tol=0.0)]
                    if diff or rep is mb or rep.p.percentBu != mb.p.percentBu:
                        ctx.fail("median-copy", "the median representative is a copy of the median member", case,
                                 observed={"differing": diff[:4], "same object": rep is mb, "bu": [rep.p.percentBu, mb.p.percentBu]})
                    # nuclide temperatures of a median collection: the median member's own terms
                    from armi.utils.units import TRACE_NUMBER_DENSITY
                    for nuc in temperature_nuclides(w, opt, subset)[:2]:
                        terms = comp_terms(mb, nuc)
                        got = bc.avgNucTemperatures.get(nuc)
                        tcase = dict(case, nuclide=nuc, medianBlock=mb.getName())
                        tw = [Fraction((n or TRACE_NUMBER_DENSITY) if dec else 0.0) * Fraction(vf) for dec, n, vf, T in terms]
                        if not oracle_only:
                            ask(f"mtemp {rat(mb.getVolume())} {comps_line(terms)}",
                                lambda line, tcase=tcase, got=got: cmp_list(ctx, "median nuclide temperature vs calcAvgNuclideTemperatures", tcase, line, [got], 1e-8))
                        direct = float(sum(a * Fraction(T) for a, (_, _, _, T) in zip(tw, terms)) / sum(tw)) if sum(tw) else 0.0
                        if got is None or not math.isclose(got, direct, rel_tol=1e-8, abs_tol=1e-9):
                            ctx.fail("median-nuclide-temperature", "the nuclide temperatures of a median group are those of the median member "
                                     "(atom-weighted over its components)", tcase, observed=got, expected=direct)
            continue
        # ---- averages
        if err == "reject":
            blks = "[" + ",".join(blk_line(v, vol, wp, []) for (v, vol, wp) in win) + "]"
            if not oracle_only:
                ask(f"avg {useP} 0 {blks}", lambda line, case=case: line == "reject"
                    or ctx.disagree("average refusal", case, line, "reject"))
            continue
        byc = bc._performAverageByComponent()
        # weights through the model
        if not oracle_only:
            for (v, vol, wp), b in zip(win, order):
                ask(f"weight {useP} {blk_line(v, vol, wp, [])}",
                    lambda line, case=case, nm=b.getName(), wgt=bc.getWeight(b): common.close(wgt, Fraction(line), 1e-12)
                    or ctx.disagree("getWeight", dict(case, block=nm), line, wgt))
        if not byc:
            vals = {id(b): [b.getNuclideNumberDensities(nucs)[j] for j in subset] for b in order}
            got = [rep.getNuclideNumberDensities(nucs)[j] for j in subset]
            blks = "[" + ",".join(blk_line(v, vol, wp, vals[id(b)]) for (v, vol, wp), b in zip(win, order)) + "]"
            if not oracle_only:
                ask(f"avg {useP} {len(subset)} {blks}",
                    lambda line, case=case, got=got: cmp_list(ctx, "block-level average densities vs AverageBlockCollection", case, line, got))
            for jj, j in enumerate(subset):
                xs = [vals[id(b)][jj] for b in cands]
                oracle_mean(ctx, dict(case, nuclide=nucs[j]), ws, W, xs, got[jj], "density")
        else:
            isCand = {id(b) for b in cands}

            def matching(b, name):
                """the member's component that corresponds to the representative's one: matched by NAME, not by position"""
                hit = [c for c in b.getComponents() if c.name == name]
                return hit[0] if len(hit) == 1 else None

            if len(rep.getComponents()) != len(cands[0].getComponents()):
                ctx.fail("avg-component-count", "the representative block has the members' components", case,
                         observed=[c.name for c in rep.getComponents()])
            for repc in rep.getComponents():
                ccase = dict(case, component=repc.name,
                             insertionOrders=[[c.name for c in b.getComponents()] for b in cands][:3])
                candc = [matching(b, repc.name) for b in cands]
                if any(c is None for c in candc):
                    ctx.count("by-component: members without a uniquely named matching component (skipped)")
                    continue
                vals = [[matching(b, repc.name).getNuclideNumberDensities(nucs)[j] for j in subset]
                        if id(b) in isCand else [0.0] * len(subset) for b in order]
                got = [repc.getNuclideNumberDensities(nucs)[j] for j in subset]
                blks = "[" + ",".join(blk_line(v, vol, wp, vv) for (v, vol, wp), vv in zip(win, vals)) + "]"
                if not oracle_only:
                    ask(f"avg {useP} {len(subset)} {blks}",
                        lambda line, ccase=ccase, got=got: cmp_list(ctx, "component average densities vs AverageBlockCollection", ccase, line, got))
                for jj, j in enumerate(subset):
                    xs = [c.getNuclideNumberDensities(nucs)[j] for c in candc]
                    oracle_mean(ctx, dict(ccase, nuclide=nucs[j]), ws, W, xs, got[jj], "component-density")
                # component temperature: weights getWeight/height x mass; zero weighted mass (gap): plain mean
                wh = [Fraction(wi) / Fraction(b.getHeight()) for b, wi in zip(cands, ws)]
                masses = [c.getMass() for c in candc]
                tw = [a * Fraction(m) for a, m in zip(wh, masses)]
                temps = [c.temperatureInC for c in candc]
                if not oracle_only and sum(wh) != 0:
                    ask(f"ctemp {ratlist(wh)} {ratlist(masses)} {ratlist(temps)}",
                        lambda line, ccase=ccase, t=repc.temperatureInC: cmp_list(ctx, "component temperature vs _getAverageComponentTemperature", ccase, line, [t], 1e-8))
                if sum(tw) != 0:
                    direct = float(sum(a * Fraction(t) for a, t in zip(tw, temps)) / sum(tw))
                    ctx.count("component temperature: mass-weighted branch")
                else:
                    direct = math.fsum(temps) / len(temps)
                    ctx.count("component temperature: zero-mass fall-back (plain mean)")
                if not math.isclose(repc.temperatureInC, direct, rel_tol=1e-8, abs_tol=1e-9):
                    ctx.fail("avg-component-temperature-weighted-mean",
                             "the averaged component temperature is the mean over the MATCHING components weighted by member weight x mass",
                             ccase, observed=repc.temperatureInC, expected=direct)
                if any(x < 0 for x in tw):
                    ctx.count("excluded point: component of negative mass (negative weight), convexity not asserted")
                elif not (min(temps) - 1e-9 <= repc.temperatureInC <= max(temps) + 1e-9):
                    ctx.fail("avg-component-temperature-convex", "averaged component temperature lies between the members' values",
                             ccase, observed=repc.temperatureInC, expected=[min(temps), max(temps)])
        # ---- burnup (candidates only since fix 5b02166; the model filters by the valid flag, the oracle clause below
        #      reports `avg-burnup-includes-ineligible-members` if non-candidates ever enter again)
        hb = [[b.p.massHmBOL, b.p.percentBu] for b in order]
        blks = "[" + ",".join(blk_line(v, vol, wp, x) for (v, vol, wp), x in zip(win, hb)) + "]"
        if not oracle_only:
            ask(f"burnup {useP} {blks}",
                lambda line, case=case, t=rep.p.percentBu: cmp_list(ctx, "weighted burnup vs _calcWeightedBurnup", case, line, [t]))
        hw = [b.p.massHmBOL * wi / b.getVolume() for b, wi in zip(cands, ws)]
        if math.fsum(hw) > 0:
            expect = math.fsum(h * b.p.percentBu for h, b in zip(hw, cands)) / math.fsum(hw)
            if not math.isclose(rep.p.percentBu, expect, rel_tol=1e-9, abs_tol=1e-12):
                allw = [b.p.massHmBOL * bc.getWeight(b) / b.getVolume() for b in order]
                viaAll = math.fsum(h * b.p.percentBu for h, b in zip(allw, order)) / math.fsum(allw)
                key = ("avg-burnup-includes-ineligible-members" if math.isclose(rep.p.percentBu, viaAll, rel_tol=1e-9, abs_tol=1e-12)
                       and len(cands) < len(order) else "avg-burnup-hm-weighted")
                ctx.count(f"oracle: {key}")
                # a known finding that fires on many cases must not fill the failure list (cap 200) and hide others
                if key != "avg-burnup-includes-ineligible-members" or ctx.hist[f"oracle: {key}"] <= 3:
                    ctx.fail(key, "the averaged burnup is the heavy-metal-weighted mean of the ELIGIBLE members' burnups", case,
                             observed=rep.p.percentBu, expected=expect)
        # ---- nuclide temperatures: weights w_b * n_cj(with trace) * volFrac_c * vol_b
        nuclide_temperature_checks(ctx, w, bc, order, win, cands, ws, temperature_nuclides(w, opt, subset), case, useP, ask, oracle_only)
        # ---- invariances on the real code (block level)
        if not byc and rng.random() < 0.5:
            invariance_oracles(ctx, w, bc, cls, order, opt, nucs, subset, rep, case)
    return req, checks, case0


def comp_terms(b, nuc):
    """raw per-component inputs of getBlockNuclideTemperatureAvgTerms for one nuclide: (declared, density, volume fraction, T)"""
    out = []
    for c, vf in b.getVolumeFractions():
        nd = c.p.numberDensities
        dec = nuc in nd
        out.append((dec, float(nd[nuc]) if dec else 0.0, vf, c.temperatureInC))
    return out


def comps_line(terms):
    return "[" + ",".join("[" + ",".join([("1" if d else "0"), rat(n), rat(vf), rat(t)]) + "]" for d, n, vf, t in terms) + "]"


def nuclide_temperature_checks(ctx, w, bc, order, win, cands, ws, nucNames, case, useP, ask, oracle_only):
    """average nuclide temperatures of a collection: model (raw per-component terms, trace densities) + direct oracle"""
    from armi.utils.units import TRACE_NUMBER_DENSITY

    isCand = {id(b) for b in cands}
    for nuc in nucNames:
        terms = {id(b): comp_terms(b, nuc) for b in order}
        tw, tt = [], []
        for b, wi in zip(cands, ws):
            wb = Fraction(wi)
            vol = Fraction(b.getVolume())
            for dec, n, vf, T in terms[id(b)]:
                nn = (n or TRACE_NUMBER_DENSITY) if dec else 0.0
                tw.append(wb * Fraction(nn) * Fraction(vf) * vol)
                tt.append(T)
                if dec and n == 0.0:
                    ctx.count("nuclide temperature: component declares the nuclide with zero density (trace)")
        got = bc.avgNucTemperatures.get(nuc)
        tcase = dict(case, nuclide=nuc)
        if not oracle_only:
            blks = "[" + ",".join("[" + ",".join([("1" if v else "0"), rat(b.getVolume()), rat(wp), comps_line(terms[id(b)])]) + "]"
                                  for (v, vol, wp), b in zip(win, order)) + "]"
            ask(f"ntemp {useP} {blks}",
                lambda line, tcase=tcase, got=got: cmp_list(ctx, "average nuclide temperature vs calcAvgNuclideTemperatures", tcase, line, [got], 1e-8))
        if sum(tw) == 0:
            ctx.count("nuclide temperature: nuclide declared nowhere among the eligible members")
            if got != 0.0:
                ctx.fail("avg-nuclide-temperature-absent", "a nuclide present nowhere has temperature 0", tcase, observed=got)
            continue
        direct = float(sum(a * Fraction(t) for a, t in zip(tw, tt)) / sum(tw))
        if not math.isclose(got, direct, rel_tol=1e-8, abs_tol=1e-9):
            ctx.fail("avg-nuclide-temperature-weighted-mean",
                     "the averaged nuclide temperature is the mean over (member, component) weighted by member weight x atoms",
                     tcase, observed=got, expected=direct)
        present = [t for t, wgt in zip(tt, tw) if wgt != 0]
        if any(x < 0 for x in tw):
            ctx.count("excluded point: negative (member, component) weight - hypothesis of avgNuclideTemperature_between_present fails, convexity not asserted")
        else:
            ctx.count("hypotheses of avgNuclideTemperature_between_present hold on the real members (non-negative volumes, weights, densities, fractions)")
            if not (min(present) - 1e-7 <= got <= max(present) + 1e-7):
                ctx.fail("avg-nuclide-temperature-convex", "averaged nuclide temperature lies between the members' values", tcase,
                         observed=got, expected=[min(present), max(present)])


def oracle_mean(ctx, case, ws, W, xs, got, what):
    """direct weighted mean + convexity + equal-members on the real output"""
    exp = math.fsum(wi * xi for wi, xi in zip(ws, xs)) / W
    if not math.isclose(got, exp, rel_tol=1e-9, abs_tol=1e-30):
        ctx.fail(f"avg-{what}-weighted-mean", "the averaged value is the weight-normalised mean of the eligible members' values",
                 case, observed=got, expected=exp)
    lo, hi = min(xs), max(xs)
    slack = 1e-12 * max(abs(lo), abs(hi))
    if not (lo - slack <= got <= hi + slack):
        ctx.fail(f"avg-{what}-convex", "the averaged value lies between the members' minimum and maximum", case,
                 observed=got, expected=[lo, hi])
    if lo == hi and not math.isclose(got, lo, rel_tol=1e-12, abs_tol=1e-30):
        ctx.fail(f"avg-{what}-equal-members", "when the members agree the average is the common value", case, observed=got, expected=lo)


def invariance_oracles(ctx, w, bc, cls, order, opt, nucs, subset, rep, case):
    """duplicating every member / rescaling the weighting values leaves the representative unchanged"""
    base = [rep.getNuclideNumberDensities(nucs)[j] for j in subset]
    bc2 = cls(nucs, validBlockTypes=opt["filter"], averageByComponent=False)
    bc2.weightingParam = bc.weightingParam
    for b in order:
        bc2.append(b)
        bc2.append(b)
    with common.quiet():
        rep2 = bc2.createRepresentativeBlock()
    dup = [rep2.getNuclideNumberDensities(nucs)[j] for j in subset]
    if any(not math.isclose(a, b, rel_tol=1e-9, abs_tol=1e-30) for a, b in zip(base, dup)):
        ctx.fail("avg-duplication-invariance", "duplicating every member leaves the average unchanged", case, observed=dup, expected=base)
    if bc.weightingParam and all(b.p.flux for b in order):
        old = [b.p.flux for b in order]
        for b in order:
            b.p.flux = b.p.flux * 4.0
        bc3 = cls(nucs, validBlockTypes=opt["filter"], averageByComponent=False)
        bc3.weightingParam = bc.weightingParam
        for b in order:
            bc3.append(b)
        with common.quiet():
            rep3 = bc3.createRepresentativeBlock()
        for b, f in zip(order, old):
            b.p.flux = f
        sc = [rep3.getNuclideNumberDensities(nucs)[j] for j in subset]
        if any(not math.isclose(a, b, rel_tol=1e-9, abs_tol=1e-30) for a, b in zip(base, sc)):
            ctx.fail("avg-scale-invariance", "rescaling all weights leaves the average unchanged", case, observed=sc, expected=base)
    ctx.count("invariance oracles (duplication / rescaling) on the real collections")


def rep_snapshot(w, bc, rep, subset, tempNucs):
    """observable content of a representative block + collection-level results"""
    nucs = w.allNucs
    d = rep.getNuclideNumberDensities(nucs)
    out = {"dens": [d[j] for j in subset], "bu": rep.p.percentBu,
           "temps": [bc.avgNucTemperatures.get(nucs[j]) for j in tempNucs]}
    comps = {}
    for c in rep.getComponents():
        cd = c.getNuclideNumberDensities(nucs)
        comps[c.name] = ([cd[j] for j in subset], c.temperatureInC)
    out["comps"] = comps
    return out


def snap_close(a, b, tol=1e-11):
    def cl(x, y):
        if x is None or y is None:
            return x is y
        return math.isclose(x, y, rel_tol=tol, abs_tol=1e-30)
    if not (all(cl(x, y) for x, y in zip(a["dens"], b["dens"])) and cl(a["bu"], b["bu"])
            and all(cl(x, y) for x, y in zip(a["temps"], b["temps"])) and a["comps"].keys() == b["comps"].keys()):
        return False
    for k in a["comps"]:
        if not (all(cl(x, y) for x, y in zip(a["comps"][k][0], b["comps"][k][0])) and cl(a["comps"][k][1], b["comps"][k][1])):
            return False
    return True


def trial_reuse(ctx, w, trial, oracle_only=False):
    """ONE collection object reused across member-state and membership changes: after every step its representative
    must equal that of a freshly built collection in the same state, and the model's answer for that state."""
    xg = w.xg
    rng = random.Random(f"C20r-{ctx.seed}-{trial}")
    order, opt = prepare_members(w, rng, trial)
    # all-positive weighting values so that every step is accepted
    for b in order:
        b.p.flux = float(rng.randint(1, 2 ** 20)) * 2.0 ** 20
    nucs = w.allNucs
    subset = sorted(rng.sample(range(len(nucs)), 6))
    kind, wparam, byComp = rng.choice([("FluxWeightedAverage", "flux", False), ("Average", "flux", True), ("Average", None, False),
                                       ("Average", None, True), ("Median", "flux", False)])
    cls = {"Average": xg.AverageBlockCollection, "FluxWeightedAverage": xg.FluxWeightedAverageBlockCollection,
           "Median": xg.MedianBlockCollection}[kind]

    def build(members):
        c = cls(nucs, validBlockTypes=opt["filter"], averageByComponent=byComp)
        if kind != "FluxWeightedAverage":
            c.weightingParam = wparam
        for b in members:
            c.append(b)
        return c

    spare = [b for b in w.fuel if not any(b is x for x in order)][:3]
    for b in spare:
        b.setType(order[0].getType() if opt["filter"] != ["igniter fuel"] else "igniter fuel")
        b.p.flux = float(rng.randint(1, 2 ** 20)) * 2.0 ** 20
    members = list(order)
    bc = build(members)
    req, checks = [], []
    steps = ["create"] + rng.sample(["reweight", "resize", "append", "remove", "burnup"], 3)
    case0 = dict(opt, trial=trial, collection=kind, weightingParam=wparam, averageByComponent=byComp, steps=steps,
                 members=[b.getName() for b in order])
    done = []
    for step in steps:
        if step == "reweight":
            for b in members:
                b.p.flux = float(rng.randint(1, 2 ** 20)) * 2.0 ** 20
        elif step == "resize":
            for b in members:
                b.setHeight(common.dyadic(rng, 10, 40, 2))
        elif step == "burnup":
            for b in members:
                b.p.percentBu = common.dyadic(rng, 0, 30, 3)
        elif step == "append" and spare:
            nb = spare.pop()
            members.append(nb)
            bc.append(nb)
        elif step == "remove" and len(bc.getCandidateBlocks()) > 2:
            victim = rng.choice(bc.getCandidateBlocks())
            members = [b for b in members if b is not victim]
            bc.remove(victim)
        done.append(step)
        case = dict(case0, after=list(done))
        ctx.count(f"reused collection: step {step}")
        try:
            with common.quiet():
                rep = bc.createRepresentativeBlock()
                fresh = build(members)
                frep = fresh.createRepresentativeBlock()
        except Exception as e:  # noqa
            ctx.fail("reused-collection-raises", "a collection can build its representative again after its members changed", case,
                     observed=repr(e))
            break
        ctx.case(("reuse", trial, tuple(done)), nontrivial=True)
        tempNucs = subset[:3]
        a, b_ = rep_snapshot(w, bc, rep, subset, tempNucs), rep_snapshot(w, fresh, frep, subset, tempNucs)
        if kind == "Median":
            if bc._getMedianBlock() is not fresh._getMedianBlock():
                ctx.fail("reused-collection-stale", "a reused collection gives the result of a freshly built one in the same state",
                         case, observed=bc._getMedianBlock().getName(), expected=fresh._getMedianBlock().getName())
        if not snap_close(a, b_):
            ctx.fail("reused-collection-stale", "a reused collection gives the result of a freshly built one in the same state",
                     case, observed={"dens": a["dens"][:3], "bu": a["bu"], "temps": a["temps"]},
                     expected={"dens": b_["dens"][:3], "bu": b_["bu"], "temps": b_["temps"]})
        # direct weighted mean + model for the current state
        cands = bc.getCandidateBlocks()
        ws = [((b.p[bc.weightingParam] or 1.0) if bc.weightingParam else 1.0) * (b.getVolume() or 1.0) for b in cands]
        W = math.fsum(ws)
        win = [real_weight_inputs(w, bc, b) for b in members]
        useP = "T" if bc.weightingParam else "F"
        if kind != "Median" and not bc._performAverageByComponent():
            vals = [[b.getNuclideNumberDensities(nucs)[j] for j in subset] for b in members]
            for jj, j in enumerate(subset):
                xs = [b.getNuclideNumberDensities(nucs)[j] for b in cands]
                oracle_mean(ctx, dict(case, nuclide=nucs[j]), ws, W, xs, a["dens"][jj], "density")
            if not oracle_only:
                blks = "[" + ",".join(blk_line(v, vol, wp, vv) for (v, vol, wp), vv in zip(win, vals)) + "]"
                req.append(f"avg {useP} {len(subset)} {blks}")
                checks.append(lambda line, case=case, got=list(a["dens"]): cmp_list(ctx, "reused collection: block-level average", case, line, got))
        if kind != "Median":
            hw = [b.p.massHmBOL * wi / b.getVolume() for b, wi in zip(cands, ws)]
            if math.fsum(hw) > 0:
                expect = math.fsum(h * b.p.percentBu for h, b in zip(hw, cands)) / math.fsum(hw)
                if not math.isclose(a["bu"], expect, rel_tol=1e-9, abs_tol=1e-12):
                    ctx.fail("avg-burnup-hm-weighted", "the averaged burnup is the heavy-metal-weighted mean of the ELIGIBLE members' burnups",
                             case, observed=a["bu"], expected=expect)
            if not oracle_only:
                hb = [[b.p.massHmBOL, b.p.percentBu] for b in members]
                blks = "[" + ",".join(blk_line(v, vol, wp, x) for (v, vol, wp), x in zip(win, hb)) + "]"
                req.append(f"burnup {useP} {blks}")
                checks.append(lambda line, case=case, t=a["bu"]: cmp_list(ctx, "reused collection: burnup", case, line, [t]))
    return req, checks, case0


def trial_grouping(ctx, w, trial):
    """assign types/burnups, regroup the whole core, compare with the model's grouping and check the partition"""
    from armi.physics.neutronics.const import CONF_CROSS_SECTION

    rng = random.Random(f"C20g-{ctx.seed}-{trial}")
    csm = w.csm
    # structure classes, cycled: single group / burnup only / temperature only / burnup x temperature
    structure = ("single", "burnup", "temperature", "both")[trial % 4]
    nbu = 0 if structure in ("single", "temperature") else rng.choice([1, 2, 4, 7])
    bounds = sorted({common.dyadic(rng, 0.5, 40, 1) for _ in range(nbu)})
    ntemp = 0 if structure in ("single", "burnup") else rng.choice([1, 2, 3])
    tbounds = sorted({float(rng.randint(4, 9) * 100) for _ in range(ntemp)})
    csm._setBuGroupBounds(list(bounds))
    csm._setTempGroupBounds(list(tbounds))
    # every fifth trial: more than 26 / up to all 52 one-letter XS types in use at once
    types = rng.sample(string.ascii_uppercase + string.ascii_lowercase, rng.randint(27, 52) if trial % 5 == 4 else rng.randint(1, 4))
    twochar = (not bounds and not tbounds) and rng.random() < 0.4
    blocks = w.core.getBlocks()
    for a in w.core:
        t = rng.choice(types)
        if twochar and rng.random() < 0.5:
            t = t + rng.choice(LETTERS)
        for b in a:
            b.p.xsType = t
            b.p.envGroup = "A"
            b.p.percentBu = rng.choice([0.0] + list(bounds) + [common.dyadic(rng, 0, 45, 2)])
    # make sure the XS settings exist and carry a temperature isotope when temperature groups are on
    useTemp = bool(tbounds) and rng.random() < 0.85
    if tbounds:
        # fuel temperatures spanning the temperature groups (pin components only)
        for b in rng.sample(w.fuel, min(len(w.fuel), 60)):
            T = rng.choice([float(x) for x in tbounds] + [float(rng.randint(300, 1000))])
            for c in b.getComponents():
                if c.name == "fuel":
                    c.temperatureInC = T
    with common.quiet():
        for t in {b.p.xsType for b in blocks}:
            for e in (LETTERS if len(t) == 1 else [""]):
                xs = csm._initializeXsID(t + e)
                xs.xsTempIsotope = "U238" if useTemp else None
                csm.cs[CONF_CROSS_SECTION][t + e] = xs  # defaults are built afresh on every lookup unless stored
    case = {"trial": trial, "structure": structure, "buBounds": bounds, "tempBounds": tbounds, "types": types, "useTemp": useTemp, "twochar": twochar}
    import numpy as np

    temps = {id(b): (float(np.ravel(w.xg.getBlockNuclideTemperature(b, "U238"))[0]) if useTemp else 0.0) for b in blocks}
    before = {id(b): dump_block(b)[11] for b in blocks}
    try:
        with common.quiet():
            groups = csm.makeCrossSectionGroups()
    except Exception as e:  # noqa
        ctx.fail("grouping-raises", "grouping the blocks of a core succeeds", case, observed=repr(e))
        return [], [], case
    req, checks = [], []
    # env group per block vs model
    for b in blocks[:: max(1, len(blocks) // 60)]:
        line = f"envgroup {rat(b.p.percentBu)} {ratlist(bounds)} {'T' if useTemp else 'F'} {rat(temps[id(b)])} {ratlist(tbounds)}"
        expect = "_" if (not bounds and not tbounds) else str(b.p.envGroupNum)
        req.append(line)
        checks.append(lambda l, expect=expect, nm=b.getName(): l == expect or ctx.disagree("environment group number", dict(case, block=nm), l, expect))
        if expect != "_":
            req.append(f"envchar {b.p.envGroupNum}")
            checks.append(lambda l, nm=b.getName(), eg=b.p.envGroup: decodes("[" + l + "]") == eg or ctx.disagree("env group letter", dict(case, block=nm), l, eg))
    # grouping vs model (core blocks; blueprint-only copies are appended by the manager after the core blocks)
    inCore = {id(b) for b in blocks}
    keys = [b.getMicroSuffix() for b in blocks]
    implGroups = []
    for k, coll in groups.items():
        mem = [i for i, b in enumerate(blocks) if any(x is b for x in coll)]
        if mem:
            implGroups.append("[" + codes(k) + ",[" + ",".join(map(str, mem)) + "]]")
    req.append("groups [" + ",".join(codes(k) for k in keys) + "]")
    expect = "[" + ",".join(implGroups) + "]"
    checks.append(lambda l, expect=expect: l == expect or ctx.disagree("groups vs makeCrossSectionGroups", case, l[:300], expect[:300]))
    for b in blocks[:: max(1, len(blocks) // 25)]:
        req.append(f"suffix {codes(b.p.xsType)} {codes(b.p.envGroup)}")
        checks.append(lambda l, nm=b.getName(), sfx=b.getMicroSuffix(): decodes(l) == sfx or ctx.disagree("micro suffix", dict(case, block=nm), l, sfx))
    # oracle: documented layout of the identifier (type letter then environment letter; 2-letter types stand alone)
    for b in blocks[:: max(1, len(blocks) // 40)]:
        want = b.p.xsType + b.p.envGroup if len(b.p.xsType) == 1 else b.p.xsType
        if b.getMicroSuffix() != want:
            ctx.fail("micro-suffix-layout", "the group identifier is the XS type followed by the environment group letter",
                     dict(case, block=b.getName()), observed=b.getMicroSuffix(), expected=want)
    # oracle: partition
    count = {id(b): 0 for b in blocks}
    for k, coll in groups.items():
        if list(groups.keys()) != sorted(groups.keys()):
            ctx.fail("groups-sorted", "groups are ordered by their identifier", case)
        for x in coll:
            if id(x) in count:
                count[id(x)] += 1
                if x.getMicroSuffix() != k:
                    ctx.fail("group-key-mismatch", "a block's group is determined by its XS type and environment group", dict(case, block=x.getName()),
                             observed=k, expected=x.getMicroSuffix())
            elif x.getMicroSuffix() != k:
                ctx.fail("group-key-mismatch", "a block's group is determined by its XS type and environment group", dict(case, block=x.getName()))
        if len(coll) == 0:
            ctx.fail("group-empty", "no empty group", dict(case, group=k))
    # oracle: two blocks share a group exactly when XS type, burnup group and temperature group all match
    def idx(x, bnds):
        for i, u in enumerate(bnds):
            if x <= u:
                return i
        return len(bnds)

    triple = {}
    for b in blocks:
        if len(b.p.xsType) != 1 or (not bounds and not tbounds):
            triple[id(b)] = (b.p.xsType, 0, 0)
        else:
            triple[id(b)] = (b.p.xsType, idx(b.p.percentBu, bounds), idx(temps[id(b)], tbounds) if (useTemp and tbounds) else 0)
    groupOf = {}
    for k, coll in groups.items():
        for x in coll:
            if id(x) in count:
                groupOf[id(x)] = k
    byTriple, byGroup = {}, {}
    for b in blocks:
        byTriple.setdefault(triple[id(b)], set()).add(groupOf.get(id(b)))
        byGroup.setdefault(groupOf.get(id(b)), set()).add(triple[id(b)])
    for tr, gs in byTriple.items():
        if len(gs) != 1:
            ctx.fail("same-environment-different-group", "blocks with the same XS type, burnup group and temperature group share a group",
                     dict(case, triple=list(tr)), observed=sorted(map(str, gs)))
    for g, trs in byGroup.items():
        if len(trs) != 1 and len({len(t[0]) for t in trs}) > 1:
            # a one-letter type in environment group X and the two-letter type "<letter>X" have the same identifier by
            # construction of getMicroSuffix (two-letter types are meant to be used without one-letter look-alikes)
            ctx.count("excluded point: one-letter type + env letter coincides with a two-letter type")
            continue
        if len(trs) != 1:
            ctx.fail("different-environment-same-group", "blocks in one group have the same XS type, burnup group and temperature group",
                     dict(case, group=g), observed=sorted(map(str, trs)))
    ctx.count(f"grouping structure {structure}: {len(byTriple)} distinct (type, burnup group, temperature group)")
    bad = [b.getName() for b in blocks if count[id(b)] != 1]
    if bad:
        ctx.fail("groups-partition", "every block of the core is in exactly one group", dict(case, blocks=bad[:5]), observed=len(bad))
    # burnup / temperature group monotone in the boundaries (implementation-side)
    if bounds:
        for b in blocks[::7]:
            gi = b.p.envGroupNum % (len(bounds) + 1)
            allb = list(bounds) + [float("inf")]
            if not (b.p.percentBu <= allb[gi] and (gi == 0 or b.p.percentBu > allb[gi - 1])):
                ctx.fail("burnup-group-bounds", "the burnup group of a block is the first boundary at or above its burnup",
                         dict(case, block=b.getName()), observed=gi, expected=b.p.percentBu)
    after = {id(b): dump_block(b)[11] for b in blocks}
    if before != after:
        ctx.fail("grouping-changes-compositions", "grouping does not change compositions", case)
    ctx.case(("grouping", trial), nontrivial=True, sample=dict(case, groups={k: len(v) for k, v in groups.items()}) if trial == 0 else None)
    ctx.count(f"grouping: {len(bounds)+1} burnup x {len(tbounds)+1} temperature groups")
    # restore defaults
    for b in blocks:
        b.p.xsType = "A"
        b.p.envGroup = "A"
    return req, checks, case


def run_env_letters(ctx, w):
    """env group letter <-> number setters and getMicroSuffix over all letters / lengths"""
    b = w.fuel[0]
    req, impl, cases = [], [], []
    for n in range(0, 55):
        try:
            b.p.envGroupNum = n
            out = str(ord(b.p.envGroup))
        except RuntimeError:
            out = "reject"
        req.append(f"envchar {n}"); impl.append(out); cases.append({"envGroupNum": n})
        if n < 52 and out != "reject":
            ch = chr(int(out))
            b.p.envGroup = ch
            if b.p.envGroupNum != n or ch != LETTERS[n]:
                ctx.fail("env-group-roundtrip", "environment group number -> letter -> number is the identity for the 52 groups",
                         {"n": n}, observed=[ch, b.p.envGroupNum])
    for ch in LETTERS:
        b.p.envGroup = ch
        req.append(f"envnum {ord(ch)}"); impl.append(str(b.p.envGroupNum)); cases.append({"envGroup": ch})
    for xs in ["A", "z", "AB", "zz", "Qa"]:
        for env in ["A", "B", "a", "z"]:
            b.p.xsType = xs
            b.p.envGroup = env
            try:
                out = codes(b.getMicroSuffix())
            except (ValueError, RuntimeError):
                out = "reject"
            req.append(f"suffix {codes(xs)} {codes(env)}"); impl.append(out); cases.append({"xsType": xs, "envGroup": env})
    b.p.xsType = "A"
    b.p.envGroup = "A"
    model = lean_run("XsGroup", req)
    ctx.compare("env group letters / micro suffix", cases, model, impl)
    ctx.evaluations += len(req)


# ------------------------------------------------------------------------------------------ continuation round: function-level ties
def lean_check(ctx, what, req, impl, cases):
    model = lean_run("XsGroup", req)
    ctx.compare(what, cases, model, impl)
    ctx.evaluations += len(req)
    return model


def run_bounds(ctx, w):
    """_setBuGroupBounds / _setTempGroupBounds: exhaustive over short lists from a pool with the critical values"""
    import itertools

    csm = w.csm
    req, impl, cases = [], [], []
    poolBu = [-1.0, 0.0, 0.5, 5.0, 10.0, 50.0, 100.0, 100.5]
    poolT = [-300.0, -273.15, -273.0, 0.0, 400.0, 900.0]
    lists = [list(x) for n in range(0, 4) for x in itertools.product(poolBu, repeat=n)]
    lists += [sorted(common.dyadic(ctx.rng, 0.5, 99, 2) for _ in range(ctx.rng.randint(4, 9))) for _ in range(ctx.pick(20, 200))]
    for bs in lists:
        try:
            csm._setBuGroupBounds(list(bs))
            got = csm._buGroupBounds
            out = ratlist(got[:-1]) if got[-1] == float("inf") else "no-infinity-appended"
        except ValueError:
            out = "reject"
        # the exact validation rule is tied by the model; what the interval theorem needs (accepted bounds ascending) is counted
        if out != "reject":
            ctx.count("hypothesis of firstLE_eq_of_interval on accepted burnup bounds: " +
                      ("ascending" if all(a <= b for a, b in zip(bs, bs[1:])) else "NOT ascending"))
        req.append(f"bubounds {ratlist(bs)}"); impl.append(out); cases.append({"buBounds": bs})
        ctx.count("bounds: burnup " + ("accepted" if out != "reject" else "refused"))
    tl = [list(x) for n in range(0, 4) for x in itertools.product(poolT, repeat=n)]
    for bs in tl:
        try:
            csm._setTempGroupBounds(list(bs))
            got = csm._tempGroupBounds
            out = ratlist(got[:-1]) if got[-1] == float("inf") else "no-infinity-appended"
        except ValueError:
            out = "reject"
        if out != "reject":
            ctx.count("hypothesis of firstLE_eq_of_interval on accepted temperature bounds: " +
                      ("ascending" if all(a <= b for a, b in zip(bs, bs[1:])) else "NOT ascending"))
        req.append(f"tbounds {ratlist(bs)}"); impl.append(out); cases.append({"tempBounds": bs})
        ctx.count("bounds: temperature " + ("accepted" if out != "reject" else "refused"))
    csm._setBuGroupBounds([])
    csm._setTempGroupBounds([])
    lean_check(ctx, "group-bound validation vs _setBuGroupBounds/_setTempGroupBounds", req, impl, cases)
    ctx.case(("bounds", "exhaustive short lists"), nontrivial=True)


def store_settings(w, suffixes, useTemp):
    from armi.physics.neutronics.const import CONF_CROSS_SECTION

    with common.quiet():
        for sfx in suffixes:
            xs = w.csm._initializeXsID(sfx)
            xs.xsTempIsotope = "U238" if useTemp else None
            w.csm.cs[CONF_CROSS_SECTION][sfx] = xs


def trial_updenv(ctx, w, trial):
    """_updateEnvironmentGroups on a whole block list: many groups (more than 52: the setter must refuse), blocks exactly ON a
    boundary, updates disabled, a single group"""
    import bisect
    import numpy as np

    rng = random.Random(f"C20u-{ctx.seed}-{trial}")
    csm = w.csm
    nb = (0, 1, 3, 7, 25, 51, 52, 60)[trial % 8]
    nt = rng.choice([0, 0, 1, 2]) if nb < 25 else rng.choice([0, 0, 0, 1])
    bb = sorted({common.dyadic(rng, 0.5, 99, 3) for _ in range(nb)})
    while len(bb) < nb:
        bb = sorted(set(bb) | {common.dyadic(rng, 0.5, 99, 4)})
    tb = sorted({float(rng.randint(4, 9) * 100) for _ in range(nt)})
    csm._setBuGroupBounds(list(bb))
    csm._setTempGroupBounds(list(tb))
    useTemp = bool(tb) and rng.random() < 0.8
    blocks = rng.sample(w.fuel, 24)
    for b in blocks:
        b.p.xsType = "A"
        b.p.envGroupNum = rng.randrange(0, 4)
        b.p.percentBu = rng.choice([0.0] + (rng.sample(bb, min(3, len(bb))) if bb else []) + [common.dyadic(rng, 0, 100, 2), bb[-1] + 0.5 if bb else 1.0])
        if tb:
            T = rng.choice([float(x) for x in tb] + [float(rng.randint(300, 1000))])
            for c in b.getComponents():
                if c.name == "fuel":
                    c.temperatureInC = T
    store_settings(w, ["A" + e for e in LETTERS], useTemp)
    enabled = rng.random() < 0.85
    temps = [float(np.ravel(w.xg.getBlockNuclideTemperature(b, "U238"))[0]) if useTemp else 0.0 for b in blocks]
    before = [b.p.envGroupNum for b in blocks]
    ebl = "[" + ",".join(f"[{rat(b.p.percentBu)},{'1' if useTemp else '0'},{rat(T)},{e}]" for b, T, e in zip(blocks, temps, before)) + "]"
    case = {"trial": trial, "buBounds": bb if len(bb) < 9 else f"{len(bb)} bounds", "tempBounds": tb, "useTemp": useTemp, "enabled": enabled}
    if not enabled:
        csm.disableEnvGroupUpdates()
    try:
        with common.quiet():
            csm._updateEnvironmentGroups(blocks)
        out = "[" + ",".join(str(b.p.envGroupNum) for b in blocks) + "]"
    except RuntimeError:
        out = "reject"
        ctx.count("whole-list update refused: more than 52 environment groups needed")
    finally:
        csm.enableEnvGroupUpdates()
    ctx.count(f"whole-list update: {len(bb)+1} x {len(tb)+1} groups, enabled={enabled}")
    if out != "reject":
        single = not bb and not tb
        for b, T, e0 in zip(blocks, temps, before):
            if not enabled or single:
                want = e0
            else:
                want = (bisect.bisect_left(tb, T) if (useTemp and tb) else 0) * (len(bb) + 1) + bisect.bisect_left(bb, b.p.percentBu)
            if b.p.envGroupNum != want:
                ctx.fail("env-group-interval", "a block's environment group is the interval (lower bound, upper bound] holding its burnup and "
                         "temperature (a value ON a bound belongs to the group below); disabled updates / a single group change nothing",
                         dict(case, block=b.getName(), bu=b.p.percentBu, tempC=T), observed=b.p.envGroupNum, expected=want)
                break
    ctx.case(("updenv", trial), nontrivial=True)
    for b in blocks:
        b.p.envGroup = "A"
    csm._setBuGroupBounds([])
    csm._setTempGroupBounds([])
    return ([f"updenv {'T' if enabled else 'F'} {ratlist(bb)} {ratlist(tb)} {ebl}"],
            [lambda line, case=case, out=out: line == out or ctx.disagree("whole-list environment update vs _updateEnvironmentGroups", case, line, out)], case)


def run_eligible(ctx, w):
    """getCandidateBlocks / hasFlags: every distinct block-flag pattern of the core x filters (none, empty, one word, several
    words, several types, a type sharing only some words)"""
    import copy

    xg = w.xg
    specs = [None, [], ["fuel"], ["feed fuel"], ["igniter fuel"], ["igniter fuel", "control"], ["shield"], ["axial shield", "fuel"],
             ["grid plate"], ["moveable plenum"], ["inner fuel"], ["duct"], ["fuel", "fuel"], ["feed fuel", "outer fuel"], ["radial shield"]]
    saved = [(b, b.getType()) for b in w.fuel[:3]]
    w.fuel[0].setType("igniter fuel")
    w.fuel[1].setType("feed fuel")
    w.fuel[2].setType("fuel")
    byflags = {}
    for b in w.core.getBlocks():
        byflags.setdefault(int(b.p.flags), b)
    blocks = list(byflags.values())
    with common.quiet():
        bare = copy.deepcopy(w.nonfuel[0])
    bare.p.flags = w.Flags(0)
    blocks.append(bare)
    req, impl, cases = [], [], []
    for spec in specs:
        bc = xg.AverageBlockCollection(w.allNucs, validBlockTypes=spec)
        types = bc._validRepresentativeBlockTypes
        for b in blocks:
            bc.append(b)
        cands = bc.getCandidateBlocks()
        tl = [int(t) for t in types] if types else []
        for b in blocks:
            got = any(x is b for x in cands)
            f = int(b.p.flags)
            want = True if not tl else any(t == 0 or (f != 0 and (f & t) == t) for t in tl)
            case = {"blockType": b.getType(), "flags": str(b.p.flags), "validBlockTypes": spec}
            if got != want:
                ctx.fail("eligibility-by-block-type", "a member is eligible exactly when no filter is set or it carries ALL the flags of one listed block type",
                         case, observed=got, expected=want)
            req.append(f"eligible {f} [{','.join(map(str, tl))}]"); impl.append("T" if got else "F"); cases.append(case)
            ctx.count(f"eligibility: filter={'none' if not tl else len(tl)} -> {'eligible' if got else 'not eligible'}")
            ctx.case(("eligible", str(spec), f), nontrivial=True)
    for b, t in saved:
        b.setType(t)
    lean_check(ctx, "eligibility vs getCandidateBlocks/hasFlags", req, impl, cases)


def trial_nextxs(ctx, w, trial):
    """getNextAvailableXsTypes: few / 26 / 51 / all 52 one-letter types allocated, two-letter types present, exclusions"""
    rng = random.Random(f"C20n-{ctx.seed}-{trial}")
    csm = w.csm
    allBlocks = w.core.getBlocks(includeAll=True)
    k = (1, 5, 26, 30, 51, 52, 47, 12)[trial % 8]
    types = rng.sample(LETTERS, k) + [a + b for a, b in zip(rng.sample(LETTERS, 2), rng.sample(LETTERS, 2))]
    for i, b in enumerate(allBlocks):
        b.p.xsType = types[i % len(types)]
    excluded = rng.choice([None, [], rng.sample(LETTERS, rng.randint(1, 6))])
    left = 52 - len(set(types[:k]) | set(excluded or []))
    howMany = rng.choice([1, 1, 2, 5, max(left, 1), left + 1, 60])
    try:
        with common.quiet():
            got = csm.getNextAvailableXsTypes(howMany, excludedXSTypes=excluded)
        out = codes("".join(got)) if all(len(x) == 1 for x in got) else "multi-char-type"
    except ValueError:
        got, out = None, "reject"
    alloc = sorted({b.p.xsType for b in allBlocks} | set(excluded or []))
    case = {"trial": trial, "allocatedOneLetter": k, "excluded": excluded, "howMany": howMany}
    ctx.count(f"next XS types: {k} allocated, {'refused' if got is None else 'granted'}")
    if got is None:
        if left >= howMany:
            ctx.fail("next-xs-types", "unallocated XS types are handed out while enough are left", case, observed="ValueError", expected=left)
    elif (len(got) != howMany or len(set(got)) != len(got) or any(x not in LETTERS for x in got) or any(x in alloc for x in got)):
        ctx.fail("next-xs-types", "handed-out XS types are admissible, pairwise distinct, unallocated and not excluded", case, observed=got)
    for b in allBlocks:
        b.p.xsType = "A"
    ctx.case(("nextxs", trial), nontrivial=True)
    return ([f"nextxs {howMany} [{','.join(codes(a) for a in alloc)}]"],
            [lambda line, case=case, out=out: line == out or ctx.disagree("next available XS types vs getNextAvailableXsTypes", case, line, out)], case)


def trial_area_average(ctx, w, trial):
    """_getAverageComponentNucs of the 1-D cylinder AND slab collections at function level: arbitrary component lists, weights
    including zero and all-zero (documented fall-back: zero densities)"""
    rng = random.Random(f"C20a-{ctx.seed}-{trial}")
    xg = w.xg
    cls = (xg.CylindricalComponentsAverageBlockCollection, xg.SlabComponentsAverageBlockCollection)[trial % 2]
    bc = cls(w.allNucs)
    n = rng.randint(1, 6)
    name = rng.choice(["fuel", "clad", "bond", "duct", "coolant"])
    comps = [next(c for c in b.getComponents() if c.name == name) for b in rng.sample(w.fuel, n)]
    mode = rng.choice(["positive", "positive", "some-zero", "all-zero"])
    bw = [0.0 if (mode == "all-zero" or (mode == "some-zero" and i % 2 == 0)) else common.dyadic(rng, 0.5, 300, 3) for i in range(n)]
    names, dens = bc._getAverageComponentNucs(comps, bw)
    areas = [c.getArea() for c in comps]
    req, checks = [], []
    case = {"trial": trial, "class": cls.__name__, "component": name, "weights": mode, "n": n}
    ctx.count(f"area-weighted component average: weights {mode}")
    tot = math.fsum(b * a for b, a in zip(bw, areas))
    for nm in rng.sample(list(names), min(3, len(names))):
        xs = [c.getNuclideNumberDensities([nm])[0] for c in comps]
        got = float(dens[list(names).index(nm)])
        exp = math.fsum(b * a * x for b, a, x in zip(bw, areas, xs)) / tot if tot > 0 else 0.0
        ncase = dict(case, nuclide=nm)
        if not math.isclose(got, exp, rel_tol=1e-9, abs_tol=1e-30):
            ctx.fail("avg-1d-component-density-weighted-mean", "the 1-D component average is the mean weighted by member weight x component area "
                     "(zero when the total weight is zero)", ncase, observed=got, expected=exp)
        if tot > 0 and not (min(xs) * (1 - 1e-12) <= got <= max(xs) * (1 + 1e-12)):
            ctx.fail("avg-1d-component-density-convex", "the 1-D component average lies between the members' values", ncase, observed=got,
                     expected=[min(xs), max(xs)])
        req.append(f"areaavg {ratlist(bw)} {ratlist(areas)} {ratlist(xs)}")
        checks.append(lambda line, ncase=ncase, got=got: cmp_list(ctx, "area-weighted average vs _getAverageComponentNucs", ncase, line, [got]))
    ctx.case(("areaavg", trial), nontrivial=True)
    return req, checks, case


def trial_cylinder(ctx, w, trial, oracle_only=False):
    """CylindricalComponentsAverageBlockCollection (+ duct-heterogeneous variant) end to end on members with like components"""
    rng = random.Random(f"C20y-{ctx.seed}-{trial}")
    xg = w.xg
    order, opt = prepare_members(w, rng, trial)
    sig = lambda b: tuple((c.name, c.getDimension("mult")) for c in sorted(b.getComponents()))
    ref = sig(order[0])
    order = [b for b in order if sig(b) == ref]
    if opt["fluxmode"] == "mixed":
        for b in order:
            b.p.flux = float(rng.randint(1, 2 ** 20)) * 2.0 ** 20
        opt["fluxmode"] = "positive"
    nucs = w.allNucs
    het = trial % 4 == 3
    cls = xg.CylindricalComponentsDuctHetAverageBlockCollection if het else xg.CylindricalComponentsAverageBlockCollection
    bc = cls(nucs, validBlockTypes=opt["filter"])
    bc.weightingParam = rng.choice([None, "flux"])
    for b in order:
        bc.append(b)
    case = dict(opt, trial=trial, collection=cls.__name__, weightingParam=bc.weightingParam, members=[b.getName() for b in order])
    cands = bc.getCandidateBlocks()
    req, checks = [], []
    if not cands:
        return req, checks, case
    before = [dump_block(b) for b in order]
    try:
        with common.quiet():
            rep = bc.createRepresentativeBlock()
    except ValueError as e:
        ctx.count("1-D cylinder collection refused (inconsistent components)")
        return req, checks, case
    if before != [dump_block(b) for b in order]:
        ctx.fail("representative-changes-core", "creating a representative block never changes the blocks of the core", case,
                 observed="member state differs after createRepresentativeBlock")
    ctx.case(("cylinder", trial), nontrivial=True)
    ctx.count(f"collection {cls.__name__} param={bc.weightingParam} filter={opt['filter']}")
    useP = "T" if bc.weightingParam else "F"
    win = [real_weight_inputs(w, bc, b) for b in order]
    ws = [((b.p[bc.weightingParam] or 1.0) if bc.weightingParam else 1.0) * (b.getVolume() or 1.0) for b in cands]
    # template = candidate of median (block-average temperature, name)
    tmpl = bc._selectCandidateBlock()
    keyed = sorted((b.getAverageTempInC(), b.getName()) for b in cands)
    if (tmpl.getAverageTempInC(), tmpl.getName()) != keyed[len(keyed) // 2] or not any(tmpl is b for b in cands):
        ctx.fail("cylinder-template-median-temperature", "the template of the 1-D representative is the eligible member of median block-average temperature",
                 case, observed=tmpl.getName(), expected=keyed[len(keyed) // 2][1])
    if not oracle_only:
        names = "[" + ",".join(codes(b.getName()) for b in order) + "]"
        blks = "[" + ",".join(blk_line(v, 1.0, 0.0, [b.getAverageTempInC()]) for (v, vol, wp), b in zip(win, order)) + "]"
        idx = [i for i, b in enumerate(order) if b is tmpl]
        req.append(f"median F {blks} {names}")
        checks.append(lambda line, idx=idx: (line == str(idx[0]) if idx else False)
                      or ctx.disagree("1-D template block vs _selectCandidateBlock", case, line, idx))
    # component densities: matched by NAME; weights member weight x component area
    for repc in rep.getComponents():
        candc = [[c for c in b.getComponents() if c.name == repc.name] for b in cands]
        if any(len(x) != 1 for x in candc):
            continue
        candc = [x[0] for x in candc]
        areas = [c.getArea() for c in candc]
        tot = math.fsum(a * wi for a, wi in zip(areas, ws))
        present = sorted(set().union(*[set(c.getNuclides()) for c in candc]))
        for nm in rng.sample(present, min(2, len(present))):
            xs = [c.getNuclideNumberDensities([nm])[0] for c in candc]
            got = repc.getNuclideNumberDensities([nm])[0]
            ccase = dict(case, component=repc.name, nuclide=nm)
            exp = math.fsum(a * wi * x for a, wi, x in zip(areas, ws, xs)) / tot if tot > 0 else 0.0
            if not math.isclose(got, exp, rel_tol=1e-9, abs_tol=1e-30):
                ctx.fail("avg-1d-component-density-weighted-mean", "the 1-D component average is the mean over the MATCHING components weighted by "
                         "member weight x component area", ccase, observed=got, expected=exp)
            if tot > 0 and not (min(xs) * (1 - 1e-12) <= got <= max(xs) * (1 + 1e-12)):
                ctx.fail("avg-1d-component-density-convex", "the 1-D component average lies between the members' values", ccase,
                         observed=got, expected=[min(xs), max(xs)])
            if not oracle_only:
                req.append(f"areaavg {ratlist(ws)} {ratlist(areas)} {ratlist(xs)}")
                checks.append(lambda line, ccase=ccase, got=got: cmp_list(ctx, "1-D component densities vs CylindricalComponentsAverageBlockCollection", ccase, line, [got]))
    # burnup
    hw = [b.p.massHmBOL * wi / b.getVolume() for b, wi in zip(cands, ws)]
    if math.fsum(hw) > 0:
        expect = math.fsum(h * b.p.percentBu for h, b in zip(hw, cands)) / math.fsum(hw)
        if not math.isclose(rep.p.percentBu, expect, rel_tol=1e-9, abs_tol=1e-12):
            ctx.fail("avg-burnup-hm-weighted", "the averaged burnup is the heavy-metal-weighted mean of the ELIGIBLE members' burnups", case,
                     observed=rep.p.percentBu, expected=expect)
    if not oracle_only:
        hb = [[b.p.massHmBOL, b.p.percentBu] for b in order]
        blks = "[" + ",".join(blk_line(v, vol, wp, x) for (v, vol, wp), x in zip(win, hb)) + "]"
        req.append(f"burnup {useP} {blks}")
        checks.append(lambda line, t=rep.p.percentBu: cmp_list(ctx, "1-D collection: burnup", case, line, [t]))
    if not het:
        def ask(line, fn):
            req.append(line); checks.append(fn)
        nuclide_temperature_checks(ctx, w, bc, order, win, cands, ws, temperature_nuclides(w, opt, [0])[:2], case, useP, ask, oracle_only)
    return req, checks, case


def group_table(w, csm, blocks, bp):
    """makeCrossSectionGroups() as (key, collection, [(token, block, isCandidate)]) with token = index of a core block, or
    len(core) + position of the blueprint block a copy was made from (copies carry no parent: the j-th copy in a group is the
    j-th blueprint block, in blueprint order, with that identifier)"""
    with common.quiet():
        groups = csm.makeCrossSectionGroups()
    pos = {id(b): i for i, b in enumerate(blocks)}
    bpBySuffix = {}
    for n, (_, _, b) in enumerate(bp):
        bpBySuffix.setdefault(b.getMicroSuffix(), []).append(n)
    table = []
    for k, coll in groups.items():
        cands = coll.getCandidateBlocks()
        rows = []
        src = iter(bpBySuffix.get(k, []))
        for b in coll:
            tok = pos[id(b)] if id(b) in pos else len(blocks) + next(src, -1)
            rows.append((tok, b, any(x is b for x in cands)))
        table.append((k, coll, rows))
    return table


def trial_manager(ctx, w, trial, oracle_only=False):
    """CrossSectionGroupManager.createRepresentativeBlocks end to end, twice (interactBOC then interactEveryNode), then with block
    types changed in between: groups without any eligible member (re-assigned to a represented environment group of their XS type, or
    left alone when there is none), pre-generated types, median / average types, blueprint-only blocks, burnup groups."""
    from armi.physics.neutronics.crossSectionGroupManager import LatticePhysicsFrequency

    rng = random.Random(f"C20m-{ctx.seed}-{trial}")
    csm = w.csm
    blocks = w.core.getBlocks()
    for fn in ("ISOXA", "rzmflxYA"):
        if not os.path.exists(fn):
            open(fn, "w").close()
    structure = ("single", "burnup", "burnup")[trial % 3]
    bounds = [] if structure == "single" else sorted({common.dyadic(rng, 2, 20, 1) for _ in range(rng.choice([1, 2, 3]))})
    csm._setBuGroupBounds(list(bounds))
    csm._setTempGroupBounds([])
    pool = rng.sample("ABCEFGHabcq", rng.randint(2, 4)) + rng.sample("DXY", rng.randint(0, 2))
    highBu = set(rng.sample(pool, 1)) if bounds else set()   # types whose fuel is all above the first bound: their env-A members have no candidate
    flux = rng.choice([0.0, None])
    for a in w.core:
        t = rng.choice(pool)
        for b in a:
            b.p.xsType = t
            b.p.envGroup = "A"
            if b.hasFlags(w.Flags.FUEL):
                lo = bounds[0] + 0.5 if t in highBu else 0.0
                b.p.percentBu = rng.choice([lo, lo] + [x for x in bounds if x >= lo] + [common.dyadic(rng, lo, 25, 2)])
            else:
                b.p.percentBu = 0.0
            b.p.flux = 0.0 if flux == 0.0 else float(rng.randint(1, 2 ** 20)) * 2.0 ** 20
    orphan = rng.choice("RSTUVW")
    for b in rng.sample(w.nonfuel, rng.randint(1, 12)):
        b.p.xsType = orphan                      # a type carried by non-fuel blocks only: unrepresented, nowhere to go
    bp = [(a.getType(), i, b) for a in w.r.blueprints.assemblies.values() for i, b in enumerate(a)]
    case = {"trial": trial, "structure": structure, "buBounds": bounds, "types": pool, "orphanType": orphan, "highBurnupTypes": sorted(highBu)}
    req, checks = [], []
    nucs = w.allNucs
    subset = sorted(rng.sample(range(len(nucs)), 4))

    def one_call(label, hook):
        tbl = group_table(w, csm, blocks, bp)
        pregen = [k for k, _, _ in tbl if csm.xsTypeIsPregenerated(k)]
        flat = [(k, tok, b, v) for k, _, rows in tbl for tok, b, v in rows]
        before = {id(b): dump_block(b) for b in blocks}
        ck = "[" + ",".join(codes(b.getMicroSuffix()) for b in blocks) + "]"
        bk = "[" + ",".join(codes(b.getMicroSuffix()) for _, _, b in bp) + "]"
        ccase = dict(case, call=label)
        try:
            with common.quiet():
                hook()
        except Exception as e:  # noqa
            ctx.fail("manager-raises", "creating the representative blocks of a core succeeds", ccase, observed=repr(e))
            return None
        reps = list(csm.representativeBlocks.keys())
        unrep = list(csm._unrepresentedXSIDs)
        ctx.count(f"manager call ({label}): {len(reps)} represented, {len(unrep)} unrepresented, {len(pregen)} pre-generated groups")
        # ---- model
        if not oracle_only:
            mb = "[" + ",".join(f"[{ord(k[0])},{ord(k[1])},{1 if v else 0}]" for k, tok, b, v in flat) + "]"
            envAfter = "[" + ",".join(str(ord(b.p.envGroup)) if tok < len(blocks) else "_" for k, tok, b, v in flat) + "]"
            implLine = "[" + ",".join(codes(k) for k in reps) + "] [" + ",".join(codes(k) for k in unrep) + "]"
            req.append(f"mgr {mb} [{','.join(codes(k) for k in pregen)}]")

            def chk(line, implLine=implLine, envAfter=envAfter, ccase=ccase):
                parts = line.split(" ")
                if len(parts) != 3 or " ".join(parts[:2]) != implLine:
                    return ctx.disagree("represented / unrepresented groups vs createRepresentativeBlocks", ccase, line[:300], implLine[:300])
                me, ie = common.parse_list(parts[2]), common.parse_list(envAfter)
                bad = [i for i, (a, b) in enumerate(zip(me, ie)) if b != "_" and a != b]
                if bad or len(me) != len(ie):
                    return ctx.disagree("environment groups after _modifyUnrepresentedXSIDs", dict(ccase, position=bad[:3]), [me[i] for i in bad[:3]], [ie[i] for i in bad[:3]])
                return True
            checks.append(chk)
            # two-pass grouping (core, then blueprint-only copies) at function level
            implG = "[" + ",".join("[" + codes(k) + ",[" + ",".join(str(tok) for tok, _, _ in rows) + "]]" for k, _, rows in tbl) + "]"
            req.append(f"mkgroups {ck} {bk}")
            checks.append(lambda line, implG=implG, ccase=ccase: line == implG
                          or ctx.disagree("groups (core + blueprint-only blocks) vs makeCrossSectionGroups", ccase, line[:300], implG[:300]))
        # ---- oracle: which groups get a representative
        want = sorted(k for k, coll, rows in tbl if any(v for _, _, v in rows) and k not in pregen)
        if reps != want:
            ctx.fail("represented-groups", "exactly the groups with an eligible member (and no pre-generated cross sections) get a representative, "
                     "ordered by identifier", ccase, observed=reps, expected=want)
        # ---- oracle: partition of the core blocks
        cnt = collections.Counter(tok for k, tok, b, v in flat if tok < len(blocks))
        if any(cnt[i] != 1 for i in range(len(blocks))):
            ctx.fail("groups-partition", "every block of the core is in exactly one group", ccase,
                     observed=[blocks[i].getName() for i in range(len(blocks)) if cnt[i] != 1][:5])
        for k, tok, b, v in flat:
            if tok >= len(blocks) and any(kk == k and t2 < len(blocks) for kk, t2, _, _ in flat):
                ctx.fail("blueprint-block-joins-core-group", "blueprint-only blocks are grouped only where no core block has the identifier", ccase,
                         observed=k)
                break
        # ---- oracle: frame condition
        repset = set(reps)
        envsOf = {}
        for k in reps:
            envsOf.setdefault(k[0], set()).add(k[1])
        for k, tok, b, v in flat:
            if tok >= len(blocks):
                continue
            after = dump_block(b)
            bef = before[id(b)]
            if k in unrep and k[0] in envsOf:
                wantEnv = sorted(envsOf[k[0]])
                ctx.count("manager: block of an unrepresented group re-assigned to a represented environment group")
            else:
                wantEnv = [bef[4]]
            same = after[:4] == bef[:4] and after[6:] == bef[6:] and after[4] in wantEnv
            if not same:
                diff = [i for i, (x, y) in enumerate(zip(after, bef)) if x != y]
                ctx.fail("representative-changes-core", "creating representatives never changes the blocks of the core (only the environment "
                         "group of blocks whose group has no eligible member moves, to a represented group of the same XS type)",
                         dict(ccase, block=b.getName(), group=k, changedFields=diff), observed=after[4], expected=wantEnv)
                break
        # ---- oracle: the representatives themselves (up to 4 groups)
        snaps = {}
        for k, coll, rows in tbl:
            if k not in repset:
                continue
            rep = csm.representativeBlocks[k]
            cands = [b for _, b, v in rows if v]
            d = rep.getNuclideNumberDensities(nucs)
            snaps[k] = ([d[j] for j in subset], rep.p.percentBu, csm.avgNucTemperatures.get(k, {}).get("U238"))
            if len(snaps) > 4:
                continue
            gcase = dict(ccase, group=k, collection=type(coll).__name__, members=len(rows), eligible=len(cands))
            ws = [((b.p[coll.weightingParam] or 1.0) if coll.weightingParam else 1.0) * (b.getVolume() or 1.0) for b in cands]
            if isinstance(coll, w.xg.MedianBlockCollection):
                keyed = sorted((b.p.percentBu * wi, b.getName()) for b, wi in zip(cands, ws))
                mbs = [b for b, wi in zip(cands, ws) if (b.p.percentBu * wi, b.getName()) == keyed[len(keyed) // 2]]
                ok = any(all(math.isclose(x, y, rel_tol=1e-12, abs_tol=0.0) for x, y in zip(d, m.getNuclideNumberDensities(nucs)))
                         and rep.p.percentBu == m.p.percentBu for m in mbs)
                if not ok:
                    ctx.fail("median-copy", "the median representative is a copy of the median member", gcase, observed=str(rep))
            elif isinstance(coll, w.xg.AverageBlockCollection):
                W = math.fsum(ws)
                for jj, j in enumerate(subset):
                    xs = [b.getNuclideNumberDensities(nucs)[j] for b in cands]
                    oracle_mean(ctx, dict(gcase, nuclide=nucs[j]), ws, W, xs, d[j], "density")
                hw = [b.p.massHmBOL * wi / b.getVolume() for b, wi in zip(cands, ws)]
                if math.fsum(hw) > 0:
                    expect = math.fsum(h * b.p.percentBu for h, b in zip(hw, cands)) / math.fsum(hw)
                    if not math.isclose(rep.p.percentBu, expect, rel_tol=1e-9, abs_tol=1e-12):
                        ctx.fail("avg-burnup-hm-weighted", "the averaged burnup is the heavy-metal-weighted mean of the ELIGIBLE members' burnups",
                                 gcase, observed=rep.p.percentBu, expected=expect)
        ctx.case(("manager", trial, label), nontrivial=True)
        return snaps

    def close(a, b):
        return a.keys() == b.keys() and all(
            all(math.isclose(x, y, rel_tol=1e-11, abs_tol=1e-30) for x, y in zip(a[k][0], b[k][0]))
            and math.isclose(a[k][1], b[k][1], rel_tol=1e-11, abs_tol=1e-30)
            and (a[k][2] is None) == (b[k][2] is None) and (a[k][2] is None or math.isclose(a[k][2], b[k][2], rel_tol=1e-9)) for k in a)

    csm._latticePhysicsFrequency = LatticePhysicsFrequency.BOC
    s1 = one_call("interactBOC", lambda: csm.interactBOC(0))
    csm._latticePhysicsFrequency = LatticePhysicsFrequency.everyNode
    s2 = one_call("interactEveryNode, nothing changed", lambda: csm.interactEveryNode(0, 1)) if s1 is not None else None
    if s1 is not None and s2 is not None and not close(s1, s2):
        ctx.fail("representatives-built-twice-differ", "building the representatives again on an unchanged core gives the same representatives",
                 case, observed={k: v[1] for k, v in s2.items()}, expected={k: v[1] for k, v in s1.items()})
    # block types change between two calls: some eligible members stop being fuel, some groups lose all of them
    changed = []
    victims = rng.sample(w.fuel, rng.randint(3, 30))
    for b in victims:
        changed.append((b, b.getType()))
        b.setType("reflector")
    if s2 is not None:
        one_call("interactEveryNode, block types changed", lambda: csm.interactEveryNode(0, 2))
    for b, t in changed:
        b.setType(t)
    for b in blocks:
        b.p.xsType = "A"
        b.p.envGroup = "A"
    csm._setBuGroupBounds([])
    csm._latticePhysicsFrequency = LatticePhysicsFrequency.BOC
    return req, checks, case


def trial_modified(ctx, w, trial, oracle_only=False):
    """_getModifiedReprBlocks (createRepresentativeBlocksUsingExistingBlocks): new XS ids for perturbed copies of representative
    blocks - new types must be unallocated and distinct per original type, the id map one-to-one, untouched blocks unchanged"""
    from armi.physics.neutronics.const import CONF_CROSS_SECTION

    rng = random.Random(f"C20x-{ctx.seed}-{trial}")
    csm = w.csm
    blocks = w.core.getBlocks()
    allBlocks = w.core.getBlocks(includeAll=True)
    k = (2, 4, 7, 20, 49, 51)[trial % 6]
    for fn in ("ISOXA", "rzmflxYA"):
        if not os.path.exists(fn):
            open(fn, "w").close()
    # 'Z' is the 1-D cylinder type of the fixture: it (rightly) refuses groups mixing fuel with and without plutonium
    types = rng.sample([c for c in LETTERS if c != "Z"], k)
    bounds = [] if trial % 2 else [4.0, 9.0]
    csm._setBuGroupBounds(list(bounds))
    for a in w.core:
        t = rng.choice(types)
        for b in a:
            b.p.xsType = t
            b.p.envGroup = "A"
            b.p.percentBu = rng.choice([0.0, 5.0, 12.0]) if b.hasFlags(w.Flags.FUEL) else 0.0
            b.p.flux = 0.0
    for b in allBlocks:
        if not any(b is x for x in blocks):
            b.p.xsType = types[0]
    settingsBefore = set(csm.cs[CONF_CROSS_SECTION].keys())
    with common.quiet():
        csm.createRepresentativeBlocks()
    reps = dict(csm.representativeBlocks)
    for key in rng.sample(sorted(reps), min(len(reps) - 1, rng.randint(0, 2))):
        del reps[key]                           # some groups have no original representative: their blocks are skipped
    blockList = rng.sample(blocks, rng.randint(1, 40))
    allocated = sorted({b.p.xsType for b in allBlocks})
    before = {id(b): (b.p.xsType, b.p.envGroup, b.getMicroSuffix()) for b in blocks}
    case = {"trial": trial, "typesInUse": len(allocated), "buBounds": bounds, "blockList": len(blockList), "originalRepresentatives": sorted(reps)}
    mb = "[" + ",".join(f"[{ord(b.p.xsType)},{ord(b.p.envGroup)},1]" for b in blockList) + "]"
    reqline = f"modids [{','.join(codes(a) for a in allocated)}] [{','.join(codes(r) for r in reps)}] {mb}"
    try:
        with common.quiet():
            modified, origFromNew = csm._getModifiedReprBlocks(blockList, reps)
        out = "[" + ",".join(f"[{codes(n)},{codes(o)}]" for n, o in origFromNew.items()) + "]"
    except ValueError:
        modified, origFromNew, out = None, None, "reject"
        ctx.count("modified representatives refused: no XS type left")
    if origFromNew is not None:
        ctx.count(f"modified representatives: {len(origFromNew)} new ids with {len(allocated)} types in use")
        news, origs = list(origFromNew.keys()), list(origFromNew.values())
        if (len(set(origs)) != len(origs) or any(n[0] in allocated or n[0] not in LETTERS for n in news)
                or any(n[1] != o[1] for n, o in origFromNew.items())
                or len({(o[0], n[0]) for n, o in origFromNew.items()}) != len({o[0] for o in origs})
                or len({n[0] for n in news}) != len({o[0] for o in origs})):
            ctx.fail("modified-representative-ids", "modified representative blocks get unallocated admissible XS types, one per original type, "
                     "and the map new id -> original id is one-to-one with the environment letter kept", case, observed=dict(origFromNew))
        inList = {id(b) for b in blockList}
        newOf = {o: n for n, o in origFromNew.items()}
        for b in blocks:
            t0, e0, s0 = before[id(b)]
            wantType = newOf[s0][0] if (id(b) in inList and s0 in newOf) else t0
            if (b.p.xsType, b.p.envGroup) != (wantType, e0):
                ctx.fail("modified-representative-frame", "only the listed blocks of a group with an original representative move to the new XS "
                         "type; every other block keeps its XS type and environment group", dict(case, block=b.getName()),
                         observed=[b.p.xsType, b.p.envGroup], expected=[wantType, e0])
                break
        for n, o in origFromNew.items():
            rep, src = modified[n], reps[o]
            a, b_ = rep.getNuclideNumberDensities(w.allNucs), src.getNuclideNumberDensities(w.allNucs)
            if rep is src or rep.p.xsType != n[0] or any(not math.isclose(x, y, rel_tol=1e-12, abs_tol=0.0) for x, y in zip(a, b_)):
                ctx.fail("modified-representative-copy", "a modified representative is a copy of the original one under the new XS type", dict(case, new=n, orig=o))
                break
    ctx.case(("modified", trial), nontrivial=True)
    for key in set(csm.cs[CONF_CROSS_SECTION].keys()) - settingsBefore:
        del csm.cs[CONF_CROSS_SECTION][key]
    for b in allBlocks:
        b.p.xsType = "A"
        b.p.envGroup = "A"
    csm._setBuGroupBounds([])
    if oracle_only:
        return [], [], case
    return ([reqline], [lambda line, case=case, out=out: line == out
                        or ctx.disagree("new XS ids of modified representatives vs _getModifiedReprBlocks", case, line[:300], out[:300])], case)


def make_annular(b, frac):
    """turn a solid fuel slug with the bond around it into an annular slug with the bond in the centre: the same component
    kinds, but bond and fuel swap places in the radial (sorted) order"""
    cs = {c.name: c for c in b.getComponents()}
    f, bo = cs["fuel"], cs["bond"]
    fod = f.getDimension("od")
    f.setDimension("id", frac * fod)
    bo.setDimension("id", 0.0)
    bo.setDimension("od", frac * fod)


def trial_similarity(ctx, w, trial):
    """by-component averaging over members whose components may NOT match position by position: copies of fuel blocks, some
    lacking a component (first, middle or LAST in sorted order) or with a PERMUTED RADIAL ORDER (annular slug with the bond in the
    centre next to solid slugs with the bond around them: same component kinds, different sorted order).
    Clause judged on the representative that is actually built: when averaging is done by component, every representative
    component is the weight-normalised mean over the members' components OF THE SAME KIND at that sorted position; members that do
    not match position by position must lead to block-level averaging (or a refusal) - never to an average of unlike components."""
    import copy

    rng = random.Random(f"C20s-{ctx.seed}-{trial}")
    xg = w.xg
    modes = ["intact", "permute-radial-order", "drop-last", "permute-radial-order-of-template", "drop-first", "drop-middle",
             "drop-last-of-template", "permute-radial-order-all", "permute-and-drop-last"]
    mode = modes[trial % len(modes)]
    n = rng.randint(1, 4) if mode in ("intact", "drop-middle") else rng.randint(2, 4)
    with common.quiet():
        bs = [copy.deepcopy(b) for b in rng.sample(w.fuel, n)]
    for b in bs:
        b.setType("fuel")
        b.p.flux = float(rng.randint(1, 2 ** 20)) * 2.0 ** 20
        b.p.percentBu = common.dyadic(rng, 0, 30, 3)
    if mode.startswith("permute"):
        who = bs if mode.endswith("all") else [bs[0]] if mode.endswith("template") else rng.sample(bs[1:], rng.randint(1, len(bs) - 1))
        for b in who:
            make_annular(b, rng.choice([0.25, 0.3, 0.5]))
    if "drop" in mode:
        victims = [bs[0]] if mode == "drop-last-of-template" else [rng.choice(bs[1:] if len(bs) > 1 else bs)]
        for b in victims:
            comps = sorted(b.getComponents())
            c = comps[-1] if "last" in mode else comps[0] if mode == "drop-first" else comps[len(comps) // 2]
            b.remove(c)
    abc = trial % 5 != 4
    bc = xg.AverageBlockCollection(w.allNucs, validBlockTypes=["fuel"], averageByComponent=abc)
    bc.weightingParam = rng.choice([None, None, "flux"])
    for b in bs:
        bc.append(b)
    cands = bc.getCandidateBlocks()
    fls = [[int(c.p.flags) for c in sorted(b.getComponents())] for b in cands]
    try:
        with common.quiet():
            out = "T" if bc._performAverageByComponent() else "F"
    except UnboundLocalError:
        out = "reject"
    case = {"trial": trial, "members": len(bs), "mode": mode, "averageByComponent": abc, "weightingParam": bc.weightingParam,
            "sortedComponentOrders": [[c.name for c in sorted(b.getComponents())] for b in cands][:4]}
    ctx.count(f"block similarity: {mode}, averageByComponent={abc} -> {out}")
    ragged = len({len(f) for f in fls}) > 1
    rep, raised = None, None
    if out != "reject":
        try:
            with common.quiet():
                rep = bc.createRepresentativeBlock()
        except (IndexError, ValueError) as e:
            raised = type(e).__name__
            ctx.count(f"block similarity: createRepresentativeBlock refuses ({raised})")
    if ragged and out == "T":
        obs = (f"representative with {len(rep.getComponents())} components from members with {sorted(len(f) for f in fls)}"
               if rep is not None else f"{raised} in createRepresentativeBlock")
        ctx.extra.setdefault("observation_ragged_members_by_component", collections.Counter())[obs] += 1
    if rep is not None:
        ws = [((b.p[bc.weightingParam] or 1.0) if bc.weightingParam else 1.0) * (b.getVolume() or 1.0) for b in cands]
        W = math.fsum(ws)
        probe = [n_ for n_ in ("U238", "U235", "NA23", "FE56", "ZR90", "CR52") if n_ in w.allNucs]
        if out == "T":
            # by component: like with like, position by position
            for i, rc in enumerate(sorted(rep.getComponents())):
                members = [sorted(b.getComponents()) for b in cands]
                unlike = [(b.getName(), (m[i].name if i < len(m) else None)) for b, m in zip(cands, members)
                          if i >= len(m) or m[i].p.flags != rc.p.flags]
                ccase = dict(case, position=i, component=rc.name)
                if unlike:
                    ctx.fail("by-component-averages-unlike-components",
                             "by-component averaging pairs the members' components of the same kind at each sorted position; members that do "
                             "not match position by position are averaged at block level (or refused), never component against unlike component",
                             ccase, observed={"representative component": rc.name, "paired with": unlike[:3]},
                             expected="block-level averaging or a refusal")
                    break
                for nm in probe:
                    xs = [m[i].getNuclideNumberDensities([nm])[0] for m in members]
                    got = rc.getNuclideNumberDensities([nm])[0]
                    if any(xs) or got:
                        oracle_mean(ctx, dict(ccase, nuclide=nm), ws, W, xs, got, "component-density")
            ctx.count("block similarity: by-component representative judged component by component")
        else:
            for nm in probe:
                xs = [b.getNuclideNumberDensities([nm])[0] for b in cands]
                got = rep.getNuclideNumberDensities([nm])[0]
                oracle_mean(ctx, dict(case, nuclide=nm), ws, W, xs, got, "density")
            ctx.count("block similarity: block-level (smeared) representative judged against the block-level mean")
    ctx.case(("similarity", trial), nontrivial=True)
    line = "[" + ",".join("[" + ",".join(map(str, f)) + "]" for f in fls) + "]"
    return ([f"similar {'T' if abc else 'F'} {line}"],
            [lambda l, case=case, out=out: l == out or ctx.disagree("by-component decision vs _performAverageByComponent", case, l, out)], case)


def run(ctx):
    import logging

    logging.disable(logging.CRITICAL)  # getXSTypeLabelFromNumber logs every refusal at error level
    try:
        run_labels(ctx)
    finally:
        logging.disable(logging.NOTSET)
    with common.scratch_dir():
        w = World()
        run_env_letters(ctx, w)
        req, checks = [], []
        for t in range(ctx.pick(12, 120)):
            r, c, _ = trial_grouping(ctx, w, t)
            req += r; checks += c
        for t in range(ctx.pick(40, 400)):
            r, c, _ = trial_collections(ctx, w, t)
            req += r; checks += c
        for t in range(ctx.pick(25, 200)):
            r, c, _ = trial_reuse(ctx, w, t)
            req += r; checks += c
        # continuation round: function-level ties and manager-level / 1-D streams
        run_bounds(ctx, w)
        run_eligible(ctx, w)
        for t in range(ctx.pick(16, 96)):
            r, c, _ = trial_updenv(ctx, w, t)
            req += r; checks += c
        for t in range(ctx.pick(16, 96)):
            r, c, _ = trial_nextxs(ctx, w, t)
            req += r; checks += c
        for t in range(ctx.pick(20, 200)):
            r, c, _ = trial_area_average(ctx, w, t)
            req += r; checks += c
        for t in range(ctx.pick(12, 100)):
            r, c, _ = trial_cylinder(ctx, w, t)
            req += r; checks += c
        for t in range(ctx.pick(6, 40)):
            r, c, _ = trial_manager(ctx, w, t)
            req += r; checks += c
        for t in range(ctx.pick(6, 48)):
            r, c, _ = trial_modified(ctx, w, t)
            req += r; checks += c
        for t in range(ctx.pick(36, 180)):
            r, c, _ = trial_similarity(ctx, w, t)
            req += r; checks += c
        if "observation_ragged_members_by_component" in ctx.extra:
            ctx.extra["observation_ragged_members_by_component"] = dict(ctx.extra["observation_ragged_members_by_component"])
        model = lean_run("XsGroup", req)
        for line, fn in zip(model, checks):
            fn(line)
        ctx.evaluations += len(req)
        ctx.count("model requests on generated block sets", len(req))
    ctx.exhaustive = True
    ctx.rule = ("labels: exhaustive (all 52 + 52^2 admissible labels both ways; all numbers below 13000 and sampled larger ones "
                "the other way; all 52 env letters). Collections: seeded member sets of 2-12 blocks of the reference reactor "
                "(compositions, temperatures, burnups, flux all-zero / all-positive / mixed, block-type filters, duplicates, "
                "identical members) x {Average, Average by component, FluxWeightedAverage, flux-weighted by component, Median, "
                "flux-weighted Median}; 2-4 step sequences on ONE reused collection (create, re-weight / resize / change burnups / append / "
                "remove members, create again) compared with a fresh collection and the model at every step; groupings: seeded XS types (every fifth trial 27-52 types at once) / burnup and temperature boundaries over the whole core. "
                "Continuation round: group-bound validation exhaustive over all lists of length <= 3 from pools with the critical values; eligibility for every distinct block-flag pattern x 15 filters; "
                "whole-list environment update (1..61 burnup groups x temperature groups, blocks ON boundaries, disabled, > 52 groups refused); getNextAvailableXsTypes with 1..52 types allocated; "
                "1-D cylinder collections (+ duct-heterogeneous) end to end and the cylinder/slab area-weighted average at function level (zero / all-zero weights); "
                "CrossSectionGroupManager.createRepresentativeBlocks end to end through interactBOC, interactEveryNode again (same representatives), and again after block types changed: "
                "groups without eligible member (re-assigned / orphan), pre-generated types, median and average types, blueprint-only blocks, burnup groups; members with a nuclide declared at density 0 "
                "(trace) in some/all members, mass-less components (plain-mean fall-back), single-member groups. "
                "distinct = labels + (trial, collection variant) + grouping trials; all non-trivial (real API compared with the model).")


def search(ctx, disagreements, broken):
    """re-evaluate the implementation-side oracle on the disagreeing trials and on neighbouring seeds"""
    out = []
    trials = sorted({d.case.get("trial") for d in disagreements if isinstance(d.case, dict) and "trial" in d.case})
    sub = type(ctx)(ctx.prop, ctx.tier, ctx.seed)
    labelish = [d for d in disagreements if isinstance(d.case, dict) and ("label" in d.case or "number" in d.case)]
    if labelish:
        run_labels_oracle(sub)
    if trials or not labelish:
        with common.scratch_dir():
            w = World()
            for t in (trials or list(range(20)))[:30]:
                trial_collections(sub, w, t, oracle_only=True)
                trial_reuse(sub, w, t, oracle_only=True)
                trial_grouping(sub, w, t)
            for t in range(1000, 1040):
                trial_collections(sub, w, t, oracle_only=True)
            # continuation-round streams: oracles of the disagreeing trials and of neighbouring seeds
            whats = " ".join(d.what for d in disagreements)
            ts = (trials or list(range(8)))[:16]
            if not disagreements or any(k in whats for k in ("represented", "environment groups after", "blueprint")):
                for t in ts[:8] + list(range(2000, 2004)):
                    trial_manager(sub, w, t, oracle_only=True)
            if not disagreements or any(k in whats for k in ("1-D", "area-weighted")):
                for t in ts + list(range(2000, 2010)):
                    trial_cylinder(sub, w, t, oracle_only=True)
                    trial_area_average(sub, w, t)
            if not disagreements or "whole-list" in whats:
                for t in ts + list(range(2000, 2016)):
                    trial_updenv(sub, w, t)
            if not disagreements or "next available" in whats:
                for t in ts + list(range(2000, 2016)):
                    trial_nextxs(sub, w, t)
            if not disagreements or "eligibility" in whats:
                run_eligible(sub, w)
            if not disagreements or "by-component decision" in whats:
                for t in ts + list(range(2000, 2020)):
                    trial_similarity(sub, w, t)
            if not disagreements or "modified representatives" in whats:
                for t in ts[:6] + list(range(2000, 2006)):
                    trial_modified(sub, w, t, oracle_only=True)
    return sub.failures


def run_labels_oracle(ctx):
    from armi.physics.neutronics import crossSectionGroupManager as xg

    seen = {}
    for lab in list(LETTERS) + [a + b for a in LETTERS for b in LETTERS]:
        try:
            n = xg.getXSTypeNumberFromLabel(lab)
            with common.quiet():
                back = xg.getXSTypeLabelFromNumber(n)
        except Exception as e:  # noqa
            back, n = repr(e), None
        if back != lab:
            ctx.fail("label-number-roundtrip", "label -> number -> label is the identity for every admissible label",
                     {"label": lab, "number": n}, observed=back, expected=lab)
        if n in seen:
            ctx.fail("label-number-collision", "no two admissible labels share a number", {"labels": [seen[n], lab], "number": n})
        seen[n] = lab


def replay(ctx, payload):
    key, case = payload["key"], payload["case"]
    sub = type(ctx)(ctx.prop, "quick", int(payload.get("seed", 0)))
    if key.startswith("label-") or key == "xs-type-alphabet":
        run_labels_oracle(sub)
    else:
        with common.scratch_dir():
            w = World()
            if key.startswith("env-group"):
                run_env_letters(sub, w)
            t = case.get("trial", 0) if isinstance(case, dict) else 0
            if key.startswith("eligibility"):
                run_eligible(sub, w)
            elif "orphanType" in case:
                trial_manager(sub, w, t, oracle_only=True)
            elif "originalRepresentatives" in case:
                trial_modified(sub, w, t, oracle_only=True)
            elif "mode" in case and "averageByComponent" in case and "members" in case and "collection" not in case:
                trial_similarity(sub, w, t)
            elif "enabled" in case:
                trial_updenv(sub, w, t)
            elif "allocatedOneLetter" in case:
                trial_nextxs(sub, w, t)
            elif "class" in case and "weights" in case:
                trial_area_average(sub, w, t)
            elif str(case.get("collection", "")).startswith("Cylindrical"):
                trial_cylinder(sub, w, t, oracle_only=True)
            elif "buBounds" in case:
                trial_grouping(sub, w, t)
            elif "steps" in case:
                trial_reuse(sub, w, t, oracle_only=True)
            else:
                trial_collections(sub, w, t, oracle_only=True)
    hit = [f for f in sub.failures if f.key == key]
    return hit[0].to_json() if hit else None
