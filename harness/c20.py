"""C20 - XS groups partition the blocks; label <-> number; representative blocks are true averages / the median member.

Theorems: lean/ArmiVerif/Props/C20.lean over Model/XsGroup.lean (exact rationals).
Tie: (1) labels EXHAUSTIVE: all 52 + 52^2 admissible labels both ways, plus every number 0..13000 and sampled
larger ones the other way, env-group letters/numbers, micro suffixes; (2) the real CrossSectionGroupManager /
AverageBlockCollection / FluxWeightedAverageBlockCollection / MedianBlockCollection (block level and by
component) on block sets generated from the reference test reactor: the model gets the exact rational value
of every input double (volumes, weighting values, densities, temperatures, burnups, HM masses) and its
exact answers are compared with the floats to 1e-9 relative; (3) implementation-side oracle: partition,
convexity, equal-members, duplication and rescaling invariance, direct weighted means, median rank, and a
dump of the member blocks before/after to show representatives never change the core.
"""
import math
import random
import string
from fractions import Fraction

from harness import common
from harness.common import Failure, lean_run, rat, ratlist

PROP_MODULES = ["ArmiVerif.Props.C20"]
PARTIAL = ("floating-point rounding of the numpy sums is not modelled (exact rationals, compared to 1e-9 relative); "
           "lumped-fission-product handling, deep copying of the template block and the 1-D slab/cylinder collections "
           "are outside the model (CylindricalComponents*/Slab collections not tied); "
           "core-unchanged is tied by dumping the member blocks before and after (functional model is pure by construction)")
ASSUMPTIONS = [
    "Block.getVolume/getNuclideNumberDensities/getVolumeFractions/getMass and parameter reads are inputs of the model "
    "(read from the real blocks); numpy dot/sum modelled as exact sums",
]
TOL = 1e-9
LETTERS = string.ascii_uppercase + string.ascii_lowercase


def codes(s):
    return "[" + ",".join(str(ord(c)) for c in s) + "]"


def decodes(line):
    if line in ("reject", "bad-op", "_"):
        return line
    return "".join(chr(int(x)) for x in common.parse_list(line))


# ------------------------------------------------------------------------------------------ labels (exhaustive)
def run_labels(ctx):
    from armi.physics.neutronics import crossSectionGroupManager as xg

    labels = list(LETTERS) + [a + b for a in LETTERS for b in LETTERS]
    if set(xg._ALLOWABLE_XS_TYPE_LIST) != set(LETTERS):
        ctx.fail("xs-type-alphabet", "admissible XS type characters are A-Z a-z", {}, observed=sorted(xg._ALLOWABLE_XS_TYPE_LIST))
    req, impl, cases = [], [], []
    seen = {}
    for lab in labels:
        try:
            n = xg.getXSTypeNumberFromLabel(lab)
        except Exception as e:  # noqa
            ctx.fail("label-to-number", "every admissible label has a number", {"label": lab}, observed=repr(e))
            continue
        req.append(f"l2n {codes(lab)}"); impl.append(str(n)); cases.append({"label": lab})
        try:
            with common.quiet():
                back = xg.getXSTypeLabelFromNumber(n)
        except Exception as e:  # noqa
            back = None
            ctx.fail("label-number-roundtrip", "label -> number -> label is the identity for every admissible label",
                     {"label": lab, "number": n}, observed=repr(e), expected=lab)
        if back is not None and back != lab:
            ctx.fail("label-number-roundtrip", "label -> number -> label is the identity for every admissible label",
                     {"label": lab, "number": n}, observed=back, expected=lab)
        if n in seen:
            ctx.fail("label-number-collision", "no two admissible labels share a number", {"labels": [seen[n], lab], "number": n})
        seen[n] = lab
        ctx.case(("label", lab), nontrivial=True, sample={"label": lab, "number": n} if lab in ("A", "zA") else None)
    # numbers -> labels, including numbers that are not the image of a label
    nums = list(range(0, 13000)) + sorted(seen) + [ctx.rng.randrange(13000, 2_000_000) for _ in range(ctx.pick(2000, 20000))]
    for n in nums:
        try:
            with common.quiet():
                s = xg.getXSTypeLabelFromNumber(n)
            out = codes(s)
        except ValueError:
            out = "reject"
        req.append(f"n2l {n}"); impl.append(out); cases.append({"number": n})
    ctx.count("labels (exhaustive 52 + 52^2)", len(labels))
    ctx.count("numbers -> label", len(nums))
    model = lean_run("XsGroup", req)
    ctx.compare("Model/XsGroup label<->number vs getXSTypeNumberFromLabel/getXSTypeLabelFromNumber", cases, model, impl)
    ctx.evaluations += len(nums)
    ctx.samples.append({"request": req[60], "model": model[60], "impl": impl[60]})


# ------------------------------------------------------------------------------------------ reactor-based cases
class World:
    """the reference test reactor, loaded once per run inside a scratch directory"""

    def __init__(self):
        from armi.physics.neutronics import crossSectionGroupManager as xg
        from armi.reactor.flags import Flags
        from armi.reactor.tests import test_reactors
        from armi.tests import TEST_ROOT

        with common.quiet():
            self.o, self.r = test_reactors.loadTestReactor(TEST_ROOT)
            self.csm = xg.CrossSectionGroupManager(self.r, self.o.cs)
            self.csm.interactBOL()
        self.xg = xg
        self.Flags = Flags
        self.core = self.r.core
        self.allNucs = list(self.r.blueprints.allNuclidesInProblem)
        self.fuel = self.core.getBlocks(Flags.FUEL)
        self.nonfuel = [b for b in self.core.getBlocks() if not b.hasFlags(Flags.FUEL)]


def dump_block(b):
    """observable state of a member block (what 'the core is unchanged' compares)"""
    comps = []
    for c in b.getComponents():
        comps.append((c.name, c.temperatureInC, tuple(sorted((k, float(v)) for k, v in c.getNumberDensities().items())),
                      c.getArea(), str(c.p.flags), c.p.mult))
    return (b.getName(), b.p.percentBu, b.p.flux, b.p.xsType, b.p.envGroup, b.p.envGroupNum, b.p.massHmBOL, b.getHeight(),
            b.getVolume(), str(b.p.flags), id(b.parent), tuple(comps),
            id(b.getLumpedFissionProductCollection()))


def blk_line(valid, vol, wp, vals):
    return "[" + ",".join([("1" if valid else "0"), rat(vol), rat(wp)] + [rat(v) for v in vals]) + "]"


def cmp_list(ctx, what, case, model_line, impl_vals, tol=TOL):
    """model line (list of rationals or reject) against implementation floats (or 'reject')"""
    if model_line in ("reject", "bad-op") or isinstance(impl_vals, str):
        if model_line != impl_vals:
            ctx.disagree(what, case, model_line, impl_vals if isinstance(impl_vals, str) else "values")
            return False
        return True
    mv = [Fraction(x) for x in common.parse_list(model_line)] if model_line.startswith("[") else [Fraction(model_line)]
    if len(mv) != len(impl_vals):
        ctx.disagree(what, case, model_line[:200], f"{len(impl_vals)} values")
        return False
    for j, (q, f) in enumerate(zip(mv, impl_vals)):
        if not (math.isfinite(float(f)) and common.close(f, q, tol)):
            ctx.disagree(what, dict(case, index=j), float(q), float(f))
            return False
    return True


def prepare_members(w, rng, trial):
    """draw a member set and perturb it (dyadic factors so that products stay short); returns (members, options)"""
    nmem = rng.randint(2, 12)
    members = rng.sample(w.fuel, nmem)
    filt = rng.choice([None, ["fuel"], ["fuel"], ["igniter fuel"]])
    if filt == ["igniter fuel"]:
        for b in members:
            b.setType("igniter fuel" if rng.random() < 0.6 else "feed fuel")
        if not any(b.hasFlags(w.Flags.fromString("igniter fuel")) for b in members):
            members[0].setType("igniter fuel")
    else:
        for b in members:
            b.setType("fuel")
    extra = []
    if filt == ["fuel"] and rng.random() < 0.6:
        extra = rng.sample(w.nonfuel, rng.randint(1, 3))
    if rng.random() < 0.6:
        for b in members:
            b.setHeight(common.dyadic(rng, 10, 40, 2))
    if rng.random() < 0.7:
        # component INSERTION order differing from size-sorted order, and differing between members (Block.add does not sort)
        for b in members:
            comps = list(b.getComponents())
            rng.shuffle(comps)
            b.setChildren(comps)
    fluxmode = rng.choice(["zero", "positive", "positive", "mixed"])
    for k, b in enumerate(members + extra):
        b.p.percentBu = rng.choice([0.0, common.dyadic(rng, 0, 30, 3)])
        if fluxmode == "zero":
            b.p.flux = 0.0
        elif fluxmode == "positive":
            b.p.flux = float(rng.randint(1, 2 ** 20)) * 2.0 ** 20
        else:
            b.p.flux = 0.0 if (k % 2 == 0) else float(rng.randint(1, 2 ** 20)) * 2.0 ** 20
        for c in b.getComponents():
            if c.getNumberDensities() and rng.random() < 0.7:
                c.changeNDensByFactor(common.dyadic(rng, 0.75, 1.25, 4))
            if rng.random() < 0.3 and c.name not in ("duct", "intercoolant", "coolant"):
                # pin components only: a hot duct outgrows the lattice pitch and the derived inter-assembly coolant
                # gets a negative area (negative mass = negative weight: outside the convexity hypothesis)
                c.temperatureInC = float(rng.randint(300, 900))
    if rng.random() < 0.15:
        # members that agree exactly: copies of one block's state
        src = members[0]
        for b in members[1:]:
            b.p.percentBu = src.p.percentBu
            for c, cs in zip(sorted(b.getComponents()), sorted(src.getComponents())):
                c.setNumberDensities(dict(cs.getNumberDensities()))
                c.temperatureInC = cs.temperatureInC
    order = members + extra
    rng.shuffle(order)
    return order, {"filter": filt, "fluxmode": fluxmode, "nmembers": len(order)}


def real_weight_inputs(w, bc, b):
    wp = b.p[bc.weightingParam] if bc.weightingParam else 0.0
    return bool(b.hasFlags(bc._validRepresentativeBlockTypes)), b.getVolume(), wp


def trial_collections(ctx, w, trial, oracle_only=False):
    xg = w.xg
    rng = random.Random(f"C20-{ctx.seed}-{trial}")
    order, opt = prepare_members(w, rng, trial)
    case0 = dict(opt, trial=trial, members=[b.getName() for b in order])
    nucs = w.allNucs
    subset = sorted(rng.sample(range(len(nucs)), 8))
    variants = [("Average", None, False), ("Average", None, True), ("FluxWeightedAverage", "flux", False),
                ("Average", "flux", True), ("Median", None, False), ("Median", "flux", False)]
    req, checks = [], []

    def ask(line, fn):
        req.append(line)
        checks.append(fn)

    for kind, wparam, byComp in variants:
        case = dict(case0, collection=kind, weightingParam=wparam, averageByComponent=byComp)
        cls = {"Average": xg.AverageBlockCollection, "FluxWeightedAverage": xg.FluxWeightedAverageBlockCollection,
               "Median": xg.MedianBlockCollection}[kind]
        bc = cls(nucs, validBlockTypes=opt["filter"], averageByComponent=byComp)
        if kind != "FluxWeightedAverage":
            bc.weightingParam = wparam
        for b in order:
            bc.append(b)
        useP = "T" if bc.weightingParam else "F"
        before = [dump_block(b) for b in order]
        cands = bc.getCandidateBlocks()
        win = [real_weight_inputs(w, bc, b) for b in order]
        ctx.count(f"collection {kind} param={bc.weightingParam} byComponent={byComp} filter={opt['filter']}")
        ctx.count(f"weighting values {opt['fluxmode']}")
        try:
            with common.quiet():
                rep = bc.createRepresentativeBlock()
            err = None
        except ValueError as e:
            rep, err = None, "reject"
            ctx.count("refused: mixture of zero and non-zero weighting factors")
        after = [dump_block(b) for b in order]
        if before != after:
            ctx.fail("representative-changes-core", "creating a representative block never changes the blocks of the core",
                     case, observed="member state differs after createRepresentativeBlock")
        ctx.case(("collection", trial, kind, wparam, byComp), nontrivial=True,
                 sample=dict(case, repr=str(rep)) if trial == 0 and kind == "Average" and not byComp else None)
        # expected refusal: candidates' weighting factors mix zero / non-zero
        wf = [b.p[bc.weightingParam] for b in cands] if bc.weightingParam else []
        mixed = any(wf) and not all(wf)
        if (err == "reject") != mixed:
            ctx.fail("mixed-weights-refusal", "mixed zero/non-zero weighting factors are refused, nothing else is", case,
                     observed=err, expected="reject" if mixed else "a block")
        # oracle weights computed from the documented definition (weighting value or 1) x (volume or 1), NOT through getWeight
        ws = [((b.p[bc.weightingParam] or 1.0) if bc.weightingParam else 1.0) * (b.getVolume() or 1.0) for b in cands]
        W = math.fsum(ws)
        for b, wi in zip(cands, ws):
            if not math.isclose(bc.getWeight(b), wi, rel_tol=1e-12):
                ctx.fail("weight-definition", "a member's weight is its weighting value (or 1) times its volume (or 1)",
                         dict(case, block=b.getName()), observed=bc.getWeight(b), expected=wi)
        if kind == "Median":
            names = "[" + ",".join(codes(b.getName()) for b in order) + "]"
            blks = "[" + ",".join(blk_line(v, vol, wp, [b.p.percentBu]) for (v, vol, wp), b in zip(win, order)) + "]"
            mb = bc._getMedianBlock()
            idx = [i for i, b in enumerate(order) if b is mb]
            # modelled domain: the float products bu*weight order the candidates as the exact products do (products a few
            # ulp apart - e.g. bu 3.0 x V against 1.5 x 2V - are the "nearly coincident" stream, judged by the oracle alone)
            fl = sorted((b.p.percentBu * wi, b.getName()) for b, wi in zip(cands, ws))
            ex = sorted((Fraction(b.p.percentBu) * (Fraction(b.p[bc.weightingParam] or 1.0) if bc.weightingParam else 1)
                         * Fraction(b.getVolume() or 1.0), b.getName()) for b in cands)
            inDomain = [n for _, n in fl] == [n for _, n in ex]
            if not inDomain:
                ctx.count("excluded point: median keys a few ulp apart (float and exact order differ), oracle only")
            if not oracle_only and inDomain:
                ask(f"median {useP} {blks} {names}",
                    lambda line, case=case, idx=idx: (line == str(idx[0]) if idx else False)
                    or ctx.disagree("median block vs MedianBlockCollection._getMedianBlock", case, line, idx))
            # oracle: member, eligible, rank
            if not idx or mb not in cands:
                ctx.fail("median-not-eligible-member", "the median representative is an eligible member", case, observed=str(mb))
            else:
                wof = {id(b): wi for b, wi in zip(cands, ws)}
                keyed = sorted((b.p.percentBu * wof[id(b)], b.getName()) for b in cands)
                if (mb.p.percentBu * wof[id(mb)], mb.getName()) != keyed[len(keyed) // 2]:
                    ctx.fail("median-rank", "the median block holds rank len//2 of (burnup x weight, name)", case,
                             observed=mb.getName(), expected=keyed[len(keyed) // 2][1])
                if rep is not None:
                    a = rep.getNuclideNumberDensities(nucs)
                    bvals = mb.getNuclideNumberDensities(nucs)
                    diff = [(nucs[j], x, y) for j, (x, y) in enumerate(zip(a, bvals)) if not math.isclose(x, y, rel_tol=1e-12, abs_tol=0.0)]
                    if diff or rep is mb or rep.p.percentBu != mb.p.percentBu:
                        ctx.fail("median-copy", "the median representative is a copy of the median member", case,
                                 observed={"differing": diff[:4], "same object": rep is mb, "bu": [rep.p.percentBu, mb.p.percentBu]})
            continue
        # ---- averages
        if err == "reject":
            blks = "[" + ",".join(blk_line(v, vol, wp, []) for (v, vol, wp) in win) + "]"
            if not oracle_only:
                ask(f"avg {useP} 0 {blks}", lambda line, case=case: line == "reject"
                    or ctx.disagree("average refusal", case, line, "reject"))
            continue
        byc = bc._performAverageByComponent()
        # weights through the model
        if not oracle_only:
            for (v, vol, wp), b in zip(win, order):
                ask(f"weight {useP} {blk_line(v, vol, wp, [])}",
                    lambda line, case=case, nm=b.getName(), wgt=bc.getWeight(b): common.close(wgt, Fraction(line), 1e-12)
                    or ctx.disagree("getWeight", dict(case, block=nm), line, wgt))
        if not byc:
            vals = {id(b): [b.getNuclideNumberDensities(nucs)[j] for j in subset] for b in order}
            got = [rep.getNuclideNumberDensities(nucs)[j] for j in subset]
            blks = "[" + ",".join(blk_line(v, vol, wp, vals[id(b)]) for (v, vol, wp), b in zip(win, order)) + "]"
            if not oracle_only:
                ask(f"avg {useP} {len(subset)} {blks}",
                    lambda line, case=case, got=got: cmp_list(ctx, "block-level average densities vs AverageBlockCollection", case, line, got))
            for jj, j in enumerate(subset):
                xs = [vals[id(b)][jj] for b in cands]
                oracle_mean(ctx, dict(case, nuclide=nucs[j]), ws, W, xs, got[jj], "density")
        else:
            isCand = {id(b) for b in cands}

            def matching(b, name):
                """the member's component that corresponds to the representative's one: matched by NAME, not by position"""
                hit = [c for c in b.getComponents() if c.name == name]
                return hit[0] if len(hit) == 1 else None

            if len(rep.getComponents()) != len(cands[0].getComponents()):
                ctx.fail("avg-component-count", "the representative block has the members' components", case,
                         observed=[c.name for c in rep.getComponents()])
            for repc in rep.getComponents():
                ccase = dict(case, component=repc.name,
                             insertionOrders=[[c.name for c in b.getComponents()] for b in cands][:3])
                candc = [matching(b, repc.name) for b in cands]
                if any(c is None for c in candc):
                    ctx.count("by-component: members without a uniquely named matching component (skipped)")
                    continue
                vals = [[matching(b, repc.name).getNuclideNumberDensities(nucs)[j] for j in subset]
                        if id(b) in isCand else [0.0] * len(subset) for b in order]
                got = [repc.getNuclideNumberDensities(nucs)[j] for j in subset]
                blks = "[" + ",".join(blk_line(v, vol, wp, vv) for (v, vol, wp), vv in zip(win, vals)) + "]"
                if not oracle_only:
                    ask(f"avg {useP} {len(subset)} {blks}",
                        lambda line, ccase=ccase, got=got: cmp_list(ctx, "component average densities vs AverageBlockCollection", ccase, line, got))
                for jj, j in enumerate(subset):
                    xs = [c.getNuclideNumberDensities(nucs)[j] for c in candc]
                    oracle_mean(ctx, dict(ccase, nuclide=nucs[j]), ws, W, xs, got[jj], "component-density")
                # component temperature: weights getWeight/height x mass
                tw = [Fraction(wi) / Fraction(b.getHeight()) * Fraction(c.getMass()) for b, c, wi in zip(cands, candc, ws)]
                temps = [c.temperatureInC for c in candc]
                if sum(tw) != 0:
                    if not oracle_only:
                        ask(f"wmean {ratlist(tw)} {ratlist(temps)}",
                            lambda line, ccase=ccase, t=repc.temperatureInC: cmp_list(ctx, "component temperature", ccase, line, [t], 1e-8))
                    direct = float(sum(a * Fraction(t) for a, t in zip(tw, temps)) / sum(tw))
                    if not math.isclose(repc.temperatureInC, direct, rel_tol=1e-8, abs_tol=1e-9):
                        ctx.fail("avg-component-temperature-weighted-mean",
                                 "the averaged component temperature is the mean over the MATCHING components weighted by member weight x mass",
                                 ccase, observed=repc.temperatureInC, expected=direct)
                    if any(x < 0 for x in tw):
                        ctx.count("excluded point: component of negative mass (negative weight), convexity not asserted")
                    elif not (min(temps) - 1e-9 <= repc.temperatureInC <= max(temps) + 1e-9):
                        ctx.fail("avg-component-temperature-convex", "averaged component temperature lies between the members' values",
                                 ccase, observed=repc.temperatureInC, expected=[min(temps), max(temps)])
        # ---- burnup (candidates only since fix 5b02166; the model filters by the valid flag, the oracle clause below
        #      reports `avg-burnup-includes-ineligible-members` if non-candidates ever enter again)
        hb = [[b.p.massHmBOL, b.p.percentBu] for b in order]
        blks = "[" + ",".join(blk_line(v, vol, wp, x) for (v, vol, wp), x in zip(win, hb)) + "]"
        if not oracle_only:
            ask(f"burnup {useP} {blks}",
                lambda line, case=case, t=rep.p.percentBu: cmp_list(ctx, "weighted burnup vs _calcWeightedBurnup", case, line, [t]))
        hw = [b.p.massHmBOL * wi / b.getVolume() for b, wi in zip(cands, ws)]
        if math.fsum(hw) > 0:
            expect = math.fsum(h * b.p.percentBu for h, b in zip(hw, cands)) / math.fsum(hw)
            if not math.isclose(rep.p.percentBu, expect, rel_tol=1e-9, abs_tol=1e-12):
                allw = [b.p.massHmBOL * bc.getWeight(b) / b.getVolume() for b in order]
                viaAll = math.fsum(h * b.p.percentBu for h, b in zip(allw, order)) / math.fsum(allw)
                key = ("avg-burnup-includes-ineligible-members" if math.isclose(rep.p.percentBu, viaAll, rel_tol=1e-9, abs_tol=1e-12)
                       and len(cands) < len(order) else "avg-burnup-hm-weighted")
                ctx.count(f"oracle: {key}")
                # a known finding that fires on many cases must not fill the failure list (cap 200) and hide others
                if key != "avg-burnup-includes-ineligible-members" or ctx.hist[f"oracle: {key}"] <= 3:
                    ctx.fail(key, "the averaged burnup is the heavy-metal-weighted mean of the ELIGIBLE members' burnups", case,
                             observed=rep.p.percentBu, expected=expect)
        # ---- nuclide temperatures: weights w_b * n_cj(with trace) * volFrac_c * vol_b
        from armi.utils.units import TRACE_NUMBER_DENSITY

        for j in subset[:3]:
            nuc = nucs[j]
            tw, tt = [], []
            for b, wi in zip(cands, ws):
                wb = Fraction(wi)
                vol = Fraction(b.getVolume())
                for c, vf in b.getVolumeFractions():
                    nd = c.p.numberDensities
                    n = (nd[nuc] or TRACE_NUMBER_DENSITY) if nuc in nd else 0.0
                    tw.append(wb * Fraction(n) * Fraction(vf) * vol)
                    tt.append(c.temperatureInC)
            got = bc.avgNucTemperatures.get(nuc)
            tcase = dict(case, nuclide=nuc)
            if sum(tw) == 0:
                if got != 0.0:
                    ctx.fail("avg-nuclide-temperature-absent", "a nuclide present nowhere has temperature 0", tcase, observed=got)
                continue
            if not oracle_only:
                ask(f"wmean {ratlist(tw)} {ratlist(tt)}",
                    lambda line, tcase=tcase, got=got: cmp_list(ctx, "average nuclide temperature vs calcAvgNuclideTemperatures", tcase, line, [got], 1e-8))
            direct = float(sum(a * Fraction(t) for a, t in zip(tw, tt)) / sum(tw))
            if not math.isclose(got, direct, rel_tol=1e-8, abs_tol=1e-9):
                ctx.fail("avg-nuclide-temperature-weighted-mean",
                         "the averaged nuclide temperature is the mean over (member, component) weighted by member weight x atoms",
                         tcase, observed=got, expected=direct)
            present = [t for t, wgt in zip(tt, tw) if wgt != 0]
            if not (min(present) - 1e-7 <= got <= max(present) + 1e-7):
                ctx.fail("avg-nuclide-temperature-convex", "averaged nuclide temperature lies between the members' values", tcase,
                         observed=got, expected=[min(present), max(present)])
        # ---- invariances on the real code (block level)
        if not byc and rng.random() < 0.5:
            invariance_oracles(ctx, w, bc, cls, order, opt, nucs, subset, rep, case)
    return req, checks, case0


def oracle_mean(ctx, case, ws, W, xs, got, what):
    """direct weighted mean + convexity + equal-members on the real output"""
    exp = math.fsum(wi * xi for wi, xi in zip(ws, xs)) / W
    if not math.isclose(got, exp, rel_tol=1e-9, abs_tol=1e-30):
        ctx.fail(f"avg-{what}-weighted-mean", "the averaged value is the weight-normalised mean of the eligible members' values",
                 case, observed=got, expected=exp)
    lo, hi = min(xs), max(xs)
    slack = 1e-12 * max(abs(lo), abs(hi))
    if not (lo - slack <= got <= hi + slack):
        ctx.fail(f"avg-{what}-convex", "the averaged value lies between the members' minimum and maximum", case,
                 observed=got, expected=[lo, hi])
    if lo == hi and not math.isclose(got, lo, rel_tol=1e-12, abs_tol=1e-30):
        ctx.fail(f"avg-{what}-equal-members", "when the members agree the average is the common value", case, observed=got, expected=lo)


def invariance_oracles(ctx, w, bc, cls, order, opt, nucs, subset, rep, case):
    """duplicating every member / rescaling the weighting values leaves the representative unchanged"""
    base = [rep.getNuclideNumberDensities(nucs)[j] for j in subset]
    bc2 = cls(nucs, validBlockTypes=opt["filter"], averageByComponent=False)
    bc2.weightingParam = bc.weightingParam
    for b in order:
        bc2.append(b)
        bc2.append(b)
    with common.quiet():
        rep2 = bc2.createRepresentativeBlock()
    dup = [rep2.getNuclideNumberDensities(nucs)[j] for j in subset]
    if any(not math.isclose(a, b, rel_tol=1e-9, abs_tol=1e-30) for a, b in zip(base, dup)):
        ctx.fail("avg-duplication-invariance", "duplicating every member leaves the average unchanged", case, observed=dup, expected=base)
    if bc.weightingParam and all(b.p.flux for b in order):
        old = [b.p.flux for b in order]
        for b in order:
            b.p.flux = b.p.flux * 4.0
        bc3 = cls(nucs, validBlockTypes=opt["filter"], averageByComponent=False)
        bc3.weightingParam = bc.weightingParam
        for b in order:
            bc3.append(b)
        with common.quiet():
            rep3 = bc3.createRepresentativeBlock()
        for b, f in zip(order, old):
            b.p.flux = f
        sc = [rep3.getNuclideNumberDensities(nucs)[j] for j in subset]
        if any(not math.isclose(a, b, rel_tol=1e-9, abs_tol=1e-30) for a, b in zip(base, sc)):
            ctx.fail("avg-scale-invariance", "rescaling all weights leaves the average unchanged", case, observed=sc, expected=base)
    ctx.count("invariance oracles (duplication / rescaling) on the real collections")


def rep_snapshot(w, bc, rep, subset, tempNucs):
    """observable content of a representative block + collection-level results"""
    nucs = w.allNucs
    d = rep.getNuclideNumberDensities(nucs)
    out = {"dens": [d[j] for j in subset], "bu": rep.p.percentBu,
           "temps": [bc.avgNucTemperatures.get(nucs[j]) for j in tempNucs]}
    comps = {}
    for c in rep.getComponents():
        cd = c.getNuclideNumberDensities(nucs)
        comps[c.name] = ([cd[j] for j in subset], c.temperatureInC)
    out["comps"] = comps
    return out


def snap_close(a, b, tol=1e-11):
    def cl(x, y):
        if x is None or y is None:
            return x is y
        return math.isclose(x, y, rel_tol=tol, abs_tol=1e-30)
    if not (all(cl(x, y) for x, y in zip(a["dens"], b["dens"])) and cl(a["bu"], b["bu"])
            and all(cl(x, y) for x, y in zip(a["temps"], b["temps"])) and a["comps"].keys() == b["comps"].keys()):
        return False
    for k in a["comps"]:
        if not (all(cl(x, y) for x, y in zip(a["comps"][k][0], b["comps"][k][0])) and cl(a["comps"][k][1], b["comps"][k][1])):
            return False
    return True


def trial_reuse(ctx, w, trial, oracle_only=False):
    """ONE collection object reused across member-state and membership changes: after every step its representative
    must equal that of a freshly built collection in the same state, and the model's answer for that state."""
    xg = w.xg
    rng = random.Random(f"C20r-{ctx.seed}-{trial}")
    order, opt = prepare_members(w, rng, trial)
    # all-positive weighting values so that every step is accepted
    for b in order:
        b.p.flux = float(rng.randint(1, 2 ** 20)) * 2.0 ** 20
    nucs = w.allNucs
    subset = sorted(rng.sample(range(len(nucs)), 6))
    kind, wparam, byComp = rng.choice([("FluxWeightedAverage", "flux", False), ("Average", "flux", True), ("Average", None, False),
                                       ("Average", None, True), ("Median", "flux", False)])
    cls = {"Average": xg.AverageBlockCollection, "FluxWeightedAverage": xg.FluxWeightedAverageBlockCollection,
           "Median": xg.MedianBlockCollection}[kind]

    def build(members):
        c = cls(nucs, validBlockTypes=opt["filter"], averageByComponent=byComp)
        if kind != "FluxWeightedAverage":
            c.weightingParam = wparam
        for b in members:
            c.append(b)
        return c

    spare = [b for b in w.fuel if not any(b is x for x in order)][:3]
    for b in spare:
        b.setType(order[0].getType() if opt["filter"] != ["igniter fuel"] else "igniter fuel")
        b.p.flux = float(rng.randint(1, 2 ** 20)) * 2.0 ** 20
    members = list(order)
    bc = build(members)
    req, checks = [], []
    steps = ["create"] + rng.sample(["reweight", "resize", "append", "remove", "burnup"], 3)
    case0 = dict(opt, trial=trial, collection=kind, weightingParam=wparam, averageByComponent=byComp, steps=steps,
                 members=[b.getName() for b in order])
    done = []
    for step in steps:
        if step == "reweight":
            for b in members:
                b.p.flux = float(rng.randint(1, 2 ** 20)) * 2.0 ** 20
        elif step == "resize":
            for b in members:
                b.setHeight(common.dyadic(rng, 10, 40, 2))
        elif step == "burnup":
            for b in members:
                b.p.percentBu = common.dyadic(rng, 0, 30, 3)
        elif step == "append" and spare:
            nb = spare.pop()
            members.append(nb)
            bc.append(nb)
        elif step == "remove" and len(bc.getCandidateBlocks()) > 2:
            victim = rng.choice(bc.getCandidateBlocks())
            members = [b for b in members if b is not victim]
            bc.remove(victim)
        done.append(step)
        case = dict(case0, after=list(done))
        ctx.count(f"reused collection: step {step}")
        try:
            with common.quiet():
                rep = bc.createRepresentativeBlock()
                fresh = build(members)
                frep = fresh.createRepresentativeBlock()
        except Exception as e:  # noqa
            ctx.fail("reused-collection-raises", "a collection can build its representative again after its members changed", case,
                     observed=repr(e))
            break
        ctx.case(("reuse", trial, tuple(done)), nontrivial=True)
        tempNucs = subset[:3]
        a, b_ = rep_snapshot(w, bc, rep, subset, tempNucs), rep_snapshot(w, fresh, frep, subset, tempNucs)
        if kind == "Median":
            if bc._getMedianBlock() is not fresh._getMedianBlock():
                ctx.fail("reused-collection-stale", "a reused collection gives the result of a freshly built one in the same state",
                         case, observed=bc._getMedianBlock().getName(), expected=fresh._getMedianBlock().getName())
        if not snap_close(a, b_):
            ctx.fail("reused-collection-stale", "a reused collection gives the result of a freshly built one in the same state",
                     case, observed={"dens": a["dens"][:3], "bu": a["bu"], "temps": a["temps"]},
                     expected={"dens": b_["dens"][:3], "bu": b_["bu"], "temps": b_["temps"]})
        # direct weighted mean + model for the current state
        cands = bc.getCandidateBlocks()
        ws = [((b.p[bc.weightingParam] or 1.0) if bc.weightingParam else 1.0) * (b.getVolume() or 1.0) for b in cands]
        W = math.fsum(ws)
        win = [real_weight_inputs(w, bc, b) for b in members]
        useP = "T" if bc.weightingParam else "F"
        if kind != "Median" and not bc._performAverageByComponent():
            vals = [[b.getNuclideNumberDensities(nucs)[j] for j in subset] for b in members]
            for jj, j in enumerate(subset):
                xs = [b.getNuclideNumberDensities(nucs)[j] for b in cands]
                oracle_mean(ctx, dict(case, nuclide=nucs[j]), ws, W, xs, a["dens"][jj], "density")
            if not oracle_only:
                blks = "[" + ",".join(blk_line(v, vol, wp, vv) for (v, vol, wp), vv in zip(win, vals)) + "]"
                req.append(f"avg {useP} {len(subset)} {blks}")
                checks.append(lambda line, case=case, got=list(a["dens"]): cmp_list(ctx, "reused collection: block-level average", case, line, got))
        if kind != "Median":
            hw = [b.p.massHmBOL * wi / b.getVolume() for b, wi in zip(cands, ws)]
            if math.fsum(hw) > 0:
                expect = math.fsum(h * b.p.percentBu for h, b in zip(hw, cands)) / math.fsum(hw)
                if not math.isclose(a["bu"], expect, rel_tol=1e-9, abs_tol=1e-12):
                    ctx.fail("avg-burnup-hm-weighted", "the averaged burnup is the heavy-metal-weighted mean of the ELIGIBLE members' burnups",
                             case, observed=a["bu"], expected=expect)
            if not oracle_only:
                hb = [[b.p.massHmBOL, b.p.percentBu] for b in members]
                blks = "[" + ",".join(blk_line(v, vol, wp, x) for (v, vol, wp), x in zip(win, hb)) + "]"
                req.append(f"burnup {useP} {blks}")
                checks.append(lambda line, case=case, t=a["bu"]: cmp_list(ctx, "reused collection: burnup", case, line, [t]))
    return req, checks, case0


def trial_grouping(ctx, w, trial):
    """assign types/burnups, regroup the whole core, compare with the model's grouping and check the partition"""
    from armi.physics.neutronics.const import CONF_CROSS_SECTION

    rng = random.Random(f"C20g-{ctx.seed}-{trial}")
    csm = w.csm
    # structure classes, cycled: single group / burnup only / temperature only / burnup x temperature
    structure = ("single", "burnup", "temperature", "both")[trial % 4]
    nbu = 0 if structure in ("single", "temperature") else rng.choice([1, 2, 4, 7])
    bounds = sorted({common.dyadic(rng, 0.5, 40, 1) for _ in range(nbu)})
    ntemp = 0 if structure in ("single", "burnup") else rng.choice([1, 2, 3])
    tbounds = sorted({float(rng.randint(4, 9) * 100) for _ in range(ntemp)})
    csm._setBuGroupBounds(list(bounds))
    csm._setTempGroupBounds(list(tbounds))
    types = rng.sample(string.ascii_uppercase + string.ascii_lowercase, rng.randint(1, 4))
    twochar = (not bounds and not tbounds) and rng.random() < 0.4
    blocks = w.core.getBlocks()
    for a in w.core:
        t = rng.choice(types)
        if twochar and rng.random() < 0.5:
            t = t + rng.choice(LETTERS)
        for b in a:
            b.p.xsType = t
            b.p.envGroup = "A"
            b.p.percentBu = rng.choice([0.0] + list(bounds) + [common.dyadic(rng, 0, 45, 2)])
    # make sure the XS settings exist and carry a temperature isotope when temperature groups are on
    useTemp = bool(tbounds) and rng.random() < 0.85
    if tbounds:
        # fuel temperatures spanning the temperature groups (pin components only)
        for b in rng.sample(w.fuel, min(len(w.fuel), 60)):
            T = rng.choice([float(x) for x in tbounds] + [float(rng.randint(300, 1000))])
            for c in b.getComponents():
                if c.name == "fuel":
                    c.temperatureInC = T
    with common.quiet():
        for t in {b.p.xsType for b in blocks}:
            for e in (LETTERS if len(t) == 1 else [""]):
                xs = csm._initializeXsID(t + e)
                xs.xsTempIsotope = "U238" if useTemp else None
                csm.cs[CONF_CROSS_SECTION][t + e] = xs  # defaults are built afresh on every lookup unless stored
    case = {"trial": trial, "structure": structure, "buBounds": bounds, "tempBounds": tbounds, "types": types, "useTemp": useTemp, "twochar": twochar}
    import numpy as np

    temps = {id(b): (float(np.ravel(w.xg.getBlockNuclideTemperature(b, "U238"))[0]) if useTemp else 0.0) for b in blocks}
    before = {id(b): dump_block(b)[11] for b in blocks}
    try:
        with common.quiet():
            groups = csm.makeCrossSectionGroups()
    except Exception as e:  # noqa
        ctx.fail("grouping-raises", "grouping the blocks of a core succeeds", case, observed=repr(e))
        return [], [], case
    req, checks = [], []
    # env group per block vs model
    for b in blocks[:: max(1, len(blocks) // 60)]:
        line = f"envgroup {rat(b.p.percentBu)} {ratlist(bounds)} {'T' if useTemp else 'F'} {rat(temps[id(b)])} {ratlist(tbounds)}"
        expect = "_" if (not bounds and not tbounds) else str(b.p.envGroupNum)
        req.append(line)
        checks.append(lambda l, expect=expect, nm=b.getName(): l == expect or ctx.disagree("environment group number", dict(case, block=nm), l, expect))
        if expect != "_":
            req.append(f"envchar {b.p.envGroupNum}")
            checks.append(lambda l, nm=b.getName(), eg=b.p.envGroup: decodes("[" + l + "]") == eg or ctx.disagree("env group letter", dict(case, block=nm), l, eg))
    # grouping vs model (core blocks; blueprint-only copies are appended by the manager after the core blocks)
    inCore = {id(b) for b in blocks}
    keys = [b.getMicroSuffix() for b in blocks]
    implGroups = []
    for k, coll in groups.items():
        mem = [i for i, b in enumerate(blocks) if any(x is b for x in coll)]
        if mem:
            implGroups.append("[" + codes(k) + ",[" + ",".join(map(str, mem)) + "]]")
    req.append("groups [" + ",".join(codes(k) for k in keys) + "]")
    expect = "[" + ",".join(implGroups) + "]"
    checks.append(lambda l, expect=expect: l == expect or ctx.disagree("groups vs makeCrossSectionGroups", case, l[:300], expect[:300]))
    for b in blocks[:: max(1, len(blocks) // 25)]:
        req.append(f"suffix {codes(b.p.xsType)} {codes(b.p.envGroup)}")
        checks.append(lambda l, nm=b.getName(), sfx=b.getMicroSuffix(): decodes(l) == sfx or ctx.disagree("micro suffix", dict(case, block=nm), l, sfx))
    # oracle: documented layout of the identifier (type letter then environment letter; 2-letter types stand alone)
    for b in blocks[:: max(1, len(blocks) // 40)]:
        want = b.p.xsType + b.p.envGroup if len(b.p.xsType) == 1 else b.p.xsType
        if b.getMicroSuffix() != want:
            ctx.fail("micro-suffix-layout", "the group identifier is the XS type followed by the environment group letter",
                     dict(case, block=b.getName()), observed=b.getMicroSuffix(), expected=want)
    # oracle: partition
    count = {id(b): 0 for b in blocks}
    for k, coll in groups.items():
        if list(groups.keys()) != sorted(groups.keys()):
            ctx.fail("groups-sorted", "groups are ordered by their identifier", case)
        for x in coll:
            if id(x) in count:
                count[id(x)] += 1
                if x.getMicroSuffix() != k:
                    ctx.fail("group-key-mismatch", "a block's group is determined by its XS type and environment group", dict(case, block=x.getName()),
                             observed=k, expected=x.getMicroSuffix())
            elif x.getMicroSuffix() != k:
                ctx.fail("group-key-mismatch", "a block's group is determined by its XS type and environment group", dict(case, block=x.getName()))
        if len(coll) == 0:
            ctx.fail("group-empty", "no empty group", dict(case, group=k))
    # oracle: two blocks share a group exactly when XS type, burnup group and temperature group all match
    def idx(x, bnds):
        for i, u in enumerate(bnds):
            if x <= u:
                return i
        return len(bnds)

    triple = {}
    for b in blocks:
        if len(b.p.xsType) != 1 or (not bounds and not tbounds):
            triple[id(b)] = (b.p.xsType, 0, 0)
        else:
            triple[id(b)] = (b.p.xsType, idx(b.p.percentBu, bounds), idx(temps[id(b)], tbounds) if (useTemp and tbounds) else 0)
    groupOf = {}
    for k, coll in groups.items():
        for x in coll:
            if id(x) in count:
                groupOf[id(x)] = k
    byTriple, byGroup = {}, {}
    for b in blocks:
        byTriple.setdefault(triple[id(b)], set()).add(groupOf.get(id(b)))
        byGroup.setdefault(groupOf.get(id(b)), set()).add(triple[id(b)])
    for tr, gs in byTriple.items():
        if len(gs) != 1:
            ctx.fail("same-environment-different-group", "blocks with the same XS type, burnup group and temperature group share a group",
                     dict(case, triple=list(tr)), observed=sorted(map(str, gs)))
    for g, trs in byGroup.items():
        if len(trs) != 1 and len({len(t[0]) for t in trs}) > 1:
            # a one-letter type in environment group X and the two-letter type "<letter>X" have the same identifier by
            # construction of getMicroSuffix (two-letter types are meant to be used without one-letter look-alikes)
            ctx.count("excluded point: one-letter type + env letter coincides with a two-letter type")
            continue
        if len(trs) != 1:
            ctx.fail("different-environment-same-group", "blocks in one group have the same XS type, burnup group and temperature group",
                     dict(case, group=g), observed=sorted(map(str, trs)))
    ctx.count(f"grouping structure {structure}: {len(byTriple)} distinct (type, burnup group, temperature group)")
    bad = [b.getName() for b in blocks if count[id(b)] != 1]
    if bad:
        ctx.fail("groups-partition", "every block of the core is in exactly one group", dict(case, blocks=bad[:5]), observed=len(bad))
    # burnup / temperature group monotone in the boundaries (implementation-side)
    if bounds:
        for b in blocks[::7]:
            gi = b.p.envGroupNum % (len(bounds) + 1)
            allb = list(bounds) + [float("inf")]
            if not (b.p.percentBu <= allb[gi] and (gi == 0 or b.p.percentBu > allb[gi - 1])):
                ctx.fail("burnup-group-bounds", "the burnup group of a block is the first boundary at or above its burnup",
                         dict(case, block=b.getName()), observed=gi, expected=b.p.percentBu)
    after = {id(b): dump_block(b)[11] for b in blocks}
    if before != after:
        ctx.fail("grouping-changes-compositions", "grouping does not change compositions", case)
    ctx.case(("grouping", trial), nontrivial=True, sample=dict(case, groups={k: len(v) for k, v in groups.items()}) if trial == 0 else None)
    ctx.count(f"grouping: {len(bounds)+1} burnup x {len(tbounds)+1} temperature groups")
    # restore defaults
    for b in blocks:
        b.p.xsType = "A"
        b.p.envGroup = "A"
    return req, checks, case


def run_env_letters(ctx, w):
    """env group letter <-> number setters and getMicroSuffix over all letters / lengths"""
    b = w.fuel[0]
    req, impl, cases = [], [], []
    for n in range(0, 55):
        try:
            b.p.envGroupNum = n
            out = str(ord(b.p.envGroup))
        except RuntimeError:
            out = "reject"
        req.append(f"envchar {n}"); impl.append(out); cases.append({"envGroupNum": n})
        if n < 52 and out != "reject":
            ch = chr(int(out))
            b.p.envGroup = ch
            if b.p.envGroupNum != n or ch != LETTERS[n]:
                ctx.fail("env-group-roundtrip", "environment group number -> letter -> number is the identity for the 52 groups",
                         {"n": n}, observed=[ch, b.p.envGroupNum])
    for ch in LETTERS:
        b.p.envGroup = ch
        req.append(f"envnum {ord(ch)}"); impl.append(str(b.p.envGroupNum)); cases.append({"envGroup": ch})
    for xs in ["A", "z", "AB", "zz", "Qa"]:
        for env in ["A", "B", "a", "z"]:
            b.p.xsType = xs
            b.p.envGroup = env
            try:
                out = codes(b.getMicroSuffix())
            except (ValueError, RuntimeError):
                out = "reject"
            req.append(f"suffix {codes(xs)} {codes(env)}"); impl.append(out); cases.append({"xsType": xs, "envGroup": env})
    b.p.xsType = "A"
    b.p.envGroup = "A"
    model = lean_run("XsGroup", req)
    ctx.compare("env group letters / micro suffix", cases, model, impl)
    ctx.evaluations += len(req)


def run(ctx):
    import logging

    logging.disable(logging.CRITICAL)  # getXSTypeLabelFromNumber logs every refusal at error level
    try:
        run_labels(ctx)
    finally:
        logging.disable(logging.NOTSET)
    with common.scratch_dir():
        w = World()
        run_env_letters(ctx, w)
        req, checks = [], []
        for t in range(ctx.pick(12, 120)):
            r, c, _ = trial_grouping(ctx, w, t)
            req += r; checks += c
        for t in range(ctx.pick(40, 400)):
            r, c, _ = trial_collections(ctx, w, t)
            req += r; checks += c
        for t in range(ctx.pick(25, 200)):
            r, c, _ = trial_reuse(ctx, w, t)
            req += r; checks += c
        model = lean_run("XsGroup", req)
        for line, fn in zip(model, checks):
            fn(line)
        ctx.evaluations += len(req)
        ctx.count("model requests on generated block sets", len(req))
    ctx.exhaustive = True
    ctx.rule = ("labels: exhaustive (all 52 + 52^2 admissible labels both ways; all numbers below 13000 and sampled larger ones "
                "the other way; all 52 env letters). Collections: seeded member sets of 2-12 blocks of the reference reactor "
                "(compositions, temperatures, burnups, flux all-zero / all-positive / mixed, block-type filters, duplicates, "
                "identical members) x {Average, Average by component, FluxWeightedAverage, flux-weighted by component, Median, "
                "flux-weighted Median}; 2-4 step sequences on ONE reused collection (create, re-weight / resize / change burnups / append / "
                "remove members, create again) compared with a fresh collection and the model at every step; groupings: seeded XS types / burnup and temperature boundaries over the whole core. "
                "distinct = labels + (trial, collection variant) + grouping trials; all non-trivial (real API compared with the model).")


def search(ctx, disagreements, broken):
    """re-evaluate the implementation-side oracle on the disagreeing trials and on neighbouring seeds"""
    out = []
    trials = sorted({d.case.get("trial") for d in disagreements if isinstance(d.case, dict) and "trial" in d.case})
    sub = type(ctx)(ctx.prop, ctx.tier, ctx.seed)
    labelish = [d for d in disagreements if isinstance(d.case, dict) and ("label" in d.case or "number" in d.case)]
    if labelish:
        run_labels_oracle(sub)
    if trials or not labelish:
        with common.scratch_dir():
            w = World()
            for t in (trials or list(range(20)))[:30]:
                trial_collections(sub, w, t, oracle_only=True)
                trial_reuse(sub, w, t, oracle_only=True)
                trial_grouping(sub, w, t)
            for t in range(1000, 1040):
                trial_collections(sub, w, t, oracle_only=True)
    return sub.failures


def run_labels_oracle(ctx):
    from armi.physics.neutronics import crossSectionGroupManager as xg

    seen = {}
    for lab in list(LETTERS) + [a + b for a in LETTERS for b in LETTERS]:
        try:
            n = xg.getXSTypeNumberFromLabel(lab)
            with common.quiet():
                back = xg.getXSTypeLabelFromNumber(n)
        except Exception as e:  # noqa
            back, n = repr(e), None
        if back != lab:
            ctx.fail("label-number-roundtrip", "label -> number -> label is the identity for every admissible label",
                     {"label": lab, "number": n}, observed=back, expected=lab)
        if n in seen:
            ctx.fail("label-number-collision", "no two admissible labels share a number", {"labels": [seen[n], lab], "number": n})
        seen[n] = lab


def replay(ctx, payload):
    key, case = payload["key"], payload["case"]
    sub = type(ctx)(ctx.prop, "quick", int(payload.get("seed", 0)))
    if key.startswith("label-") or key == "xs-type-alphabet":
        run_labels_oracle(sub)
    else:
        with common.scratch_dir():
            w = World()
            if key.startswith("env-group"):
                run_env_letters(sub, w)
            t = case.get("trial", 0) if isinstance(case, dict) else 0
            if "buBounds" in case:
                trial_grouping(sub, w, t)
            elif "steps" in case:
                trial_reuse(sub, w, t, oracle_only=True)
            else:
                trial_collections(sub, w, t, oracle_only=True)
    hit = [f for f in sub.failures if f.key == key]
    return hit[0].to_json() if hit else None
