"""Shared machinery of the armi verification harness (DESIGN.md sections 1, 2, 7).

Everything a per-property module (harness/cXX.py) needs:
  * Ctx            - one check run: tier, seed, PRNG, counters, samples, verdict
  * lean_run       - pipe request lines to a Lean driver (`lake env lean --run Drivers/X.lean`)
  * build/audit    - `lake build` under a file lock, `#print axioms` audit per property
  * evidence       - evidence/Cxx.json writer (schema /root/.vp/EVIDENCE.schema.json)
  * known findings - KNOWN_FINDINGS.txt matcher
Exit codes: 0 held, 1 violation (VIOLATION line printed), 2 infrastructure failure.
"""
from __future__ import annotations

import contextlib
import fcntl
import hashlib
import json
import os
import random
import re
import shutil
import subprocess
import sys
import tempfile
import time
import traceback
from fractions import Fraction

VERIF = os.path.dirname(os.path.dirname(os.path.abspath(__file__)))
LEAN = os.path.join(VERIF, "lean")
REPO = os.environ.get("ARMI_REPO", "/repo")
EVIDENCE = os.path.join(VERIF, "evidence")
REPLAYS = os.path.join(VERIF, "replays")
FINDINGS = os.path.join(VERIF, "KNOWN_FINDINGS.txt")
ALLOWED_AXIOMS = {"propext", "Classical.choice", "Quot.sound"}
FORBIDDEN = re.compile(
    r"\bsorry\b|\badmit\b|^\s*axiom\s|native_decide|bv_decide|implemented_by|\bunsafe\s|maxHeartbeats\s+0\b"
)

GLOBAL_TRUSTED = [
    "Lean 4.33.0 kernel (leanchecker re-check in the thorough tier)",
    "axioms per theorem audited on every run: subset of {propext, Classical.choice, Quot.sound}; no native_decide / bv_decide / sorry / own axioms",
    "Mathlib v4.33.0 modules imported by proof files (checked by the same kernel)",
    "hand-written Lean model: fidelity is exactly what this run's correspondence observed (counts below)",
    "Python harness: generators, canonicalisers, tolerance rule; Python 3.12 / numpy / h5py of /venv",
]


class Infra(Exception):
    """Infrastructure failure (my bug, not a verdict about armi): exit 2."""


# --------------------------------------------------------------------------- armi import
def import_armi():
    """Import armi from /repo's working tree, configured once."""
    if REPO not in sys.path:
        sys.path.insert(0, REPO)
    os.environ.setdefault("TERRAPOWER_ARMI_VERIF", "1")
    import armi  # noqa

    if os.path.dirname(os.path.dirname(os.path.abspath(armi.__file__))) != os.path.abspath(REPO):
        raise Infra(f"armi imported from {armi.__file__}, not {REPO}")
    if not armi.isConfigured():
        armi.configure(permissive=True)
    from armi import runLog

    with contextlib.suppress(Exception):
        runLog.setVerbosity("error")
    return armi


@contextlib.contextmanager
def scratch_dir(prefix="armi-verif-"):
    base = os.environ.get("VERIF_TMP") or tempfile.gettempdir()
    d = tempfile.mkdtemp(prefix=prefix, dir=base)
    old = os.getcwd()
    os.chdir(d)
    try:
        yield d
    finally:
        os.chdir(old)
        shutil.rmtree(d, ignore_errors=True)


@contextlib.contextmanager
def quiet():
    """Silence stdout/stderr chatter of armi while keeping our own prints (use ctx.say)."""
    devnull = open(os.devnull, "w")
    o, e = sys.stdout, sys.stderr
    sys.stdout, sys.stderr = devnull, devnull
    try:
        yield
    finally:
        sys.stdout, sys.stderr = o, e
        devnull.close()


# --------------------------------------------------------------------------- Lean bridge
@contextlib.contextmanager
def lake_lock():
    os.makedirs(os.path.join(LEAN, ".lake"), exist_ok=True)
    f = open(os.path.join(LEAN, ".lake", "verif.lock"), "w")
    try:
        fcntl.flock(f, fcntl.LOCK_EX)
        yield
    finally:
        fcntl.flock(f, fcntl.LOCK_UN)
        f.close()


def lake_build(targets=None, timeout=3000):
    """`lake build [targets]` under the lock. Returns (ok, output)."""
    cmd = ["lake", "build"] + list(targets or [])
    with lake_lock():
        p = subprocess.run(cmd, cwd=LEAN, capture_output=True, text=True, timeout=timeout)
    return p.returncode == 0, p.stdout + p.stderr


def lean_run(driver: str, lines, timeout=1800):
    """Run Drivers/<driver>.lean on the request lines; returns the list of response lines."""
    lines = list(lines)
    if not lines:
        return []
    data = "\n".join(lines) + "\n"
    p = subprocess.run(
        ["lake", "env", "lean", "--run", f"Drivers/{driver}.lean"],
        cwd=LEAN, input=data, capture_output=True, text=True, timeout=timeout,
    )
    if p.returncode != 0:
        raise Infra(f"lean driver {driver} failed: {p.stderr[-2000:]}")
    out = p.stdout.split("\n")
    if out and out[-1] == "":
        out.pop()
    if len(out) != len(lines):
        raise Infra(f"lean driver {driver}: {len(lines)} requests, {len(out)} responses")
    return out


def lean_source_scan(files):
    """Forbidden tokens outside comments in the given Lean files."""
    hits = []
    for path in files:
        try:
            src = open(path).read()
        except OSError:
            continue
        # strip block comments (nested not needed here) and line comments
        src2 = re.sub(r"/-.*?-/", lambda m: "\n" * m.group(0).count("\n"), src, flags=re.S)
        for n, line in enumerate(src2.split("\n"), 1):
            code = line.split("--")[0]
            if FORBIDDEN.search(code):
                hits.append(f"{os.path.relpath(path, LEAN)}:{n}: {line.strip()}")
    return hits


def theorem_names(path):
    """Public theorem names (qualified by the enclosing namespaces) of a Props file."""
    src = open(path).read()
    src = re.sub(r"/-.*?-/", lambda m: "\n" * m.group(0).count("\n"), src, flags=re.S)
    ns, names = [], []
    for line in src.split("\n"):
        code = line.split("--")[0]
        m = re.match(r"\s*namespace\s+(\S+)", code)
        if m:
            ns.append(m.group(1))
            continue
        m = re.match(r"\s*end\s+(\S+)", code)
        if m and ns and ns[-1] == m.group(1):
            ns.pop()
            continue
        m = re.match(r"\s*(?:@\[[^\]]*\]\s*)?(private\s+|protected\s+)?(?:theorem|lemma)\s+([^\s:({\[]+)", code)
        if m and not (m.group(1) or "").startswith("private"):
            names.append(".".join(ns + [m.group(2)]))
    return names


def audit(prop_modules):
    """#print axioms for every public theorem of the given Props modules.

    prop_modules: list of module names like 'ArmiVerif.Props.C07'.
    Returns dict(theorems=[(name, axioms)], bad=[...], scan=[...]).
    """
    names, files = [], []
    for mod in prop_modules:
        path = os.path.join(LEAN, *mod.split(".")) + ".lean"
        files.append(path)
        names += [(mod, n) for n in theorem_names(path)]
    # files the modules import from this project are scanned too
    seen = set(files)
    todo = list(files)
    while todo:
        f = todo.pop()
        try:
            src = open(f).read()
        except OSError:
            raise Infra(f"missing Lean file {f}")
        for m in re.finditer(r"^import\s+(ArmiVerif\.\S+)", src, flags=re.M):
            p = os.path.join(LEAN, *m.group(1).split(".")) + ".lean"
            if p not in seen:
                seen.add(p)
                todo.append(p)
    scan = lean_source_scan(sorted(seen))
    if not names:
        raise Infra(f"no theorems found in {prop_modules}")
    body = "".join(f"import {m}\n" for m in prop_modules)
    body += "".join(f"#print axioms {n}\n" for _, n in names)
    os.makedirs(os.path.join(LEAN, ".lake", "audit"), exist_ok=True)
    tag = hashlib.sha1(body.encode()).hexdigest()[:10]
    apath = os.path.join(LEAN, ".lake", "audit", f"Audit_{tag}.lean")
    # per-process file name: two concurrent checks of one property must not truncate each other's audit input
    apath = os.path.join(LEAN, ".lake", "audit", f"Audit_{tag}_{os.getpid()}.lean")
    with open(apath, "w") as f:
        f.write(body)
    p = subprocess.run(["lake", "env", "lean", apath], cwd=LEAN, capture_output=True, text=True, timeout=1800)
    out = p.stdout + p.stderr
    try:
        os.remove(apath)
    except OSError:
        pass
    if p.returncode != 0:
        raise Infra(f"axiom audit failed:\n{out[-3000:]}")
    res, bad = [], []
    # output forms: "'X' depends on axioms: [a, b]" (possibly wrapped) / "'X' does not depend on any axioms"
    flat = re.sub(r"\s+", " ", out)
    for _, n in names:
        m = re.search(r"'" + re.escape(n) + r"' (does not depend on any axioms|depends on axioms: \[([^\]]*)\])", flat)
        if not m:
            bad.append((n, "no audit output"))
            continue
        ax = [] if m.group(2) is None else [a.strip() for a in m.group(2).split(",") if a.strip()]
        res.append((n, ax))
        extra = [a for a in ax if a not in ALLOWED_AXIOMS]
        if extra:
            bad.append((n, extra))
    return {"theorems": res, "bad": bad, "scan": scan}


def leanchecker(modules, timeout=3000):
    p = subprocess.run(["lake", "env", "leanchecker"] + list(modules), cwd=LEAN,
                       capture_output=True, text=True, timeout=timeout)
    return p.returncode == 0, (p.stdout + p.stderr)[-2000:]


# --------------------------------------------------------------------------- numbers
def frac(x) -> Fraction:
    """Exact rational value of a Python/numpy number."""
    if isinstance(x, Fraction):
        return x
    if isinstance(x, int):
        return Fraction(x)
    return Fraction(float(x))


def rat(x) -> str:
    q = frac(x)
    return str(q.numerator) if q.denominator == 1 else f"{q.numerator}/{q.denominator}"


def unrat(s: str) -> Fraction:
    return Fraction(s)


def ratlist(xs) -> str:
    return "[" + ",".join(rat(x) for x in xs) + "]"


def intlist(xs) -> str:
    return "[" + ",".join(str(int(x)) for x in xs) + "]"


def parse_list(s: str):
    """Parse the protocol's bracketed lists into nested Python lists of strings."""
    s = s.strip()
    pos = 0

    def item():
        nonlocal pos
        if s[pos] in "[(":
            close = "]" if s[pos] == "[" else ")"
            pos += 1
            out = []
            if s[pos] == close:
                pos += 1
                return out
            while True:
                out.append(item())
                if s[pos] == ",":
                    pos += 1
                    continue
                if s[pos] == close:
                    pos += 1
                    return out
                raise ValueError(s)
        start = pos
        while pos < len(s) and s[pos] not in ",])":
            pos += 1
        return s[start:pos]

    v = item()
    if pos != len(s):
        raise ValueError(s)
    return v


def close(f, q, tol=1e-9):
    """|float - exact| <= tol * max(1, |exact|)."""
    q = Fraction(q)
    return abs(Fraction(float(f)) - q) <= Fraction(tol) * max(1, abs(q))


def dyadic(rng: random.Random, lo, hi, bits=4):
    """A short dyadic rational in [lo, hi] as float (exact in binary floating point)."""
    n = 1 << bits
    return rng.randint(int(lo * n), int(hi * n)) / n


# --------------------------------------------------------------------------- findings
def load_findings():
    out = {"finding": [], "fixed": []}
    lines = []
    if os.path.exists(FINDINGS):
        lines += open(FINDINGS).read().split("\n")
    extra = os.path.join(VERIF, "findings.d")
    if os.path.isdir(extra):
        for fn in sorted(os.listdir(extra)):
            if fn.endswith(".txt"):
                lines += open(os.path.join(extra, fn)).read().split("\n")
    for line in lines:
        line = line.strip()
        if not line or line.startswith("#"):
            continue
        m = re.match(r"(finding|fixed):\s+property=(C\d+)\s+(.*)", line)
        if not m:
            continue
        kind, prop, rest = m.groups()
        if kind == "finding":
            k = re.match(r"key=(\S+)\s*(.*)", rest)
            if k:
                out["finding"].append({"property": prop, "key": k.group(1), "text": k.group(2)})
        else:
            out["fixed"].append({"property": prop, "text": rest})
    return out


# --------------------------------------------------------------------------- check context
class Failure:
    """A concrete input on which the *implementation* breaks a clause of the property."""

    def __init__(self, key, clause, case, observed=None, expected=None, note=""):
        self.key, self.clause, self.case = key, clause, case
        self.observed, self.expected, self.note = observed, expected, note

    def to_json(self):
        return {"key": self.key, "clause": self.clause, "case": self.case,
                "observed": self.observed, "expected": self.expected, "note": self.note}


class Disagreement:
    """Model and implementation differ on an input (not by itself a violation)."""

    def __init__(self, what, case, model, impl):
        self.what, self.case, self.model, self.impl = what, case, model, impl

    def to_json(self):
        return {"correspondence": self.what, "case": self.case, "model": self.model, "impl": self.impl}


class Ctx:
    def __init__(self, prop, tier, seed):
        self.prop, self.tier, self.seed = prop, tier, seed
        self.rng = random.Random(f"{prop}-{seed}")
        self.t0 = time.time()
        self.evaluations = 0
        self.distinct = set()
        self.samples = []
        self.hist = {}
        self.failures = []        # Failure
        self.disagreements = []   # Disagreement
        self.broken_obligations = []  # (theorem/module, message)
        self.exhaustive = False
        self.traces = 0
        self.rule = ""
        self.assumptions = []
        self.extra = {}
        self.prop_modules = []
        self.audit_result = None
        self.partial = ""
        self.import_error = None

    # -- bookkeeping
    @property
    def thorough(self):
        return self.tier == "thorough"

    def pick(self, quick, thorough):
        return thorough if self.thorough else quick

    def say(self, *a):
        print(*a, file=sys.__stdout__, flush=True)

    def count(self, key, n=1):
        self.hist[key] = self.hist.get(key, 0) + n

    def crumb(self, case):
        """Announce the case about to be run through native/real code that could kill the interpreter
        (HDF5, scipy sparse, struct). If the process dies, the parent (harness/run.py) reports a VIOLATION
        whose replay is this case."""
        path = os.environ.get("VERIF_CRUMB")
        if path:
            try:
                with open(path, "w") as f:
                    json.dump({"evaluations": self.evaluations, "case": case}, f, default=str)
            except OSError:
                pass

    def case(self, canon, nontrivial=True, sample=None):
        """Record one evaluated case. canon: hashable canonical form (for distinct counting)."""
        self.evaluations += 1
        if nontrivial:
            if len(self.distinct) < 2_000_000:
                self.distinct.add(canon if isinstance(canon, (str, int, tuple)) else json.dumps(canon, sort_keys=True, default=str))
        if sample is not None and len(self.samples) < 6:
            self.samples.append(sample)

    def fail(self, key, clause, case, observed=None, expected=None, note=""):
        if len(self.failures) < 200:
            self.failures.append(Failure(key, clause, case, observed, expected, note))

    def disagree(self, what, case, model, impl):
        if len(self.disagreements) < 200:
            self.disagreements.append(Disagreement(what, case, model, impl))

    def compare(self, what, cases, model_lines, impl_lines):
        """Line-by-line diff of canonical outputs; records disagreements."""
        n = 0
        for c, m, i in zip(cases, model_lines, impl_lines):
            if m != i:
                self.disagree(what, c, m, i)
                n += 1
        return n


def write_evidence(ctx: Ctx, violations: int):
    os.makedirs(EVIDENCE, exist_ok=True)
    ar = ctx.audit_result or {"theorems": [], "bad": []}
    obligations = len(ar["theorems"]) + len(ar["bad"]) + len(ctx.broken_obligations)
    discharged = len([1 for n, ax in ar["theorems"] if all(a in ALLOWED_AXIOMS for a in ax)])
    cov = {
        "obligations": obligations,
        "discharged": discharged,
        "checker_cmd": "cd lean && lake build && lake env lean .lake/audit/Audit_<hash>.lean  (# print axioms per theorem; thorough: lake env leanchecker)",
        "trusted_base": GLOBAL_TRUSTED + ctx.assumptions,
        "theorems": [{"name": n, "axioms": ax} for n, ax in ar["theorems"]],
        "evaluations": ctx.evaluations,
        "distinct_nontrivial": len(ctx.distinct),
        "rule": ctx.rule,
        "samples": ctx.samples[:6] or ["(no correspondence cases run)"],
        "traces_validated_against_impl": ctx.traces or ctx.evaluations,
        "histogram": ctx.hist,
        "exhaustive": bool(ctx.exhaustive),
        "correspondence_disagreements": len(ctx.disagreements),
        "oracle_failures": len(ctx.failures),
        "partial": ctx.partial,
    }
    cov.update(ctx.extra)
    ev = {
        "property_id": ctx.prop,
        "tier": ctx.tier,
        "seed": ctx.seed,
        "level": "proof",
        "coverage": cov,
        "assumptions": ctx.assumptions,
        "wall_s": round(time.time() - ctx.t0, 2),
        "violations": violations,
    }
    tmp = os.path.join(EVIDENCE, f".{ctx.prop}.json.tmp{os.getpid()}")
    with open(tmp, "w") as f:
        json.dump(ev, f, indent=1, default=str)
    # evidence/Cxx.json describes runs against /repo itself; a run against another tree (ARMI_REPO=<scratch copy>, used by
    # tools/seedcheck.py and the builders' mutation tests) leaves it alone and writes evidence/.scratch-Cxx.json instead
    final = f"{ctx.prop}.json" if os.path.realpath(REPO) == os.path.realpath("/repo") else f".scratch-{ctx.prop}.json"
    os.replace(tmp, os.path.join(EVIDENCE, final))


def write_replay(ctx: Ctx, payload):
    os.makedirs(REPLAYS, exist_ok=True)
    blob = json.dumps(payload, sort_keys=True, default=str)
    h = hashlib.sha1(blob.encode()).hexdigest()[:10]
    path = os.path.join(REPLAYS, f"{ctx.prop}-{h}.json")
    payload = dict(payload)
    payload["replay_cmd"] = f"./check {ctx.prop} --replay replays/{ctx.prop}-{h}.json"
    with open(path, "w") as f:
        json.dump(payload, f, indent=1, default=str)
    return os.path.relpath(path, VERIF)


def decide(ctx: Ctx, module):
    """Turn collected failures / disagreements / broken obligations into the verdict (DESIGN section 2)."""
    findings = load_findings()
    known = {(f["property"], f["key"]): f for f in findings["finding"]}
    violations = 0
    printed_known = set()
    reported_keys = set()
    for fl in ctx.failures:
        k = (ctx.prop, fl.key)
        if k in known:
            if k not in printed_known:
                printed_known.add(k)
                ctx.say(f"KNOWN-FINDING: property={ctx.prop} key={fl.key} {known[k]['text']}")
            continue
        if fl.key in reported_keys:
            continue
        reported_keys.add(fl.key)
        path = write_replay(ctx, {"property": ctx.prop, "kind": "failing-input", "seed": ctx.seed,
                                  "tier": ctx.tier, **fl.to_json()})
        ctx.say(f"VIOLATION property={ctx.prop} replay={path}")
        violations += 1
    # disagreements: search for a failing input on the real code
    if ctx.disagreements or ctx.broken_obligations:
        found = []
        search = getattr(module, "search", None)
        if search is not None:
            try:
                found = list(search(ctx, ctx.disagreements, ctx.broken_obligations) or [])
            except Infra:
                raise
            except Exception:
                ctx.say("search raised:\n" + traceback.format_exc())
        new = [f for f in found if (ctx.prop, f.key) not in known and f.key not in reported_keys]
        for f in found:
            k = (ctx.prop, f.key)
            if k in known and k not in printed_known:
                printed_known.add(k)
                ctx.say(f"KNOWN-FINDING: property={ctx.prop} key={f.key} {known[k]['text']}")
        if new:
            for fl in new:
                if fl.key in reported_keys:
                    continue
                reported_keys.add(fl.key)
                path = write_replay(ctx, {"property": ctx.prop, "kind": "failing-input", "seed": ctx.seed,
                                          "tier": ctx.tier, **fl.to_json(),
                                          "triggered_by": [d.to_json() for d in ctx.disagreements[:3]]})
                ctx.say(f"VIOLATION property={ctx.prop} replay={path}")
                violations += 1
        elif violations == 0:
            payload = {"property": ctx.prop, "kind": "no-failing-input-found", "seed": ctx.seed, "tier": ctx.tier,
                       "broken_correspondence": [d.to_json() for d in ctx.disagreements[:10]],
                       "broken_obligations": [{"obligation": o, "message": m} for o, m in ctx.broken_obligations[:10]],
                       "note": "model/implementation correspondence or a proof obligation no longer checks; "
                               "the directed search found no input on which the implementation breaks the property"}
            path = write_replay(ctx, payload)
            ctx.say(f"VIOLATION property={ctx.prop} replay={path} no-failing-input-found")
            violations += 1
    return violations


def report_native_crash(prop, tier, seed, rc, crumb_path):
    """The child process running the check died abnormally (signal / abort inside native code)."""
    ctx = Ctx(prop, tier, seed)
    crumb, audit_res = {}, None
    try:
        crumb = json.load(open(crumb_path))
    except Exception:
        pass
    try:
        audit_res = json.load(open(crumb_path + ".audit"))
        audit_res["theorems"] = [tuple(x) for x in audit_res["theorems"]]
    except Exception:
        pass
    ctx.audit_result = audit_res
    ctx.evaluations = int(crumb.get("evaluations", 0)) + 1
    ctx.distinct = {"crashing-case", "cases-before-the-crash"}
    ctx.rule = "run ended by an abnormal interpreter death; counts are those announced before the crash"
    ctx.samples = [crumb.get("case", "(no breadcrumb)")]
    path = write_replay(ctx, {"property": prop, "kind": "failing-input", "seed": seed, "tier": tier,
                              "key": "native-crash", "case": crumb.get("case"),
                              "clause": "the implementation must not abort the interpreter; the check process died "
                                        f"with status {rc} while running this case on the real code",
                              "observed": f"exit status {rc}", "expected": "a value or a Python exception"})
    ctx.say(f"VIOLATION property={prop} replay={path}")
    write_evidence(ctx, 1)
    return 1


def standard_main(prop, module, argv):
    """Entry used by ./check: `check Cxx quick|thorough` or `check Cxx --replay file`."""
    seed = int(os.environ.get("VERIF_SEED", "0") or 0)
    if len(argv) >= 2 and argv[0] == "--replay":
        path = argv[1]
        if not os.path.isabs(path):
            path = os.path.join(VERIF, path)
        payload = json.load(open(path))
        ctx = Ctx(prop, "quick", int(payload.get("seed", 0)))
        rep = getattr(module, "replay", None)
        if str(payload.get("key", "")).startswith("srctie-") and payload.get("kind") == "failing-input":
            rep = rep or (lambda c, p: None)
        if rep is None or payload.get("kind") != "failing-input":
            ctx.say(f"replay: {payload.get('kind')} -- re-running the quick check instead")
            return run_check(prop, module, "quick", int(payload.get("seed", 0)))
        import_armi()
        if str(payload.get("key", "")).startswith("srctie-"):
            from harness import srctie
            rep = srctie.replay
        res = rep(ctx, payload)
        if res:
            ctx.say(f"VIOLATION property={prop} replay={os.path.relpath(path, VERIF)}")
            ctx.say(json.dumps(res, default=str)[:2000])
            return 1
        ctx.say("replay: the recorded input no longer fails")
        return 0
    tier = argv[0] if argv else os.environ.get("VERIF_TIER", "quick")
    if tier not in ("quick", "thorough"):
        raise Infra(f"unknown tier {tier}")
    return run_check(prop, module, tier, seed)


def source_tie(ctx, prop):
    """Source-translation tie (harness/srctie.py): re-translate the tied functions from the current source text,
    re-check the equivalence / corollary theorems, validate the translator. Same process, same evidence.
    VERIF_NO_SRCTIE=1 skips it. A failure inside it that is not a verdict about armi is an Infra (exit 2)."""
    if os.environ.get("VERIF_NO_SRCTIE") == "1":
        return
    try:
        from harness import srctie
    except ImportError:
        return
    if prop in srctie.TIES:
        srctie.run(ctx, prop)


def run_check(prop, module, tier, seed):
    ctx = Ctx(prop, tier, seed)
    ctx.prop_modules = list(getattr(module, "PROP_MODULES", [f"ArmiVerif.Props.{prop}"]))
    ctx.partial = getattr(module, "PARTIAL", "")
    ctx.assumptions = list(getattr(module, "ASSUMPTIONS", []))
    # 1. regenerate + build
    gen = getattr(module, "regenerate", None)
    gen_modules = []
    ctx.import_error = None
    if gen is not None:
        try:
            import_armi()
        except Infra:
            raise
        except Exception as e:  # armi itself refuses to import (e.g. the nuclide directory cannot be built)
            if getattr(module, "on_import_failure", None) is None:
                raise
            ctx.import_error = repr(e)
            ctx.say(f"armi refuses to import: {ctx.import_error[:300]}")
        gen_modules = list(gen(ctx) or [])
    targets = list(getattr(module, "BUILD_TARGETS", [])) + ctx.prop_modules + gen_modules
    ok, out = lake_build(sorted(set(targets)))
    if not ok:
        # a failure inside a module that depends on regenerated data is a broken proof obligation
        failed = re.findall(r"^- (ArmiVerif\.\S+)", out, flags=re.M)
        mine = [m for m in failed if m in gen_modules]
        other = [m for m in failed if m not in gen_modules]
        if mine and not [m for m in other if not m.startswith("ArmiVerif.Gen")]:
            for m in mine:
                ctx.broken_obligations.append((m, out[-1500:]))
            ctx.say(f"proof obligation over regenerated data no longer checks: {mine}")
        else:
            ctx.say(out[-4000:])
            raise Infra("lake build failed in modules that do not depend on /repo data")
    # 2. audit
    if not ctx.broken_obligations:
        ctx.audit_result = audit(ctx.prop_modules)
        if ctx.audit_result["bad"] or ctx.audit_result["scan"]:
            ctx.say("axiom audit:", ctx.audit_result["bad"], ctx.audit_result["scan"])
            raise Infra("axiom audit failed: a proof is not a proof")
        if os.environ.get("VERIF_CRUMB"):
            with open(os.environ["VERIF_CRUMB"] + ".audit", "w") as f:
                json.dump(ctx.audit_result, f)
        if tier == "thorough" and os.environ.get("VERIF_NO_LEANCHECKER") != "1":
            okc, outc = leanchecker(ctx.prop_modules)
            ctx.extra["leanchecker"] = "ok" if okc else outc
            if not okc:
                raise Infra("leanchecker rejected the property modules: " + outc)
    # 3. correspondence + oracle
    if ctx.import_error is None:
        try:
            import_armi()
        except Infra:
            raise
        except Exception as e:
            if getattr(module, "on_import_failure", None) is None:
                raise
            ctx.import_error = repr(e)
    if ctx.import_error is not None:
        found = list(module.on_import_failure(ctx, ctx.import_error) or [])
        if not found:
            raise Infra("armi does not import and the property's import-failure handler found no violation: " + ctx.import_error)
        ctx.failures.extend(found)
    else:
        module.run(ctx)
        source_tie(ctx, prop)
    # 4/5. verdict + evidence
    violations = decide(ctx, module)
    write_evidence(ctx, violations)
    nth = len(ctx.audit_result["theorems"]) if ctx.audit_result else 0
    ctx.say(f"{prop} {tier} seed={seed}: theorems={nth} evaluations={ctx.evaluations} "
            f"distinct={len(ctx.distinct)} disagreements={len(ctx.disagreements)} "
            f"oracle_failures={len(ctx.failures)} violations={violations} wall={time.time()-ctx.t0:.1f}s")
    return 1 if violations else 0
