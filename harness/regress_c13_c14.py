"""Regression over the saved seeded changes for C13 / C14.

For every /verif/seeded/_incoming*/C13-*/patch.diff and .../C14-*/patch.diff: apply the patch to a private copy of
/repo/armi, skip it when it no longer applies or when its own demo no longer fails on the patched current tree
(the defect it seeds was repaired or the code moved), otherwise run `./check Cxx quick` against the copy and report
exit code, wall time, and the key / kind of every VIOLATION. Usage: /venv/bin/python -m harness.regress_c13_c14 [filter]
"""
import glob
import json
import os
import shutil
import subprocess
import sys
import tempfile
import time

VERIF = os.path.dirname(os.path.dirname(os.path.abspath(__file__)))
REPO = "/repo"
PY = "/venv/bin/python"


def main(argv):
    pats = sorted(glob.glob(os.path.join(VERIF, "seeded", "_incoming*", "C13-*")) +
                  glob.glob(os.path.join(VERIF, "seeded", "_incoming*", "C14-*")))
    if argv:
        pats = [p for p in pats if any(a in p for a in argv)]
    rows = []
    for d in pats:
        name = os.path.relpath(d, os.path.join(VERIF, "seeded"))
        prop = os.path.basename(d).split("-")[0]
        patch = os.path.join(d, "patch.diff")
        if not os.path.exists(patch):
            rows.append((name, "no patch.diff", "", "", "")); continue
        tmp = tempfile.mkdtemp(prefix="regress-")
        try:
            shutil.copytree(os.path.join(REPO, "armi"), os.path.join(tmp, "armi"))
            dry = subprocess.run(["patch", "-p1", "--dry-run", "-s", "-i", patch], cwd=tmp, capture_output=True, text=True)
            if dry.returncode != 0:
                rows.append((name, "skipped: patch no longer applies", "", "", "")); print(rows[-1], flush=True); continue
            subprocess.run(["patch", "-p1", "-s", "-i", patch], cwd=tmp, check=True)
            demo = os.path.join(d, "demo.py")
            if os.path.exists(demo):
                env = dict(os.environ, PYTHONPATH=tmp, PYTHONDONTWRITEBYTECODE="1")
                try:
                    dr = subprocess.run([PY, demo], cwd=tmp, env=env, capture_output=True, text=True, timeout=600)
                    drc = dr.returncode
                except subprocess.TimeoutExpired:
                    drc = -1
                if drc == 0:
                    rows.append((name, "skipped: demo no longer fails on the patched current tree", "", "", ""))
                    print(rows[-1], flush=True); continue
            t0 = time.time()
            r = subprocess.run(["./check", prop, "quick"], cwd=VERIF, env=dict(os.environ, ARMI_REPO=tmp),
                               capture_output=True, text=True, timeout=3000)
            wall = time.time() - t0
            keys = []
            for line in r.stdout.split("\n"):
                if line.startswith("VIOLATION"):
                    rp = line.split("replay=")[1].split()[0]
                    full = os.path.join(VERIF, rp)
                    try:
                        e = json.load(open(full))
                        keys.append("%s (%s)" % (e.get("key") or "-", e.get("kind")))
                        os.remove(full)
                    except Exception as ex:  # noqa
                        keys.append("? %s" % ex)
            rows.append((name, "exit %d" % r.returncode, "%.0f s" % wall, "; ".join(keys),
                         "CAUGHT" if r.returncode == 1 and any("failing-input" in k and "no-failing" not in k for k in keys)
                         else ("caught (no concrete input)" if r.returncode == 1 else "MISSED" if r.returncode == 0 else "INFRA")))
            print(rows[-1], flush=True)
        finally:
            shutil.rmtree(tmp, ignore_errors=True)
    print("\n%-22s %-10s %-7s %-28s %s" % ("patch", "check", "wall", "verdict", "keys"))
    for n, ex, w, k, v in rows:
        print("%-22s %-10s %-7s %-28s %s" % (n, ex if ex.startswith("exit") else "-", w, v or ex, k))


if __name__ == "__main__":
    main(sys.argv[1:])
