"""Entry point: python -m harness.run Cxx quick|thorough|--replay file"""
import importlib
import os
import subprocess
import sys
import tempfile
import traceback

from harness import common


def main(argv):
    if not argv:
        print("usage: check Cxx quick|thorough | --replay <file>")
        return 2
    prop = argv[0].upper()
    if os.environ.get("VERIF_CHILD") != "1" and "--replay" not in argv:
        # run the check in a child so that a native crash of the code under test (abort/segfault inside
        # numpy/scipy/h5py caused by a broken implementation) becomes a verdict instead of a dead check
        fd, crumb = tempfile.mkstemp(prefix=f"verif-crumb-{prop}-")
        os.close(fd)
        env = dict(os.environ, VERIF_CHILD="1", VERIF_CRUMB=crumb)
        try:
            rc = subprocess.run([sys.executable, "-m", "harness.run"] + argv, env=env).returncode
            if rc in (0, 1, 2):
                return rc
            tier = argv[1] if len(argv) > 1 else os.environ.get("VERIF_TIER", "quick")
            seed = int(os.environ.get("VERIF_SEED", "0") or 0)
            print(f"check process for {prop} died with status {rc}")
            return common.report_native_crash(prop, tier if tier in ("quick", "thorough") else "quick", seed, rc, crumb)
        finally:
            for pth in (crumb, crumb + ".audit"):
                try:
                    os.remove(pth)
                except OSError:
                    pass
    try:
        module = importlib.import_module(f"harness.{prop.lower()}")
    except ModuleNotFoundError as e:
        print(f"no harness for {prop}: {e}")
        return 2
    try:
        return common.standard_main(prop, module, argv[1:])
    except common.Infra as e:
        print(f"INFRA-FAILURE {prop}: {e}")
        return 2
    except Exception:
        traceback.print_exc(file=sys.__stdout__)
        print(f"INFRA-FAILURE {prop}: unexpected exception in the harness")
        return 2


if __name__ == "__main__":
    sys.exit(main(sys.argv[1:]))
