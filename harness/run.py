"""Entry point: python -m harness.run Cxx quick|thorough|--replay file"""
import importlib
import sys
import traceback

from harness import common


def main(argv):
    if not argv:
        print("usage: check Cxx quick|thorough | --replay <file>")
        return 2
    prop = argv[0].upper()
    try:
        module = importlib.import_module(f"harness.{prop.lower()}")
    except ModuleNotFoundError as e:
        print(f"no harness for {prop}: {e}")
        return 2
    try:
        return common.standard_main(prop, module, argv[1:])
    except common.Infra as e:
        print(f"INFRA-FAILURE {prop}: {e}")
        return 2
    except Exception:
        traceback.print_exc(file=sys.__stdout__)
        print(f"INFRA-FAILURE {prop}: unexpected exception in the harness")
        return 2


if __name__ == "__main__":
    sys.exit(main(sys.argv[1:]))
