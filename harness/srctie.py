"""Source-translation tie (DESIGN.md "Source-translation tie").

`run(ctx, prop_id)` is called by common.run_check after the property module's own run(ctx), in the same
process and evidence.  It

 1. re-translates the CURRENT source text of $ARMI_REPO with tools/py2lean.py into lean/ArmiVerif/Gen/Src.lean
    (content-addressed; no armi import needed),
 2. builds the tie modules of this property (lean/ArmiVerif/Props/SrcTie/*.lean): `Eq*` = translated
    definition equals the hand model definition for ALL inputs, `Cor*` = the property theorems restated
    directly over the translated definitions; audits their axioms,
 3. validates the translator itself: generated Lean definition (Drivers/Src.lean) vs the real Python
    function imported from $ARMI_REPO on the same inputs (exhaustive small domain + seeded random
    magnitudes up to 2^62 + boundaries of the literals of the source).  A difference is a TRANSLATOR bug
    = infrastructure failure (exit 2), never a verdict about armi,
 4. decides per function:
      (a) translated, equivalence + corollaries check      -> "proved"
      (b) untranslatable (left the documented subset)       -> "not established (untranslatable ...)": no alarm,
                                                               the property's correspondence check remains the tie
      (c) translated but a theorem no longer checks          -> extended failing-input search on the REAL code
          (property clauses on all cells to ring >= 300, magnitudes to 2^62, +-1 around every literal of the
          new source; real code vs hand model on the same inputs).  A failing clause -> ctx.fail (VIOLATION
          with the input).  Nothing failing -> NOTE + evidence, falling back to the correspondence; with
          VERIF_SRCTIE_STRICT=1 reported through the broken-obligation path (no-failing-input-found).
"""
from __future__ import annotations

import ast
import importlib
import inspect
import itertools
import os
import random
import re
import subprocess
import sys
import time
import types

from harness import common
from harness.common import Infra, LEAN, VERIF

sys.path.insert(0, os.path.join(VERIF, "tools"))
import py2lean  # noqa: E402

H, G, C, T = "armi/reactor/grids/hexagonal.py::HexGrid.", "armi/utils/hexagon.py::", \
    "armi/reactor/grids/cartesian.py::CartesianGrid.", "armi/reactor/grids/thetarz.py::ThetaRZGrid."
U, N, X = "armi/utils/__init__.py::", "armi/nucDirectory/nuclideBases.py::NuclideBase.", \
    "armi/physics/neutronics/crossSectionGroupManager.py::"
CC, DB = "armi/nuclearDataIO/cccc/cccc.py::", "armi/bookkeeping/db/database.py::"
M = "ArmiVerif.Props.SrcTie."

# function key -> (equivalence module, imports of other Eq modules it needs)
EQ = {
    G + "numPositionsInRing": (M + "EqNumPositionsInRing", []),
    G + "totalPositionsUpToRing": (M + "EqTotalPositionsUpToRing", []),
    H + "getPositionsInRing": (M + "EqGetPositionsInRing", []),
    H + "indicesToRingPos": (M + "EqIndicesToRingPos", []),
    H + "getRingPos": (M + "EqGetRingPos", []),
    H + "_indicesAndEdgeFromRingAndPos": (M + "EqIndicesAndEdge", []),
    H + "getIndicesFromRingAndPos": (M + "EqGetIndicesFromRingAndPos", []),
    H + "getNeighboringCellIndices": (M + "EqNeighbours", []),
    H + "overlapsWhichSymmetryLine": (M + "EqOverlapsWhichSymmetryLine", []),
    H + "_getSymmetricIdenticalsThird": (M + "EqSymmetricIdenticalsThird", []),
    H + "isInFirstThird": (M + "EqIsInFirstThird", [M + "EqIndicesToRingPos"]),
    H + "rotateIndex": (M + "EqRotateIndex", []),
    T + "getRingPos": (M + "EqTrzRingPos", []),
    T + "getIndicesFromRingAndPos": (M + "EqTrzIndices", []),
    C + "getPositionsInRing": (M + "EqCartPositionsInRing", []),
    C + "getRingPos": (M + "EqCartRingPos", []),
    U + "getNodesPerCycle": (M + "EqNodesPerCycle", []),
    U + "getCumulativeNodeNum": (M + "EqCumulativeNode", []),
    U + "getPreviousTimeNode": (M + "EqPreviousTimeNode", []),
    U + "getCycleNodeFromCumulativeNode": (M + "EqCycleNodeFromCumulativeNode", [M + "EqNodesPerCycle"]),
    U + "getCycleNodeFromCumulativeStep": (M + "EqCycleNodeFromCumulativeStep", []),
    X + "getXSTypeNumberFromLabel": (M + "EqXsNumberFromLabel", []),
    X + "getXSTypeLabelFromNumber": (M + "EqXsLabelFromNumber", []),
    CC + "getBlockBandwidth": (M + "EqBlockBandwidth", []),
    DB + "getH5GroupName": (M + "EqH5GroupName", []),
    N + "getMcnpId": (M + "EqMcnpId", []),
    N + "getAAAZZZSId": (M + "EqAaazzzsId", []),
}
# "small strings": the format template (data) the equivalence theorem's reading of the integer tuple relies on
EXPECT_FMT = {N + "getMcnpId": "{0:d}{1:03d}", N + "getAAAZZZSId": "{0}{1:>03d}{2}"}
# (documentation) functions with no equivalence theorem: today outside the subset (outcome (b) on the unchanged tree)
NO_EQ = {
    G + "numRingsToHoldNumCells", G + "getIndexOfRotatedCell", H + "getMinimumRings",
    C + "getMinimumRings",
    N + "_createLabel",
}
# corollary module -> functions whose equivalence it uses
COR = {
    M + "CorHexRingPos": [H + "indicesToRingPos", H + "getIndicesFromRingAndPos", G + "numPositionsInRing"],
    M + "CorHexTotal": [G + "totalPositionsUpToRing", G + "numPositionsInRing", H + "getPositionsInRing"],
    M + "CorHexNeighbours": [H + "getNeighboringCellIndices"],
    M + "CorTrz": [T + "getRingPos", T + "getIndicesFromRingAndPos"],
    M + "CorCartRing": [C + "getPositionsInRing"],
    M + "CorCartRingPos": [C + "getRingPos", C + "getPositionsInRing"],
    M + "CorHexSym": [H + "_getSymmetricIdenticalsThird", H + "overlapsWhichSymmetryLine", H + "isInFirstThird"],
    M + "CorHexRotate": [H + "rotateIndex"],
    M + "CorNodes": [U + "getCumulativeNodeNum", U + "getPreviousTimeNode"],
    M + "CorNodesInverse": [U + "getCumulativeNodeNum", U + "getCycleNodeFromCumulativeNode", U + "getCycleNodeFromCumulativeStep"],
    M + "CorMcnpId": [N + "getMcnpId"],
    M + "CorBlockBandwidth": [CC + "getBlockBandwidth"],
    M + "CorH5GroupName": [DB + "getH5GroupName"],
    M + "CorXsLabels": [X + "getXSTypeNumberFromLabel", X + "getXSTypeLabelFromNumber"],
}
# property -> functions tied / corollary modules
TIES = {
    "C07": {"functions": [G + "numPositionsInRing", G + "totalPositionsUpToRing", G + "numRingsToHoldNumCells",
                          H + "getPositionsInRing", H + "getMinimumRings", H + "indicesToRingPos", H + "getRingPos",
                          H + "_indicesAndEdgeFromRingAndPos", H + "getIndicesFromRingAndPos",
                          H + "getNeighboringCellIndices", T + "getRingPos", T + "getIndicesFromRingAndPos",
                          C + "getPositionsInRing", C + "getRingPos", C + "getMinimumRings"],
            "corollaries": [M + "CorHexRingPos", M + "CorHexTotal", M + "CorHexNeighbours", M + "CorTrz", M + "CorCartRing", M + "CorCartRingPos"]},
    "C08": {"functions": [H + "_getSymmetricIdenticalsThird", H + "overlapsWhichSymmetryLine", H + "isInFirstThird",
                          H + "indicesToRingPos", H + "rotateIndex", G + "getIndexOfRotatedCell"],
            "corollaries": [M + "CorHexSym", M + "CorHexRotate"]},
    "C14": {"functions": ["armi/reactor/spentFuelPool.py::SpentFuelPool._getNextLocation"], "corollaries": []},
    "C09": {"functions": [CC + "getBlockBandwidth"], "corollaries": [M + "CorBlockBandwidth"]},
    "C04": {"functions": [DB + "getH5GroupName"], "corollaries": [M + "CorH5GroupName"]},
    "C06": {"functions": [DB + "getH5GroupName"], "corollaries": [M + "CorH5GroupName"]},
    "C15": {"functions": [U + "getNodesPerCycle", U + "getCumulativeNodeNum", U + "getPreviousTimeNode",
                          U + "getCycleNodeFromCumulativeNode", U + "getCycleNodeFromCumulativeStep"],
            "corollaries": [M + "CorNodes", M + "CorNodesInverse"]},
    "C19": {"functions": [N + "getMcnpId", N + "getAAAZZZSId", N + "_createLabel"], "corollaries": [M + "CorMcnpId"]},
    "C20": {"functions": [X + "getXSTypeNumberFromLabel", X + "getXSTypeLabelFromNumber"], "corollaries": [M + "CorXsLabels"]},
}
GEN_MODULE = "ArmiVerif.Gen.Src"


def say(ctx, *a):
    ctx.say("srctie:", *a)


# ------------------------------------------------------------------------------------------ real Python side
class _Fake:
    """stand-in for `self` / an object parameter: only the bound attributes exist; methods of the class are
    reachable (so that `self.otherMethod(...)` runs the real code)"""

    def __init__(self, cls, attrs):
        self.__dict__["_cls"] = cls
        self.__dict__.update(attrs)

    def __getattr__(self, name):
        cls = self.__dict__["_cls"]
        if cls is None:
            raise AttributeError(name)
        raw = inspect.getattr_static(cls, name)
        if isinstance(raw, staticmethod):
            return raw.__func__
        if isinstance(raw, classmethod):
            return types.MethodType(raw.__func__, cls)
        if inspect.isfunction(raw):
            return types.MethodType(raw, self)
        if isinstance(raw, property):
            raise AttributeError(f"fake self: property {name} is not a bound attribute")
        return raw


def _modname(rel):
    parts = rel[:-3].split("/")
    if parts[-1] == "__init__":
        parts = parts[:-1]
    return ".".join(parts)


def canon(v, t):
    """canonical line of a Python value of static type t (as PyShow does); raises on a shape mismatch"""
    k = t[0]
    if k == "int":
        if type(v) is not int:
            raise TypeError(f"int expected, got {type(v).__name__} {v!r}")
        return str(v)
    if k == "bool":
        if type(v) is not bool:
            raise TypeError(f"bool expected, got {type(v).__name__} {v!r}")
        return "T" if v else "F"
    if k == "str":
        if type(v) is not str:
            raise TypeError(f"str expected, got {type(v).__name__} {v!r}")
        return "[" + ",".join(str(ord(c)) for c in v) + "]"
    if k == "tuple":
        if not isinstance(v, tuple) or len(v) != len(t[1]):
            raise TypeError(f"{len(t[1])}-tuple expected, got {v!r}")
        parts = [canon(x, tt) for x, tt in zip(v, t[1])]
        s = parts[-1]
        for p in reversed(parts[:-1]):
            s = f"({p},{s})"
        return s
    if k == "list":
        if not isinstance(v, list):
            raise TypeError(f"list expected, got {v!r}")
        return "[" + ",".join(canon(x, t[1]) for x in v) + "]"
    if k == "opt":
        return "None" if v is None else canon(v, t[1])
    raise TypeError(str(t))


class _Timeout(Exception):
    pass


def guarded(fn, seconds=2.0):
    """run fn() with a wall-clock guard (main thread only); raises _Timeout"""
    import signal

    def onalarm(signum, frame):
        raise _Timeout()
    try:
        old = signal.signal(signal.SIGALRM, onalarm)
    except ValueError:      # not in the main thread: no guard
        return fn()
    signal.setitimer(signal.ITIMER_REAL, seconds)
    try:
        return fn()
    finally:
        signal.setitimer(signal.ITIMER_REAL, 0)
        signal.signal(signal.SIGALRM, old)


def _rotate_raw(flat):
    """HexGrid.rotateIndex on real objects: a real grid, a real IndexLocation (grid None = consistent; a Cartesian grid =
    inconsistent -> TypeError)"""
    from armi.reactor import grids
    rot, cons, i, j, k = flat
    hg = _rotate_raw.hg = getattr(_rotate_raw, "hg", None) or grids.HexGrid.fromPitch(1.0, numRings=0)
    other = _rotate_raw.other = getattr(_rotate_raw, "other", None) or grids.CartesianGrid.fromRectangle(1.0, 1.0)
    r = hg.rotateIndex(grids.IndexLocation(i, j, k, None if cons else other), rot)
    return (r.i, r.j, r.k)


CUSTOM_RAW = {"armi/reactor/grids/hexagonal.py::HexGrid.rotateIndex": _rotate_raw}


class PyFn:
    """the real Python function behind a translated definition, callable on flat integer arguments"""

    def __init__(self, res, target):
        self.res, self.key = res, res["key"]
        mod = importlib.import_module(_modname(res["file"]))
        parts = res["qual"].split(".")
        self.cls = getattr(mod, parts[0]) if len(parts) == 2 else None
        self.kind = res["kind"]
        if self.cls is not None:
            raw = inspect.getattr_static(self.cls, parts[1])
            self.func = raw.__func__ if isinstance(raw, (staticmethod, classmethod)) else raw
        else:
            self.func = getattr(mod, parts[0])
        self.binds = []
        for src, (pname, t) in ({} if self.key in CUSTOM_RAW else target.binds).items():
            node = ast.parse(src, mode="eval").body
            is_call = isinstance(node, ast.Call)
            if is_call and isinstance(node.func, ast.Name) and all(isinstance(a, ast.Name) for a in node.args):
                # a module-level function applied to object parameters, e.g. getBurnSteps(cs): patched while calling
                self.binds.append((pname, None, node.func.id, [a.id for a in node.args]))
                continue
            if is_call:
                node = node.func
            if not (isinstance(node, ast.Attribute) and isinstance(node.value, ast.Name)):
                raise Infra(f"srctie: unsupported bind expression {src}")
            self.binds.append((pname, node.value.id, node.attr, is_call))
        self.mod = mod
        sig = list(inspect.signature(self.func).parameters)
        self.selfname = sig[0] if self.kind in ("method", "classmethod") else None
        self.slots = sum(py2lean.flat_slots(t) for _, t in res["params"])

    def unflatten(self, flat):
        vals, n = {}, 0
        for pn, t in self.res["params"]:
            if t == py2lean.INT:
                vals[pn] = flat[n]; n += 1
            elif t == py2lean.BOOL:
                vals[pn] = bool(flat[n]); n += 1
            elif t == py2lean.LIST(py2lean.INT):
                vals[pn] = list(flat[n]); n += 1
            elif t == py2lean.STR:
                vals[pn] = "".join(chr(c) for c in flat[n]); n += 1
            else:
                k = len(t[1])
                vals[pn] = tuple(bool(x) if tt == py2lean.BOOL else x for x, tt in zip(flat[n:n + k], t[1])); n += k
        return vals

    def raw(self, flat):
        """the Python return value (exceptions propagate)"""
        if self.key in CUSTOM_RAW:
            return CUSTOM_RAW[self.key](list(flat))
        vals = self.unflatten(flat)
        objs, patches = {}, []
        for pname, root, attr, is_call in self.binds:
            v = vals.pop(pname)
            if root is None:
                patches.append((attr, (lambda *a, v=v, **k: list(v) if isinstance(v, list) else v)))
                for r in is_call:
                    objs.setdefault(r, {})
                continue
            objs.setdefault(root, {})[attr] = (lambda v=v: v) if is_call else v
        kwargs = dict(vals)
        args = []
        for root, attrs in objs.items():
            if root == self.selfname:
                continue
            kwargs[root] = _Fake(None, attrs)
        if self.kind == "method":
            args.append(_Fake(self.cls, objs.get(self.selfname, {})))
        elif self.kind == "classmethod":
            args.append(self.cls)
        saved = [(name, getattr(self.mod, name)) for name, _ in patches]
        try:
            for name, f in patches:
                setattr(self.mod, name, f)
            return self.func(*args, **kwargs)
        finally:
            for name, f in saved:
                setattr(self.mod, name, f)

    def line(self, flat):
        try:
            v = self.raw(flat)
        except Exception:
            return "reject"
        if self.res.get("strfmt"):
            if not isinstance(v, str):
                raise TypeError(f"str expected, got {v!r}")
            return "str:" + v
        return canon(v, self.res["ret"])

    def lean_view(self, line):
        """the generated definition's answer in the form `line` gives for the real function"""
        if self.res.get("strfmt") and line not in ("reject", "bad-op"):
            ints = [int(x) for x in re.findall(r"-?\d+", line)]
            return "str:" + self.res["strfmt"].format(*ints)
        return line


class Direct:
    """a real armi function called on real objects (used by the property clauses of the extended search / replay)"""

    def __init__(self, fn):
        self.fn = fn

    def raw(self, flat):
        return self.fn(*flat)


def direct_fns():
    """short name -> the real function, called through real grid objects (independent of the translator)"""
    from armi.reactor import grids
    from armi.utils import hexagon

    hg = grids.HexGrid.fromPitch(1.0, numRings=0)
    cgs = {0: grids.CartesianGrid.fromRectangle(1.0, 1.0, isOffset=True), 1: grids.CartesianGrid.fromRectangle(1.0, 1.0, isOffset=False)}
    tg = grids.ThetaRZGrid(bounds=([0, 1.0], [0, 1.0, 2.0], [0, 1.0]))
    NS = types.SimpleNamespace
    D = {
        "indicesToRingPos": lambda i, j: hg.indicesToRingPos(i, j),
        "getRingPos": lambda i, j, k: hg.getRingPos((i, j, k)),
        "getIndicesFromRingAndPos": lambda r, p: hg.getIndicesFromRingAndPos(r, p),
        "_indicesAndEdgeFromRingAndPos": lambda r, p: hg._indicesAndEdgeFromRingAndPos(r, p),
        "numPositionsInRing": lambda r: hexagon.numPositionsInRing(r),
        "getPositionsInRing": lambda r: hg.getPositionsInRing(r),
        "totalPositionsUpToRing": lambda r: hexagon.totalPositionsUpToRing(r),
        "getNeighboringCellIndices": lambda i, j, k: hg.getNeighboringCellIndices(i, j, k),
        "overlapsWhichSymmetryLine": lambda i, j: hg.overlapsWhichSymmetryLine((i, j)),
        "_getSymmetricIdenticalsThird": lambda i, j, k: hg._getSymmetricIdenticalsThird((i, j, k)),
        "isInFirstThird": lambda top, i, j, k: hg.isInFirstThird(NS(indices=(i, j, k)), includeTopEdge=bool(top)),
        "rotateIndex": lambda rot, i, j, k: _rotate_raw([rot, 1, i, j, k]),
        "trzGetRingPos": lambda i, j, k: tg.getRingPos((i, j, k)),
        "trzGetIndicesFromRingAndPos": lambda r, p: tg.getIndicesFromRingAndPos(r, p),
        "cartGetPositionsInRing": lambda r, t: cgs[1 if t else 0].getPositionsInRing(r),
        "cartGetRingPos": lambda i, j, t: cgs[1 if t else 0].getRingPos((i, j, 0)),
    }
    from armi import utils as autils

    def with_steps(fn):
        def call(bs, *a):
            saved = autils.getBurnSteps
            autils.getBurnSteps = lambda cs: list(bs)
            try:
                return fn(*a, None)
            finally:
                autils.getBurnSteps = saved
        return call

    D["getCumulativeNodeNum"] = with_steps(lambda c, n, cs: autils.getCumulativeNodeNum(c, n, cs))
    D["getPreviousTimeNode"] = with_steps(lambda c, n, cs: autils.getPreviousTimeNode(c, n, cs))
    D["getCycleNodeFromCumulativeNode"] = with_steps(lambda k, cs: autils.getCycleNodeFromCumulativeNode(k, cs))
    D["getNodesPerCycle"] = with_steps(lambda cs: autils.getNodesPerCycle(cs))
    D["getCycleNodeFromCumulativeStep"] = with_steps(lambda t, cs: autils.getCycleNodeFromCumulativeStep(t, cs))
    from armi.nucDirectory import nuclideBases as nb
    from armi.physics.neutronics import crossSectionGroupManager as xsgm
    from armi.nuclearDataIO.cccc import cccc as ccccmod
    from armi.bookkeeping.db import database as dbmod

    D["getBlockBandwidth"] = lambda m, nintj, nblok: ccccmod.getBlockBandwidth(m, nintj, nblok)
    D["getH5GroupName"] = lambda c, n, label: dbmod.getH5GroupName(c, n, label)

    D["getXSTypeNumberFromLabel"] = lambda label: xsgm.getXSTypeNumberFromLabel(label)
    D["getXSTypeLabelFromNumber"] = lambda n: xsgm.getXSTypeLabelFromNumber(n)

    D["getMcnpId"] = lambda z, a, st: nb.NuclideBase.getMcnpId(NS(z=z, a=a, state=st))
    D["getAAAZZZSId"] = lambda z, a, st: nb.NuclideBase.getAAAZZZSId(NS(z=z, a=a, state=st))
    return {k: Direct(v) for k, v in D.items()}


# ------------------------------------------------------------------------------------------ inputs
LOOP_INT_BOUND = 300      # integer arguments of functions that contain (or call) a loop: the loop may run that often


def _big(rng, loop=False):
    if loop == "half":      # float code carried as exact half-integers: inputs below 2^45, so that every intermediate
        b = rng.randint(1, 45)  # (small integer multiples, sums) stays below 2^52 where doubles hold half-integers exactly
        v = rng.randint(0, (1 << b))
        return v if rng.random() < 0.5 else -v
    if loop:
        return rng.randint(-LOOP_INT_BOUND, LOOP_INT_BOUND)
    b = rng.randint(1, 62)
    v = rng.randint(0, (1 << b))
    return v if rng.random() < 0.5 else -v


def req_line(name, flat):
    return name + "".join(" [" + ",".join(str(int(y)) for y in x) + "]" if isinstance(x, (list, tuple)) else f" {int(x)}" for x in flat)


def extra_inputs(key):
    """inputs of the property's own domain that the generic generator would not hit"""
    if key == X + "getXSTypeLabelFromNumber":
        letters = [ord(c) for c in "ABCDEFGHIJKLMNOPQRSTUVWXYZabcdefghijklmnopqrstuvwxyz"]
        nums = [int(f"{a:02d}{b:02d}") for a in letters for b in letters]
        return [(n,) for n in list(range(0, 1300)) + nums + [12312, 99999, 100000, 1231230, 6512345]]
    return []


def gen_inputs(res, rng, quick=True, loop=False):
    """exhaustive small domain + seeded random magnitudes to 2^62 + +-1 around the literals of the source;
    a list parameter is one slot holding a tuple of ints"""
    kinds = []
    for _, t in res["params"]:
        kinds += [t] if t[0] != "tuple" else list(t[1])
    n = len(kinds)
    LST = py2lean.LIST(py2lean.INT)
    lits = sorted(set(res["literals"]) | {0, 1})
    near = sorted({l + d for l in lits for d in (-1, 0, 1)})

    def small_list():
        return tuple(rng.choice((0, 1, 2, 3, 5, rng.randint(-2, 9))) for _ in range(rng.randint(0, 5)))

    ADM = [ord(c) for c in "ABCDEFGHIJKLMNOPQRSTUVWXYZabcdefghijklmnopqrstuvwxyz"]
    ODD = [ord(c) for c in "09 _-{@[`"] + [1, 7, 200, 1000, 65536, 1114111]

    def small_str():
        r = rng.random()
        if r < 0.5:
            return tuple(rng.choice(ADM) for _ in range(rng.randint(1, 2)))
        return tuple(rng.choice(ADM + ODD) for _ in range(rng.randint(0, 4)))

    def slot(k, mode):
        if k == py2lean.BOOL:
            return rng.randint(0, 1)
        if k == py2lean.STR:
            return small_str()
        if k == LST:
            return small_list() if mode != "big" or rng.random() < 0.5 else tuple(abs(_big(rng)) for _ in range(rng.randint(1, 4)))   # list ELEMENTS may be huge: they are never iteration counts here... unless the source says so (timeouts below)
        if mode == "big":
            return _big(rng, loop)
        if mode == "near":
            v = rng.choice(near) if rng.random() < 0.6 else rng.randint(-30, 30)
            return max(-LOOP_INT_BOUND, min(LOOP_INT_BOUND, v)) if loop is True else v
        return rng.randint(-3, 3)

    out = []
    if py2lean.STR in kinds:
        # every admissible one- and two-character label (the property's domain) x small ints for the other slots
        labels = [()] + [(a,) for a in ADM + ODD] + [(a, b) for a in ADM for b in ADM]
        doms = [labels if k == py2lean.STR else ((0, 1) if k == py2lean.BOOL else range(-1, 3)) for k in kinds]
        out = list(itertools.product(*doms))
        if len(out) > 8000:
            out = rng.sample(out, 8000)
    elif LST not in kinds:
        nint = sum(1 for k in kinds if k == py2lean.INT)
        span = {0: 0, 1: 40, 2: 12, 3: 5, 4: 3}.get(nint, 2)
        doms = [(0, 1) if k == py2lean.BOOL else range(-span, span + 1) for k in kinds]
        out = list(itertools.product(*doms))
    else:
        # every list over {0..2} of length <= 3 x small ints for the other slots
        lists = [()] + [tuple(c) for ln in (1, 2, 3) for c in itertools.product((0, 1, 2), repeat=ln)]
        doms = [lists if k == LST else ((0, 1) if k == py2lean.BOOL else range(-2, 6)) for k in kinds]
        out = list(itertools.product(*doms))
        if len(out) > 6000:
            out = rng.sample(out, 6000)
    for _ in range(250 if quick else 2000):
        out.append(tuple(slot(k, "big") for k in kinds))
    for _ in range(150 if quick else 1000):
        out.append(tuple(slot(k, "near") for k in kinds))
    for _ in range(100 if quick else 500):
        j = rng.randrange(n) if n else 0
        out.append(tuple(slot(k, "big" if i == j else "small") for i, k in enumerate(kinds)))
    return out


# ------------------------------------------------------------------------------------------ lean side
def _lean_lines(driver, lines, timeout=1800):
    return common.lean_run(driver, lines, timeout=timeout)


def blocked_by(m, failed_set):
    """the failing module that keeps module m from being checked (m itself, or something it imports), or None"""
    if m in failed_set:
        return m
    for k, (mm, deps) in EQ.items():
        if mm == m:
            for d in deps:
                b = blocked_by(d, failed_set)
                if b:
                    return b
    if m in COR:
        for f in COR[m]:
            b = blocked_by(EQ[f][0], failed_set)
            if b:
                return b
    return None


def build_and_validate(ctx, text, modules, fns):
    """under ONE hold of the lake lock (other checks may regenerate Gen/Src.lean from another $ARMI_REPO): write
    Gen/Src.lean if changed, build Gen.Src + the tie modules, run the generated definitions on the validation
    inputs, audit the axioms of the modules that built."""
    cmd = ["lake", "build", GEN_MODULE] + sorted(modules)
    reqs = []
    for pf, inputs in fns:
        reqs += [req_line(pf.res["lean_name"], flat) for flat in inputs]
    with common.lake_lock():
        changed = py2lean.write_if_changed(py2lean.GEN_PATH, text)
        if changed:
            ctx.count("source-tie: regenerated Gen/Src.lean (content changed)")
        try:
            p = subprocess.run(cmd, cwd=LEAN, capture_output=True, text=True, timeout=900)
        except subprocess.TimeoutExpired:
            raise Infra("srctie: lake build of the source-tie modules timed out (900 s)")
        out = p.stdout + p.stderr
        failed = re.findall(r"^- (ArmiVerif\.\S+)", out, flags=re.M)
        if p.returncode != 0 and not failed:
            say(ctx, out[-3000:])
            raise Infra("srctie: lake build failed without naming a module")
        if GEN_MODULE in failed or "ArmiVerif.Model.PyInt" in failed:
            say(ctx, out[-3000:])
            raise Infra("srctie: the generated module Gen/Src.lean does not compile (translator bug)")
        foreign = [m for m in failed if not m.startswith(M)]
        if foreign:
            say(ctx, out[-3000:])
            raise Infra(f"srctie: lake build failed in modules that are not source-tie modules: {foreign}")
        try:
            lines = common.lean_run("Src", reqs, timeout=150) if reqs else []
        except subprocess.TimeoutExpired:
            raise Infra("srctie: the generated definitions did not answer the validation inputs within 150 s "
                        "(a translated loop runs too long on the bounded inputs); no verdict")
        okmods = [m for m in sorted(modules) if not blocked_by(m, set(failed))]
        ar = {"theorems": [], "bad": [], "scan": []}
        if okmods:
            ar = common.audit(okmods)
    return out, failed, lines, changed, okmods, ar


def failing_theorems(out, module):
    """names of the theorems of `module` at which the build reported an error"""
    path = os.path.join(LEAN, *module.split(".")) + ".lean"
    rel = os.path.relpath(path, LEAN)
    lines = [int(m.group(1)) for m in re.finditer(r"error: " + re.escape(rel) + r":(\d+):\d+", out)]
    try:
        src = open(path).read().split("\n")
    except OSError:
        return []
    names = []
    for ln in lines:
        for k in range(min(ln, len(src)) - 1, -1, -1):
            m = re.match(r"\s*theorem\s+(\S+)", src[k])
            if m:
                if m.group(1) not in names:
                    names.append(m.group(1))
                break
    return names


# ------------------------------------------------------------------------------------------ property clauses (real code)
def hexdist(i, j):
    return max(abs(i), abs(j), abs(i + j))


def _coef(i, j):        # flats up: x = a*(sqrt3/2)p, y = b*p/2
    return (i, i + 2 * j)


def _r60x2(a, b):       # twice the rotation by +60 degrees on the coefficient vector
    return (a - b, 3 * a + b)


class Clauses:
    """the property's clauses evaluated on the real Python functions (independent of any model)"""

    def __init__(self, P):
        self.P = P            # short name -> PyFn

    def call(self, name, *flat):
        return self.P[name].raw(list(flat))

    # ---- C07 hex ring/pos
    def cell(self, i, j):
        out = []
        try:
            rp = self.call("indicesToRingPos", i, j)
            ring, pos = rp
        except Exception as e:
            return [("srctie-hex-ringpos-total", "indicesToRingPos is defined for every cell", {"i": i, "j": j}, repr(e), None)]
        d = hexdist(i, j) + 1
        if ring != d:
            out.append(("srctie-hex-ring-is-distance", "ring == hex distance from the centre + 1", {"i": i, "j": j}, ring, d))
        if "numPositionsInRing" in self.P:
            try:
                npos = self.call("numPositionsInRing", ring)
                if not 1 <= pos <= npos:
                    out.append(("srctie-hex-pos-range", "1 <= pos <= numPositionsInRing(ring)", {"i": i, "j": j}, [ring, pos], npos))
            except Exception:
                pass
        if "getIndicesFromRingAndPos" in self.P:
            try:
                ij = self.call("getIndicesFromRingAndPos", ring, pos)
            except Exception as e:
                ij = repr(e)
            if ij != (i, j):
                out.append(("srctie-hex-ringpos-left-inverse", "getIndicesFromRingAndPos(*indicesToRingPos(i,j)) == (i,j)",
                            {"i": i, "j": j}, ij, [i, j]))
        return out

    def ringpos(self, r, p):
        """valid (ring, pos) -> cell -> same (ring, pos)"""
        if r < 1 or p < 1 or p > (6 * (r - 1) if r > 1 else 1):
            return []
        try:
            ij = self.call("getIndicesFromRingAndPos", r, p)
            back = self.call("indicesToRingPos", *ij) if "indicesToRingPos" in self.P else (r, p)
        except Exception as e:
            return [("srctie-hex-ringpos-right-inverse", "every (ring,pos) of the valid range is accepted", {"ring": r, "pos": p}, repr(e), None)]
        out = []
        if tuple(back) != (r, p):
            out.append(("srctie-hex-ringpos-right-inverse", "indicesToRingPos(*getIndicesFromRingAndPos(r,p)) == (r,p)",
                        {"ring": r, "pos": p}, list(back), [r, p]))
        if hexdist(*ij) + 1 != r:
            out.append(("srctie-hex-ring-is-distance", "cell of (ring,pos) lies at hex distance ring-1", {"ring": r, "pos": p}, list(ij), None))
        return out

    def ringsize(self, r, fn="numPositionsInRing"):
        out = []
        if r < 1:
            return out
        v = self.call(fn, r)
        want = 6 * (r - 1) if r > 1 else 1
        if v != want:
            out.append(("srctie-hex-ring-size", f"{fn}(r) == 6(r-1) for r > 1, 1 for r = 1", {"ring": r, "fn": fn}, v, want))
        return out

    def total(self, r):
        if r < 1:
            return []
        v = self.call("totalPositionsUpToRing", r)
        want = 1 + 3 * r * (r - 1)      # = 1 + sum_{k=2..r} 6(k-1): the number of cells within hex distance r-1
        return [] if v == want else [("srctie-hex-total", "totalPositionsUpToRing(r) == number of cells in rings 1..r",
                                      {"ring": r}, v, want)]

    def neighbours(self, i, j, k):
        nb = self.call("getNeighboringCellIndices", i, j, k)
        out = []
        case = {"i": i, "j": j, "k": k}
        if len(nb) != 6 or any(len(t) != 3 or t[2] != k for t in nb):
            return [("srctie-hex-neighbour-shape", "six neighbours in the same plane", case, nb, None)]
        vec = []
        for (a, b, _k) in nb:
            ca, cb = _coef(a, b)
            c0, c1 = _coef(i, j)
            da, db = ca - c0, cb - c1
            vec.append((da, db))
            if 3 * da * da + db * db != 4:
                out.append(("srctie-hex-neighbour-distance", "listed neighbour lies one pitch away", case, [a, b], None))
        for m in range(6):
            u, v = vec[m], vec[(m + 1) % 6]
            if not (u[0] * v[1] - u[1] * v[0] > 0 and 2 * (3 * u[0] * v[0] + u[1] * v[1]) == 4):
                out.append(("srctie-hex-neighbour-ccw", "consecutive neighbours are 60 degrees apart counter-clockwise", case, nb, None))
                break
        if vec and vec[0] != (1, 1):
            out.append(("srctie-hex-neighbour-start", "first neighbour in the 30 degree (flats up) direction", case, nb[0], None))
        return out

    def trz(self, i, j, k):
        out = []
        rp = self.call("trzGetRingPos", i, j, k)
        ij = self.call("trzGetIndicesFromRingAndPos", *rp)
        if tuple(ij) != (i, j):
            out.append(("srctie-trz-roundtrip", "getIndicesFromRingAndPos(*getRingPos(i,j,k)) == (i,j)", {"i": i, "j": j, "k": k}, ij, [i, j]))
        rp2 = self.call("trzGetRingPos", *(tuple(self.call("trzGetIndicesFromRingAndPos", i, j)) + (k,)))
        if tuple(rp2) != (i, j):
            out.append(("srctie-trz-roundtrip", "getRingPos(getIndicesFromRingAndPos(r,p)) == (r,p)", {"ring": i, "pos": j}, rp2, [i, j]))
        return out

    def cart_cell(self, i, j, through):
        """ring = Chebyshev distance of the cell centre from the grid centre + 1; pos within the ring's range; the
        numbering is injective on each ring (checked through the square-spiral order: neighbours along the ring differ by 1)"""
        out, case = [], {"i": i, "j": j, "throughCenter": bool(through)}
        ring, pos = self.call("cartGetRingPos", i, j, through)
        if through:
            want = max(abs(i), abs(j)) + 1
        else:
            want = max(abs(2 * i + 1), abs(2 * j + 1)) // 2 + 1
        if ring != want:
            out.append(("srctie-cart-ring-is-distance", "ring == Chebyshev distance from the grid centre + 1", case, ring, want))
        npos = self.call("cartGetPositionsInRing", ring, through)
        if not 1 <= pos <= npos:
            out.append(("srctie-cart-pos-range", "1 <= pos <= getPositionsInRing(ring)", case, [ring, pos], npos))
        return out

    def cart_ring_bijection(self, r, through):
        """the cells at Chebyshev distance r-1 from the grid centre are exactly ring r, numbered 1..getPositionsInRing(r)
        without repetition"""
        lo, hi = (-(r - 1), r - 1) if through else (-r, r - 1)
        cells = {(i, lo) for i in range(lo, hi + 1)} | {(i, hi) for i in range(lo, hi + 1)} \
            | {(lo, j) for j in range(lo, hi + 1)} | {(hi, j) for j in range(lo, hi + 1)}
        rps = [self.call("cartGetRingPos", i, j, through) for (i, j) in sorted(cells)]
        case = {"ring": r, "throughCenter": bool(through)}
        bad = [list(rp) for rp in rps if rp[0] != r]
        if bad:
            return [("srctie-cart-ring-numbering", "a cell at Chebyshev distance r-1 from the grid centre is in ring r", case, bad[:4], r)]
        got = sorted(rp[1] for rp in rps)
        n = self.call("cartGetPositionsInRing", r, through)
        if got != list(range(1, n + 1)):
            miss = sorted(set(range(1, n + 1)) - set(got))[:6]
            return [("srctie-cart-ring-numbering", "the cells of ring r are numbered 1..getPositionsInRing(r) without repetition",
                     case, {"missing": miss, "cells": len(got)}, n)]
        return []

    def cart_total(self, r, through):
        if r < 1 or r > 3000:
            return []
        s = sum(self.call("cartGetPositionsInRing", q, through) for q in range(1, r + 1))
        want = (2 * r - 1) ** 2 if through else (2 * r) ** 2
        return [] if s == want else [("srctie-cart-ring-sizes", "ring sizes 1..r add up to the square they tile",
                                      {"rings": r, "throughCenter": bool(through)}, s, want)]

    # ---- C15 node arithmetic
    def history(self, bs, sample=None):
        """nodes are numbered in the order a run visits them; the previous node is the one visited just before"""
        bs = list(bs)
        out, k, prev = [], 0, None
        case0 = {"burnSteps": bs}
        npc = self.call("getNodesPerCycle", bs)
        if list(npc) != [b + 1 for b in bs]:
            out.append(("srctie-nodes-per-cycle", "a cycle of n steps has n + 1 nodes", case0, list(npc), [b + 1 for b in bs]))
        nodes = [(c, n) for c in range(len(bs)) for n in range(bs[c] + 1)]
        idx = range(len(nodes)) if sample is None else sample(len(nodes))
        for k in idx:
            c, n = nodes[k]
            case = dict(case0, cycle=c, node=n)
            v = self.call("getCumulativeNodeNum", bs, c, n)
            if v != k:
                out.append(("srctie-cum-node-order", "getCumulativeNodeNum numbers the nodes in visiting order", case, v, k))
            if k > 0:
                p = self.call("getPreviousTimeNode", bs, c, n)
                if tuple(p) != nodes[k - 1]:
                    out.append(("srctie-prev-node", "getPreviousTimeNode is the node visited just before", case, list(p), list(nodes[k - 1])))
            if "getCycleNodeFromCumulativeNode" in self.P:
                back = self.call("getCycleNodeFromCumulativeNode", bs, k)
                if tuple(back) != (c, n):
                    out.append(("srctie-cum-node-inverse", "getCycleNodeFromCumulativeNode inverts getCumulativeNodeNum", dict(case0, k=k), list(back), [c, n]))
            if "getCycleNodeFromCumulativeStep" in self.P and n < bs[c]:
                t = sum(bs[:c]) + n + 1       # 1-based number of the step that starts at node n of cycle c
                back = self.call("getCycleNodeFromCumulativeStep", bs, t)
                if tuple(back) != (c, n):
                    out.append(("srctie-cum-step-inverse", "getCycleNodeFromCumulativeStep gives the (cycle, node) at which step t starts",
                                dict(case0, step=t), list(back), [c, n]))
            if len(out) > 5:
                break
        return out

    # ---- C09 block bandwidths / C04, C06 statepoint group names
    def bands(self, nintj, nblok):
        """the column ranges of the blocks 1..nblok, end to end, are exactly the columns 0..nintj-1"""
        nxt, out = 0, []
        case = {"nintj": nintj, "nblok": nblok}
        for m in range(1, nblok + 1):
            jl, ju = self.call("getBlockBandwidth", m, nintj, nblok)
            if ju < jl:
                continue            # an empty trailing block
            if jl != nxt:
                return [("srctie-band-partition", "blocks tile the columns 0..nintj-1 without gap or overlap", dict(case, m=m), [jl, ju], nxt)]
            nxt = ju + 1
        if nxt != nintj:
            out.append(("srctie-band-partition", "blocks tile the columns 0..nintj-1 without gap or overlap", case, nxt, nintj))
        return out

    def groupnames(self, labels):
        import re as _re
        pat = _re.compile(r"^c(\d\d)n(\d\d).*$")
        seen, out = {}, []
        for c in range(100):
            for n in range(100):
                for lab in labels:
                    name = self.call("getH5GroupName", c, n, lab)
                    case = {"cycle": c, "node": n, "label": lab}
                    m = pat.match(name) if isinstance(name, str) else None
                    if not m or (int(m.group(1)), int(m.group(2))) != (c, n) or not name.endswith(lab):
                        out.append(("srctie-group-name-parse", "the group name cXXnYY<label> gives back cycle, node and label", case, name, None))
                    if name in seen:
                        out.append(("srctie-group-name-injective", "distinct (cycle, node, label) get distinct group names",
                                    {"first": seen[name], "second": case}, name, None))
                    seen[name] = case
                    if len(out) > 4:
                        return out
        return out

    # ---- C20 type label <-> number
    def xslabels(self, _unused=None):
        """every admissible label (one or two characters A-Z a-z) converts to its number and back, without collision"""
        letters = "ABCDEFGHIJKLMNOPQRSTUVWXYZabcdefghijklmnopqrstuvwxyz"
        labels = list(letters) + [a + b for a in letters for b in letters]
        seen, out = {}, []
        for lab in labels:
            try:
                n = self.call("getXSTypeNumberFromLabel", lab)
                back = self.call("getXSTypeLabelFromNumber", n)
            except Exception as e:
                out.append(("srctie-xs-label-roundtrip", "an admissible label converts to its number and back", {"label": lab}, repr(e), lab))
                continue
            if back != lab:
                out.append(("srctie-xs-label-roundtrip", "an admissible label converts to its number and back", {"label": lab}, [n, back], lab))
            if n in seen:
                out.append(("srctie-xs-label-collision", "no two admissible labels share a number", {"labels": [seen[n], lab]}, n, None))
            seen[n] = lab
            if len(out) > 6:
                break
        return out

    # ---- C19 structured identifiers
    def mcnp(self, z, a0):
        """within one element, over a window of 100 mass numbers x states 0..3, the MCNP ids are distinct, start with
        the atomic number and have a three-digit second field"""
        seen, out = {}, []
        for a in range(a0, a0 + 100):
            for st in range(4):
                if a + 600 >= 1000 and st > 0 and not (a + 300 + 100 * st < 1000):
                    continue
                v = self.call("getMcnpId", z, a, st)
                case = {"z": z, "a": a, "state": st}
                if not (isinstance(v, str) and v[:-3] == str(z) and len(v) >= 4 and v[-3:].isdigit()):
                    out.append(("srctie-mcnp-encodes-z", "the MCNP id is the atomic number followed by three digits", case, v, None))
                    continue
                if v in seen:
                    out.append(("srctie-mcnp-injective", "no two nuclides of an element share an MCNP id", {"first": seen[v], "second": case}, v, None))
                seen[v] = case
            if len(out) > 3:
                break
        return out

    def aaazzzs(self, z, a, st):
        v = self.call("getAAAZZZSId", z, a, st)
        ok = isinstance(v, str) and len(v) >= 5 and v[-1:] == str(st) and v[-4:-1] == f"{z:03d}" and v[:-4] == str(a)
        return [] if ok else [("srctie-aaazzzs-encodes", "the AAAZZZS id encodes mass number, atomic number and state",
                               {"z": z, "a": a, "state": st}, v, f"{a}{z:03d}{st}")]

    # ---- C08
    def third(self, i, j, k=0):
        out = []
        case = {"i": i, "j": j}
        eq = self.call("_getSymmetricIdenticalsThird", i, j, k)
        if (i, j) == (0, 0):
            if eq != []:
                out.append(("srctie-third-centre", "the centre has no equivalents", case, eq, []))
            return out
        if len(eq) != 2:
            return [("srctie-third-equivalents", "two equivalents (120 and 240 degree images)", case, eq, None)]
        c = _coef(i, j)
        r120 = _r60x2(*_r60x2(*c))            # 4 x rotation by 120 degrees
        r240 = _r60x2(*_r60x2(*r120))          # 16 x rotation by 240 degrees
        e1, e2 = _coef(*eq[0][:2]), _coef(*eq[1][:2])
        if (4 * e1[0], 4 * e1[1]) != r120 or (16 * e2[0], 16 * e2[1]) != r240:
            out.append(("srctie-third-equivalents", "equivalents are the images of the cell centre under 120 / 240 degrees",
                        case, eq, None))
        if "isInFirstThird" in self.P:
            a, b = 2 * i + j, i + 2 * j        # 3*alpha, 3*beta in the basis of the two boundary rays
            orbit = [(i, j)] + [tuple(e[:2]) for e in eq]
            on_edge = any((x + 2 * y == 0 and x > 0) or (2 * x + y == 0 and y > 0) for x, y in orbit)
            for top in (0, 1):
                cnt = sum(1 for (x, y) in orbit if self.call("isInFirstThird", top, x, y, k))
                want = 1 if not on_edge else (2 if top else 1)
                if cnt != want:
                    out.append(("srctie-third-orbit-partition", "each 3-orbit has exactly one member in the first third "
                                "(two on the boundary rays when the top edge is included)", dict(case, top=bool(top)), cnt, want))
            for top in (0, 1):
                got = self.call("isInFirstThird", top, i, j, k)
                want = (b >= 0 and (a > 0 or (bool(top) and a == 0)))
                if bool(got) != want:
                    out.append(("srctie-first-third-sector", "isInFirstThird is the sector between the 0 and 120 degree rays",
                                dict(case, top=bool(top)), got, want))
        return out

    def rotate(self, i, j, k, l):
        """k index steps = k x 60 degrees counter-clockwise on the cell centre, additive, ring preserving, axial index kept"""
        out, case = [], {"i": i, "j": j, "rotations": k}
        r = self.call("rotateIndex", k, i, j, 5)
        if len(r) != 3 or r[2] != 5:
            return [("srctie-rotate-axial", "rotation keeps the axial index", case, list(r), None)]
        n = k % 6
        want = _coef(i, j)
        for _ in range(n):
            want = _r60x2(*want)
        got = _coef(r[0], r[1])
        if (got[0] * 2 ** n, got[1] * 2 ** n) != tuple(want):
            out.append(("srctie-rotate-geometry", "k index steps turn the cell centre by k x 60 degrees counter-clockwise", case, list(r), None))
        if hexdist(r[0], r[1]) != hexdist(i, j):
            out.append(("srctie-rotate-ring", "rotation preserves the ring", case, list(r), None))
        r2 = self.call("rotateIndex", l, r[0], r[1], 5)
        r12 = self.call("rotateIndex", k + l, i, j, 5)
        if tuple(r2) != tuple(r12):
            out.append(("srctie-rotate-additive", "rotations compose additively", dict(case, then=l), [list(r2), list(r12)], None))
        return out

    def line(self, i, j):
        v = self.call("overlapsWhichSymmetryLine", i, j)
        a, b = _coef(i, j)
        if (i, j) == (0, 0):
            want = 4
        elif b == 0 and a > 0:
            want = 1
        elif b == 3 * a and a > 0:
            want = 2
        elif b == -3 * a and a < 0:
            want = 3
        else:
            want = None
        return [] if v == want else [("srctie-symmetry-line-class", "symmetry line class of a cell agrees with its coordinates",
                                      {"i": i, "j": j}, v, want)]


SHORT = {
    H + "indicesToRingPos": "indicesToRingPos", H + "getIndicesFromRingAndPos": "getIndicesFromRingAndPos",
    H + "_indicesAndEdgeFromRingAndPos": "_indicesAndEdgeFromRingAndPos", H + "getRingPos": "getRingPos",
    G + "numPositionsInRing": "numPositionsInRing", H + "getPositionsInRing": "getPositionsInRing",
    G + "totalPositionsUpToRing": "totalPositionsUpToRing", H + "getNeighboringCellIndices": "getNeighboringCellIndices",
    H + "overlapsWhichSymmetryLine": "overlapsWhichSymmetryLine", H + "_getSymmetricIdenticalsThird": "_getSymmetricIdenticalsThird",
    H + "isInFirstThird": "isInFirstThird", H + "rotateIndex": "rotateIndex", T + "getRingPos": "trzGetRingPos",
    T + "getIndicesFromRingAndPos": "trzGetIndicesFromRingAndPos", C + "getPositionsInRing": "cartGetPositionsInRing",
    C + "getRingPos": "cartGetRingPos",
    U + "getNodesPerCycle": "getNodesPerCycle", U + "getCumulativeNodeNum": "getCumulativeNodeNum",
    U + "getPreviousTimeNode": "getPreviousTimeNode", U + "getCycleNodeFromCumulativeNode": "getCycleNodeFromCumulativeNode",
    U + "getCycleNodeFromCumulativeStep": "getCycleNodeFromCumulativeStep", N + "getMcnpId": "getMcnpId", N + "getAAAZZZSId": "getAAAZZZSId",
    X + "getXSTypeNumberFromLabel": "getXSTypeNumberFromLabel", X + "getXSTypeLabelFromNumber": "getXSTypeLabelFromNumber",
    CC + "getBlockBandwidth": "getBlockBandwidth", DB + "getH5GroupName": "getH5GroupName",
}


def hex_cells(nrings):
    n = nrings - 1
    for i in range(-n, n + 1):
        for j in range(max(-n, -n - i), min(n, n - i) + 1):
            yield (i, j)


def search_domain(key, res, rng, thorough):
    """inputs of the extended search for one function: (kind, tuple) pairs"""
    R = 400 if thorough else 300
    lits = sorted(set(res["literals"]) | {0, 1})
    near = sorted({l + d for l in lits for d in (-2, -1, 0, 1, 2)})
    big = [_big(rng) for _ in range(400)]
    cells = sorted(hex_cells(R), key=lambda c: hexdist(*c))     # inner rings first: the reported input is a small one
    extra = [(a, b) for a in near for b in near]
    extra += [(rng.choice(big), rng.choice(near)) for _ in range(300)] + [(rng.choice(near), rng.choice(big)) for _ in range(300)]
    extra += [(rng.choice(big), rng.choice(big)) for _ in range(600)]
    extra += [(x, -x + d) for x in big[:150] for d in (-1, 0, 1)] + [(x, d) for x in big[:150] for d in (-1, 0, 1)] \
        + [(d, x) for x in big[:150] for d in (-1, 0, 1)]
    return cells, extra, near, big


def clause_inputs(c, key, res, rng, thorough):
    """generator of (clause function, args) for the function `key`"""
    cells, extra, near, big = search_domain(key, res, rng, thorough)
    R = 400 if thorough else 300
    P = c.P
    if key in (H + "indicesToRingPos", H + "getRingPos") and "indicesToRingPos" in P:
        for ij in cells:
            yield c.cell, ij
        for ij in extra:
            yield c.cell, ij
    if key in (H + "getIndicesFromRingAndPos", H + "_indicesAndEdgeFromRingAndPos", H + "indicesToRingPos") \
            and "getIndicesFromRingAndPos" in P:
        for r in range(1, R + 1):
            for p in range(1, (6 * (r - 1) if r > 1 else 1) + 1):
                yield c.ringpos, (r, p)
        for r in [abs(x) + 2 for x in big[:200]] + [abs(x) + 2 for x in near]:
            for e in range(6):
                for p in (e * (r - 1), e * (r - 1) + 1, e * (r - 1) + 2, (e + 1) * (r - 1) - 1, (e + 1) * (r - 1),
                          e * (r - 1) + rng.randint(1, max(1, r - 1))):
                    yield c.ringpos, (r, p)
    if key in (G + "numPositionsInRing", H + "getPositionsInRing"):
        fn = SHORT[key]
        if fn in P:
            for r in list(range(1, 5000)) + [abs(x) + 1 for x in big] + [abs(x) + 1 for x in near]:
                yield (lambda r, fn=fn: c.ringsize(r, fn)), (r,)
    if key == G + "totalPositionsUpToRing" and "totalPositionsUpToRing" in P:
        for r in list(range(1, 5000)) + [abs(x) + 1 for x in big] + [abs(x) + 1 for x in near]:
            yield c.total, (r,)
    if key == H + "getNeighboringCellIndices" and "getNeighboringCellIndices" in P:
        for (i, j) in sorted(hex_cells(60), key=lambda c: hexdist(*c)) + extra:
            yield c.neighbours, (i, j, rng.choice((0, 1, -2, 7)))
    if key in (T + "getRingPos", T + "getIndicesFromRingAndPos") and "trzGetRingPos" in P and "trzGetIndicesFromRingAndPos" in P:
        for (i, j) in sorted(hex_cells(40), key=lambda c: hexdist(*c)) + extra:
            yield c.trz, (i, j, rng.choice((0, 3, -1)))
    if key == C + "getRingPos" and "cartGetRingPos" in P:
        for t in (0, 1):
            for i in range(-80, 81):
                for j in range(-80, 81):
                    yield c.cart_cell, (i, j, t)
            for r in range(1, 320):
                yield c.cart_ring_bijection, (r, t)
            for (i, j) in extra[:1200]:
                if abs(i) < 2 ** 45 and abs(j) < 2 ** 45:
                    yield c.cart_cell, (i, j, t)
    if key == C + "getPositionsInRing" and "cartGetPositionsInRing" in P:
        for r in list(range(1, 400)) + [1000, 2999]:
            for t in (0, 1):
                yield c.cart_total, (r, t)
    if key in (U + "getNodesPerCycle", U + "getCumulativeNodeNum", U + "getPreviousTimeNode", U + "getCycleNodeFromCumulativeNode",
               U + "getCycleNodeFromCumulativeStep") and "getCumulativeNodeNum" in P:
        for ln in (1, 2, 3, 4):
            for bs in itertools.product((0, 1, 2, 3), repeat=ln):
                yield c.history, (bs,)
        for _ in range(150):
            yield c.history, (tuple(rng.choice((0, 1, 2, 3, 7, 12, rng.randint(0, 40))) for _ in range(rng.randint(1, 12))),)
        for _ in range(60):     # long cycles: sampled nodes, boundaries of every cycle
            bs = tuple(rng.choice(near + [rng.randint(0, 5000)]) for _ in range(rng.randint(1, 6)))
            bs = tuple(abs(b) for b in bs)

            def sample(m, bs=bs):
                edges, acc = set(), 0
                for b in bs:
                    edges.update({acc - 1, acc, acc + 1, acc + b - 1, acc + b, acc + b + 1})
                    acc += b + 1
                return sorted(x for x in edges | {rng.randrange(m) for _ in range(20)} if 0 <= x < m)
            yield c.history, (bs, sample)
    if key == CC + "getBlockBandwidth" and "getBlockBandwidth" in P:
        for nintj in range(1, 80):
            for nblok in range(1, 16):
                yield c.bands, (nintj, nblok)
        for _ in range(600):
            yield c.bands, (rng.randint(1, 4000), rng.randint(1, 60))
    if key == DB + "getH5GroupName" and "getH5GroupName" in P:
        yield c.groupnames, (["", "EOL", "0", "n00", "c01n01"],)
    if key in (X + "getXSTypeNumberFromLabel", X + "getXSTypeLabelFromNumber") and "getXSTypeNumberFromLabel" in P:
        yield c.xslabels, (None,)
    if key == N + "getMcnpId" and "getMcnpId" in P:
        for z in list(range(1, 119)):
            for a0 in (1, 60, 150, 200, 242 - 50, 299):
                yield c.mcnp, (z, a0)
    if key == N + "getAAAZZZSId" and "getAAAZZZSId" in P:
        for z in list(range(1, 119)):
            for a in (1, 9, 10, 99, 100, 242, 399):
                for st in range(4):
                    yield c.aaazzzs, (z, a, st)
    if key in (H + "_getSymmetricIdenticalsThird", H + "isInFirstThird") and "_getSymmetricIdenticalsThird" in P:
        for ij in cells:
            yield c.third, ij
        for ij in extra:
            yield c.third, ij
    if key == H + "rotateIndex" and "rotateIndex" in P:
        ks = list(range(-7, 14))
        for ij in sorted(hex_cells(25), key=lambda c: hexdist(*c)):
            for k in ks:
                yield c.rotate, (ij[0], ij[1], k, rng.choice(ks))
        for ij in extra[:1500]:
            yield c.rotate, (ij[0], ij[1], rng.choice(ks + big[:50]), rng.choice(ks + big[:50]))
    if key == H + "overlapsWhichSymmetryLine" and "overlapsWhichSymmetryLine" in P:
        for ij in cells:
            yield c.line, ij
        for ij in extra + [(2 * x, -x) for x in big[:200]] + [(x, x) for x in big[:200]] + [(-x, 2 * x) for x in big[:200]] \
                + [(2 * x + d, -x) for x in near for d in (-1, 0, 1)]:
            yield c.line, ij


def extended_search(ctx, key, res, P, PF, why):
    """(c): property clauses on the real code over the large domain; real code vs hand model on a sub-domain.
    Returns (number of clause failures recorded, number of model/code differences, evaluations)."""
    rng = random.Random(f"srctie-{ctx.prop}-{ctx.seed}-{key}")
    c = Clauses(P)
    nfail, nev, seen_keys, ntimeout = 0, 0, set(), 0
    t0 = time.time()
    for fn, args in clause_inputs(c, key, res, rng, ctx.thorough):
        nev += 1
        try:
            fails = guarded(lambda: fn(*args), 2.0)
        except _Timeout:
            ctx.count("source-tie: clause evaluation timed out (skipped)")
            ntimeout += 1
            if ntimeout >= 5:      # the small inputs come first; the rest are the huge magnitudes
                break
            continue
        except (TypeError, AttributeError) as e:
            # most likely the harness could not call the function any more (signature changed): not a verdict
            ctx.count(f"source-tie: clause not evaluable ({type(e).__name__})")
            continue
        except Exception as e:   # the real code raises where the property needs a value
            fails = [("srctie-unexpected-raise", "the function raises on an input of the property's domain",
                      {"function": res["qual"], "args": [list(a) if isinstance(a, tuple) else a for a in args if not callable(a)]}, repr(e), None)]
        for (k, clause, case, observed, expected) in fails:
            nfail += 1
            if k not in seen_keys:
                seen_keys.add(k)
                ctx.fail(k, clause, dict(case, function=res["qual"], source=f"{res['file']}:{res['line']}"),
                         observed=observed, expected=expected,
                         note=f"source tie of {res['qual']} no longer checks ({why}); extended search on the real code")
        if nfail >= 50 or time.time() - t0 > 240:
            break
    # real code vs hand model (informational unless strict): the ordinary validation inputs + large cells
    ndiff, first = 0, None
    pf = PF.get(key)
    if pf is not None:
        inputs = gen_inputs(res, rng, quick=False, loop=(True if res.get("has_loop") else ("half" if res.get("uses_half") else False))) + extra_inputs(key)
        reqs = [req_line(res["lean_name"], flat) for flat in inputs]
        try:
            model = common.lean_run("SrcModel", reqs, timeout=150)
        except (Infra, subprocess.TimeoutExpired):
            model = None
        if model is not None:
            for flat, m in zip(inputs, model):
                if m in ("bad-op", "out-of-domain"):
                    continue
                try:
                    i = guarded(lambda: model_view(key, pf, flat), 2.0)
                except _Timeout:
                    continue
                except Exception as e:
                    i = f"error {e!r}"
                m = pf.lean_view(m)
                if i != m:
                    ndiff += 1
                    if first is None:
                        first = {"args": list(flat), "model": m, "code": i}
    return nfail, ndiff, nev, first


def model_view(key, pf, flat):
    """the real function's result in the form the equivalence theorem compares with the model"""
    try:
        v = pf.raw(flat)
    except Exception:
        return "reject"
    t = pf.res["ret"]
    if pf.res.get("strfmt"):
        return "str:" + v if isinstance(v, str) else f"not-a-string {v!r}"
    if key == H + "_indicesAndEdgeFromRingAndPos":
        return canon(tuple(v[:2]), py2lean.T2)
    if key == H + "getNeighboringCellIndices":
        return canon([tuple(x[:2]) for x in v], py2lean.LIST(py2lean.T2))
    return canon(v, t)


# ------------------------------------------------------------------------------------------ entry
def run(ctx, prop):
    try:
        return _run(ctx, prop)
    except Infra:
        raise
    except Exception:
        import traceback
        ctx.say(traceback.format_exc())
        raise Infra("srctie: unexpected exception in the source-tie harness (a bug of the harness, not a verdict)")


def trans_deps(by, k, acc=None):
    acc = acc if acc is not None else []
    if k not in acc and k in by:
        acc.append(k)
        for d in by[k].get("deps", []):
            trans_deps(by, d, acc)
    return acc


def _run(ctx, prop):
    t0 = time.time()
    tie = TIES[prop]
    results = py2lean.translate_repo(common.REPO)
    by = {r["key"]: r for r in results}
    targets = {t.key: t for t in py2lean.TARGETS}
    text = py2lean.render_module(results)
    fkeys = list(tie["functions"])
    translated = [k for k in fkeys if by[k]["status"] == "translated"]
    untrans = [k for k in fkeys if by[k]["status"] != "translated"]
    # modules to build: Eq of translated functions, Cor whose functions are all translated
    eqmods = {}
    for k in translated:
        if k in EQ:
            eqmods[k] = EQ[k][0]
    cors = [m for m in tie["corollaries"] if all(by[f]["status"] == "translated" for f in COR[m])]
    cor_blocked = [m for m in tie["corollaries"] if m not in cors]
    # Eq modules the corollaries import (functions of other properties)
    need = set(eqmods.values())
    for m in cors:
        for f in COR[m]:
            need.add(EQ[f][0])
    for k, (m, deps) in EQ.items():
        if m in need:
            need.update(deps)
    modules = sorted(need | set(cors))
    # real Python side
    common.import_armi()
    fns, PF = [], {}
    vrng = random.Random(f"srctie-validate-{prop}-{ctx.seed}")
    closure = []
    for k in translated:
        for d in [k] + list(by[k]["deps"]):
            if d not in closure and by[d]["status"] == "translated":
                closure.append(d)
    for k in closure:
        tgt = targets.get(k) or py2lean.Target(*k.split("::"))
        pf = PyFn(by[k], tgt)
        PF[k] = pf
        loopy = any(by[d].get("has_loop") for d in trans_deps(by, k))
        if not loopy and any(by[d].get("uses_half") for d in trans_deps(by, k)):
            loopy = "half"
        fns.append((pf, gen_inputs(by[k], vrng, quick=not ctx.thorough, loop=loopy) + extra_inputs(k)))
    if modules or fns:
        out, failed, lean_lines, changed, okmods, ar = build_and_validate(ctx, text, modules, fns)
    else:   # nothing of this property is inside the subset: nothing to build, Gen/Src.lean is left alone
        out, failed, lean_lines, changed, okmods, ar = "", [], [], False, [], {"theorems": [], "bad": [], "scan": []}
    # 3. translator validation
    pos, nval = 0, 0
    for pf, inputs in fns:
      with common.quiet():
        for flat in inputs:
            lean = pf.lean_view(lean_lines[pos]); pos += 1
            try:
                py = guarded(lambda: pf.line(flat), 5.0)
            except _Timeout:
                raise Infra(f"srctie: the real Python function {pf.res['qual']} did not return within 5 s on args {list(flat)} "
                            "(validation input); no verdict")
            nval += 1
            if lean != py:
                raise Infra(f"srctie: TRANSLATOR BUG: generated Lean definition {pf.res['lean_name']} and the real Python "
                            f"function {pf.res['qual']} differ on args {list(flat)}: lean={lean} python={py}")
        ctx.count(f"source-tie: translator validated on {pf.res['qual']} (generated Lean vs real Python)", len(inputs))
    ctx.evaluations += nval
    # 4. outcomes
    failed_set = set(failed)
    blocked = lambda m: blocked_by(m, failed_set)
    if ar["bad"] or ar["scan"]:
        say(ctx, "axiom audit:", ar["bad"], ar["scan"])
        raise Infra("srctie: axiom audit of the source-tie modules failed: a proof is not a proof")
    audit_theorems = ar["theorems"]
    if ctx.audit_result is not None:
        have = {n for n, _ in ctx.audit_result["theorems"]}
        ctx.audit_result["theorems"] = list(ctx.audit_result["theorems"]) + [(n, ax) for n, ax in ar["theorems"] if n not in have]
    thm_by_mod = {}
    for m in okmods:
        thm_by_mod[m] = common.theorem_names(os.path.join(LEAN, *m.split(".")) + ".lean")
    report = []
    strict = os.environ.get("VERIF_SRCTIE_STRICT") == "1"
    for k in fkeys:
        r = by[k]
        entry = {"function": r["qual"], "source": f"{r['file']}:{r.get('line', 0)}", "status": None}
        if r["status"] != "translated":
            entry["status"] = f"not established (untranslatable: {r['reason']})"
            ctx.count("source-tie: not established (untranslatable)")
            if k in EQ:   # it used to be inside the subset: say so once
                say(ctx, f"NOTE: {r['qual']} is outside the translatable subset now ({r['reason']}); "
                         "source-tie not established, the correspondence check remains the tie")
            report.append(entry)
            continue
        entry["lean_def"] = "ArmiVerif.Gen.Src." + r["lean_name"]
        entry["src_hash"] = r["src_hash"]
        if r.get("strfmt"):
            entry["format_template"] = r["strfmt"]
            if k in EXPECT_FMT and r["strfmt"] != EXPECT_FMT[k]:
                entry["status"] = (f"not established (the string format changed: {r['strfmt']!r}, the tie reads the integer "
                                   f"arguments through {EXPECT_FMT[k]!r}); correspondence remains the tie")
                say(ctx, f"NOTE: {r['qual']}: format template changed to {r['strfmt']!r}; source-tie not established")
                report.append(entry)
                continue
        if k not in EQ:
            entry["status"] = "translated, no equivalence theorem written for it (correspondence is the tie)"
            say(ctx, f"NOTE: {r['qual']} is translatable now but has no equivalence theorem; correspondence remains the tie")
            report.append(entry)
            continue
        m = EQ[k][0]
        cor_of = [c for c in tie["corollaries"] if k in COR[c]]
        bad = blocked(m)
        cor_state = {c: blocked(c) for c in cor_of if c in cors}
        if not bad:
            for c, b in cor_state.items():
                if b == c:
                    # the equivalences it uses all check but the corollary over them does not: not caused by the source
                    say(ctx, out[-3000:])
                    raise Infra(f"srctie: corollary module {c} fails although the equivalences it uses check (bug in the tie files)")
            entry["status"] = "proved"
            entry["equivalence"] = [n for n in thm_by_mod.get(m, [])]
            entry["corollaries"] = [n for c, b in cor_state.items() if not b for n in thm_by_mod.get(c, [])]
            lost = [c for c, b in cor_state.items() if b] + [c for c in cor_of if c in cor_blocked]
            if lost:
                entry["corollaries_not_established"] = lost
            ctx.count("source-tie: proved")
            report.append(entry)
            continue
        # (c) broken proof obligation
        which = bad
        thms = failing_theorems(out, which)
        why = f"{which.split('.')[-1]}: {', '.join(thms) if thms else 'does not build'}"
        if which != m:
            why += f" (needed by {m.split('.')[-1]})"
        say(ctx, f"proof obligation of the source tie no longer checks for {r['qual']} ({why}); extended search on the real code")
        nfail, ndiff, nev, first = extended_search(ctx, k, r, direct_fns(), PF, why)
        ctx.evaluations += nev
        ctx.count("source-tie: extended-search evaluations (real code, property clauses)", nev)
        entry.update({"status": None, "broken": why, "extended_search": {"clause_evaluations": nev, "clause_failures": nfail,
                                                                         "model_vs_code_differences": ndiff,
                                                                         "first_difference": first}})
        if nfail:
            entry["status"] = "BROKEN: property clause fails on the real code (see replay)"
            ctx.count("source-tie: broken, failing input found")
        else:
            entry["status"] = ("not re-established (theorem no longer checks; no property clause fails on the searched domain; "
                               f"model and code differ on {ndiff} inputs)")
            ctx.count("source-tie: not re-established, no failing input")
            say(ctx, f"NOTE: source-tie for {r['qual']} not re-established; falling back to correspondence "
                     f"({nev} clause evaluations clean; model/code differences: {ndiff})")
            if strict:
                ctx.broken_obligations.append((f"{which}::{','.join(thms) or r['qual']}",
                                               f"source tie of {r['qual']} no longer checks ({why}); first model/code difference: {first}"))
        report.append(entry)
    ctx.extra["source_tie"] = report
    ctx.extra["source_tie_summary"] = {
        "translator": "tools/py2lean.py", "generated_module": "lean/ArmiVerif/Gen/Src.lean",
        "regenerated_this_run": bool(changed), "tie_modules_checked": okmods,
        "tie_theorems_audited": [n for n, _ in audit_theorems],
        "translator_validation_evaluations": nval, "wall_s": round(time.time() - t0, 2),
    }
    if "source tie" not in " ".join(ctx.assumptions):
        ctx.assumptions.append(
            "source tie: tools/py2lean.py (Python subset -> Lean) and the prelude Model/PyInt.lean are trusted only as far as "
            "this run's differential execution of every generated definition against the real Python function went "
            f"({nval} evaluations, magnitudes to 2^62); calls between translated functions are resolved statically "
            "(no subclass overriding); every exception kind is one value `none`")
    nprov = sum(1 for e in report if e["status"] == "proved")
    say(ctx, f"{prop}: {nprov}/{len(report)} functions proved equal to the model as written now, "
             f"{len(untrans)} untranslatable, translator validated on {nval} inputs, {time.time()-t0:.1f}s")


# ------------------------------------------------------------------------------------------ replay
def replay(ctx, payload):
    """re-evaluate the recorded clause of a `srctie-*` failure on the real code"""
    common.import_armi()
    P = direct_fns()
    c = Clauses(P)
    key, case = payload["key"], payload["case"]
    g = lambda *names: [case[n] for n in names]
    fails = []
    try:
        if key in ("srctie-hex-ring-is-distance", "srctie-hex-pos-range", "srctie-hex-ringpos-left-inverse", "srctie-hex-ringpos-total") and "i" in case:
            fails = c.cell(*g("i", "j"))
        elif key in ("srctie-hex-ringpos-right-inverse", "srctie-hex-ring-is-distance"):
            fails = c.ringpos(*g("ring", "pos"))
        elif key == "srctie-hex-ring-size":
            fails = c.ringsize(case["ring"], case.get("fn", "numPositionsInRing"))
        elif key == "srctie-hex-total":
            fails = c.total(case["ring"])
        elif key.startswith("srctie-hex-neighbour"):
            fails = c.neighbours(*g("i", "j", "k"))
        elif key == "srctie-trz-roundtrip":
            fails = c.trz(case.get("i", case.get("ring")), case.get("j", case.get("pos")), case.get("k", 0))
        elif key in ("srctie-cart-ring-is-distance", "srctie-cart-pos-range"):
            fails = c.cart_cell(case["i"], case["j"], int(case["throughCenter"]))
        elif key == "srctie-cart-ring-numbering":
            fails = c.cart_ring_bijection(case["ring"], int(case["throughCenter"]))
        elif key == "srctie-cart-ring-sizes":
            fails = c.cart_total(case["rings"], int(case["throughCenter"]))
        elif key in ("srctie-third-centre", "srctie-third-equivalents", "srctie-third-orbit-partition", "srctie-first-third-sector"):
            fails = c.third(*g("i", "j"))
        elif key.startswith("srctie-rotate-"):
            fails = c.rotate(case["i"], case["j"], case["rotations"], case.get("then", 1))
        elif key == "srctie-symmetry-line-class":
            fails = c.line(*g("i", "j"))
        elif key == "srctie-band-partition":
            fails = c.bands(case["nintj"], case["nblok"])
        elif key in ("srctie-group-name-parse", "srctie-group-name-injective"):
            fails = c.groupnames(["", "EOL", "0", "n00", "c01n01"])
        elif key in ("srctie-xs-label-roundtrip", "srctie-xs-label-collision"):
            fails = c.xslabels()
        elif key == "srctie-mcnp-encodes-z":
            fails = c.mcnp(case["z"], case["a"])
        elif key == "srctie-mcnp-injective":
            fails = c.mcnp(case["first"]["z"], min(case["first"]["a"], case["second"]["a"]))
        elif key == "srctie-aaazzzs-encodes":
            fails = c.aaazzzs(*g("z", "a", "state"))
        elif key in ("srctie-nodes-per-cycle", "srctie-cum-node-order", "srctie-prev-node", "srctie-cum-node-inverse", "srctie-cum-step-inverse"):
            fails = c.history(case["burnSteps"])
        else:
            return {"observed": "unknown srctie key; re-run the check"}
    except Exception as e:
        return {"observed": repr(e)}
    hit = [f for f in fails if f[0] == key]
    if hit:
        return {"key": key, "clause": hit[0][1], "case": hit[0][2], "observed": hit[0][3], "expected": hit[0][4]}
    return None
