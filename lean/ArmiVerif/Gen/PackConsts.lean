/-
REGENERATED on every run by harness/c05.py `regenerate` from armi/bookkeeping/db/layout.py
(NONE_MAP, LOCATION_TYPE_LABELS, DB_MAJOR/DB_MINOR). Data only — do not edit by hand.
-/
namespace ArmiVerif.Gen.PackConsts

def dbMajor : Nat := 3
def dbMinor : Nat := 4

/-- NONE_MAP entries whose sentinel is an integer: (type key, sentinel) -/
def noneMapInt : List (String × Int) := [
  ("pyint", -9223372036854775806),
  ("i8", -126),
  ("i16", -32766),
  ("i32", -2147483646),
  ("i64", -9223372036854775806),
  ("u8", 253),
  ("u16", 65533),
  ("u32", 4294967293),
  ("u64", 18446744073709551613)]

/-- NONE_MAP entries whose sentinel is NaN -/
def noneMapNaN : List String := ["pyfloat", "f64"]

/-- NONE_MAP entries whose sentinel is a string -/
def noneMapStr : List (String × String) := [("pystr", "<!None!>")]

/-- LOCATION_TYPE_LABELS: (location class, label) -/
def locLabels : List (String × String) := [
  ("NoneType", "N"),
  ("CoordinateLocation", "C"),
  ("IndexLocation", "I"),
  ("MultiIndexLocation", "M:")]

end ArmiVerif.Gen.PackConsts
