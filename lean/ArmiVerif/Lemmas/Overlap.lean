/-
Overlap arithmetic shared by C11 (and usable by C12): the overlap of a window with the cells of a
contiguous mesh telescopes to the window's length.
-/
import ArmiVerif.Model.Mesh
import Mathlib.Tactic.Linarith
import Mathlib.Tactic.Ring
import Mathlib.Tactic.FieldSimp
import Mathlib.Tactic.Positivity
import Mathlib.Data.Rat.Defs
import Mathlib.Algebra.Order.Field.Rat

namespace ArmiVerif.Mesh

variable {α : Type}

/-- clip x into [lo, hi] -/
def clip (lo hi x : Rat) : Rat := rmax lo (rmin hi x)

/-- the overlap length of the window `[zl, zu]` with block `b` -/
def ovl (zl zu : Rat) (b : Blk α) : Rat := rmax 0 (rmin b.zt zu - rmax b.zb zl)

theorem ovl_eq_clip (zl zu : Rat) (b : Blk α) (h1 : zl ≤ zu) (h2 : b.zb ≤ b.zt) :
    ovl zl zu b = clip zl zu b.zt - clip zl zu b.zb := by
  unfold ovl clip rmax rmin
  split_ifs <;> linarith

theorem ovl_nonneg (zl zu : Rat) (b : Blk α) : 0 ≤ ovl zl zu b := by
  unfold ovl rmax; split_ifs <;> linarith

/-- the overlap is symmetric in the roles of window and block -/
theorem ovl_symm (zl zu : Rat) (b : Blk α) {β : Type} (w : Blk β) (h1 : w.zb = zl) (h2 : w.zt = zu) :
    ovl zl zu b = ovl b.zb b.zt w := by
  unfold ovl rmax rmin; subst h1; subst h2
  split_ifs <;> linarith

/-- well-formed stack of blocks: positive heights, `getHeight() = ztop - zbottom`, each block starts
where the one below ends -/
def Contig : List (Blk α) → Prop
  | [] => True
  | [b] => b.zb < b.zt ∧ b.h = b.zt - b.zb
  | b :: c :: t => b.zb < b.zt ∧ b.h = b.zt - b.zb ∧ b.zt = c.zb ∧ Contig (c :: t)

theorem Contig.head {b : Blk α} {t : List (Blk α)} (h : Contig (b :: t)) : b.zb < b.zt ∧ b.h = b.zt - b.zb := by
  cases t with
  | nil => exact h
  | cons c t => exact ⟨h.1, h.2.1⟩

theorem Contig.tail {b : Blk α} {t : List (Blk α)} (h : Contig (b :: t)) : Contig t := by
  cases t with
  | nil => trivial
  | cons c t => exact h.2.2.2

theorem Contig.mem {bs : List (Blk α)} (h : Contig bs) : ∀ b ∈ bs, b.zb < b.zt ∧ b.h = b.zt - b.zb := by
  induction bs with
  | nil => intro b hb; cases hb
  | cons a t ih =>
    intro b hb
    rcases List.mem_cons.mp hb with rfl | hb
    · exact h.head
    · exact ih h.tail b hb

/-- top of the last block (bottom of the first when empty is irrelevant) -/
def topOf (z0 : Rat) : List (Blk α) → Rat
  | [] => z0
  | b :: t => topOf b.zt t

/-- **telescoping**: over a contiguous stack starting at `z0`, the overlaps with `[zl, zu]` sum to
`clip(top) − clip(z0)` -/
theorem sum_ovl_tele (zl zu : Rat) (h : zl ≤ zu) :
    ∀ (bs : List (Blk α)) (z0 : Rat), Contig bs → (∀ b, bs.head? = some b → b.zb = z0) →
      (bs.map (ovl zl zu)).sum = clip zl zu (topOf z0 bs) - clip zl zu z0
  | [], z0, _, _ => by simp [topOf]
  | [b], z0, hc, h0 => by
    have hb := h0 b rfl
    simp only [List.map_cons, List.map_nil, List.sum_cons, List.sum_nil, topOf]
    rw [ovl_eq_clip zl zu b h (le_of_lt hc.1), hb]; ring
  | b :: c :: t, z0, hc, h0 => by
    have hb := h0 b rfl
    have ih := sum_ovl_tele zl zu h (c :: t) b.zt hc.2.2.2 (by intro x hx; simp at hx; subst hx; exact hc.2.2.1.symm)
    simp only [List.map_cons, List.sum_cons, topOf] at ih ⊢
    rw [ovl_eq_clip zl zu b h (le_of_lt hc.1), hb] at *
    linarith

theorem clip_of_le_lo (zl zu x : Rat) (h : zl ≤ zu) (hx : x ≤ zl) : clip zl zu x = zl := by
  unfold clip rmax rmin; split_ifs <;> linarith

theorem clip_of_hi_le (zl zu x : Rat) (h : zl ≤ zu) (hx : zu ≤ x) : clip zl zu x = zu := by
  unfold clip rmax rmin; split_ifs <;> linarith

/-- **overlap partition**: a contiguous stack covering `[zl, zu]` cuts it into pieces whose lengths
sum to `zu − zl`. -/
theorem overlap_partition (bs : List (Blk α)) (z0 zl zu : Rat) (h : zl ≤ zu) (hc : Contig bs)
    (h0 : ∀ b, bs.head? = some b → b.zb = z0) (hlo : z0 ≤ zl) (hhi : zu ≤ topOf z0 bs) :
    (bs.map (ovl zl zu)).sum = zu - zl := by
  rw [sum_ovl_tele zl zu h bs z0 hc h0, clip_of_le_lo zl zu z0 h hlo, clip_of_hi_le zl zu _ h hhi]

/-- Fubini for finite double sums over lists -/
theorem sum_sum_comm {β γ : Type} (F : β → γ → Rat) (l : List β) (m : List γ) :
    (l.map (fun x => (m.map (fun y => F x y)).sum)).sum = (m.map (fun y => (l.map (fun x => F x y)).sum)).sum := by
  induction l with
  | nil => simp
  | cons a t ih =>
    simp only [List.map_cons, List.sum_cons, ih]
    clear ih
    induction m with
    | nil => simp
    | cons c u ih2 => simp only [List.map_cons, List.sum_cons]; rw [← ih2]; ring

theorem sum_map_mul_left {β : Type} (c : Rat) (f : β → Rat) (l : List β) :
    (l.map (fun x => c * f x)).sum = c * (l.map f).sum := by
  induction l with
  | nil => simp
  | cons a t ih => simp only [List.map_cons, List.sum_cons, ih]; ring

theorem sum_map_mul_right {β : Type} (c : Rat) (f : β → Rat) (l : List β) :
    (l.map (fun x => f x * c)).sum = (l.map f).sum * c := by
  induction l with
  | nil => simp
  | cons a t ih => simp only [List.map_cons, List.sum_cons, ih]; ring

/-- sum over a filtered list = sum with the dropped terms replaced by 0 -/
theorem sum_filter_map {β : Type} (p : β → Bool) (g : β → Rat) (l : List β) :
    ((l.filter p).map g).sum = (l.map (fun x => if p x then g x else 0)).sum := by
  induction l with
  | nil => simp
  | cons a t ih =>
    by_cases hp : p a = true
    · simp [List.filter_cons, hp, ih]
    · simp [List.filter_cons, hp, ih]

end ArmiVerif.Mesh
