/-
Merge algebra for C10 (helper lemmas; the property theorems are in Props/C10.lean).
For every layer of the cross-section library (write-once property, metadata dict, collection,
attribute list, nuclide, label-keyed nuclide map, library) an `Alg`: content equivalence `eqv`,
compatibility `compat` (the merge does not raise) and `join` (what the target holds afterwards),
with the laws needed for order independence, plus the refinement lemmas tying the sequential,
partially-mutating model functions of Model/XsLib.lean to (compat, join).  Core Lean only.
-/
import ArmiVerif.Model.XsLib

namespace ArmiVerif.XsLib

/-! ## merge algebras: content equivalence / compatibility / join, and their laws -/

structure Alg (α : Type) where
  /-- well-formed values (the modelled domain) -/
  wf : α → Prop
  /-- same content -/
  eqv : α → α → Prop
  /-- the merge of `b` into `a` does not raise -/
  compat : α → α → Prop
  /-- what `a` holds after a merge that did not raise -/
  join : α → α → α

structure Alg.Laws {α : Type} (A : Alg α) : Prop where
  refl : ∀ a, A.eqv a a
  symm : ∀ {a b}, A.eqv a b → A.eqv b a
  trans : ∀ {a b c}, A.eqv a b → A.eqv b c → A.eqv a c
  wf_join : ∀ {a b}, A.wf a → A.wf b → A.compat a b → A.wf (A.join a b)
  compat_congr : ∀ {a a' b}, A.wf a → A.wf a' → A.wf b → A.eqv a a' → A.compat a b → A.compat a' b
  join_congr : ∀ {a a' b}, A.wf a → A.wf a' → A.wf b → A.eqv a a' → A.compat a b →
    A.eqv (A.join a b) (A.join a' b)
  swap_compat : ∀ {x y z}, A.wf x → A.wf y → A.wf z → A.compat x y → A.compat (A.join x y) z →
    A.compat x z ∧ A.compat (A.join x z) y
  swap_join : ∀ {x y z}, A.wf x → A.wf y → A.wf z → A.compat x y → A.compat (A.join x y) z →
    A.eqv (A.join (A.join x y) z) (A.join (A.join x z) y)
  comm_compat : ∀ {a b}, A.wf a → A.wf b → A.compat a b → A.compat b a
  comm_join : ∀ {a b}, A.wf a → A.wf b → A.compat a b → A.eqv (A.join a b) (A.join b a)

/-- a slot that may be filled from one side only (`_mergeAttributes`, `XSCollection.merge`) -/
def slotAlg (β : Type) : Alg (Option β) where
  wf := fun _ => True
  eqv := Eq
  compat := fun a b => a = none ∨ b = none
  join := oor

theorem slotAlg_laws (β : Type) : (slotAlg β).Laws where
  refl := fun _ => rfl
  symm := fun h => h.symm
  trans := fun h1 h2 => h1.trans h2
  wf_join := fun _ _ _ => trivial
  compat_congr := by intro a a' b _ _ _ h hc; cases h; exact hc
  join_congr := by intro a a' b _ _ _ h _; cases h; rfl
  swap_compat := by
    intro x y z _ _ _ h1 h2
    cases x <;> cases y <;> cases z <;> simp_all [slotAlg, oor]
  swap_join := by
    intro x y z _ _ _ h1 h2
    cases x <;> cases y <;> cases z <;> simp_all [slotAlg, oor]
  comm_compat := by intro a b _ _ h; exact h.symm
  comm_join := by
    intro a b _ _ h
    cases a <;> cases b <;> simp_all [slotAlg, oor]

/-- a write-once value: may be set from both sides if the values are equal -/
def woAlg : Alg (Option Val) where
  wf := fun _ => True
  eqv := Eq
  compat := fun a b => ∀ c w, a = some c → b = some w → c = w
  join := oor

theorem woAlg_laws : woAlg.Laws where
  refl := fun _ => rfl
  symm := fun h => h.symm
  trans := fun h1 h2 => h1.trans h2
  wf_join := fun _ _ _ => trivial
  compat_congr := by intro a a' b _ _ _ h hc; cases h; exact hc
  join_congr := by intro a a' b _ _ _ h _; cases h; rfl
  swap_compat := by
    intro x y z _ _ _ h1 h2
    cases x <;> cases y <;> cases z <;> simp_all [woAlg, oor]
  swap_join := by
    intro x y z _ _ _ h1 h2
    cases x <;> cases y <;> cases z <;> simp_all [woAlg, oor]
  comm_compat := by
    intro a b _ _ h c w hb ha
    exact (h w c ha hb).symm
  comm_join := by
    intro a b _ _ h
    cases a <;> cases b <;> simp_all [woAlg, oor]

/-- the state of an immutable property; content = what an unlocked read returns -/
def propAlg : Alg Prop' where
  wf := fun _ => True
  eqv := fun a b => a.read = b.read
  compat := fun a b => woAlg.compat a.read b.read
  join := fun a b => (a.set b.read).getD a

theorem prop_set_ok (a b : Prop') (h : propAlg.compat a b) :
    a.set b.read = some (propAlg.join a b) ∧ (propAlg.join a b).read = oor a.read b.read := by
  rcases a with _ | _ | c <;> rcases b with _ | _ | w <;>
    simp_all [propAlg, woAlg, Prop'.set, Prop'.read, oor, Option.join]

theorem prop_set_fail (a b : Prop') (h : ¬propAlg.compat a b) : a.set b.read = none := by
  rcases a with _ | _ | c <;> rcases b with _ | _ | w <;>
    simp_all [propAlg, woAlg, Prop'.set, Prop'.read, Option.join]


theorem propAlg_laws : propAlg.Laws where
  refl := fun _ => rfl
  symm := fun h => h.symm
  trans := fun h1 h2 => h1.trans h2
  wf_join := fun _ _ _ => trivial
  compat_congr := by
    intro a a' b _ _ _ h hc
    simp only [propAlg] at h hc ⊢
    rw [← h]; exact hc
  join_congr := by
    intro a a' b _ _ _ h hc
    have hc' : propAlg.compat a' b := by
      simp only [propAlg] at h hc ⊢
      rw [← h]; exact hc
    show (propAlg.join a b).read = (propAlg.join a' b).read
    rw [(prop_set_ok a b hc).2, (prop_set_ok a' b hc').2]
    simp only [propAlg] at h
    rw [h]
  swap_compat := by
    intro x y z _ _ _ h1 h2
    have e1 := (prop_set_ok x y h1).2
    have h2' : woAlg.compat (oor x.read y.read) z.read := by
      have : woAlg.compat (propAlg.join x y).read z.read := h2
      rwa [e1] at this
    obtain ⟨k1, k2⟩ := woAlg_laws.swap_compat (x := x.read) (y := y.read) (z := z.read) trivial trivial trivial h1 h2'
    refine ⟨k1, ?_⟩
    show woAlg.compat (propAlg.join x z).read y.read
    rw [(prop_set_ok x z k1).2]; exact k2
  swap_join := by
    intro x y z _ _ _ h1 h2
    have e1 := (prop_set_ok x y h1).2
    have h2' : woAlg.compat (oor x.read y.read) z.read := by
      have : woAlg.compat (propAlg.join x y).read z.read := h2
      rwa [e1] at this
    obtain ⟨k1, k2⟩ := woAlg_laws.swap_compat (x := x.read) (y := y.read) (z := z.read) trivial trivial trivial h1 h2'
    have k2' : propAlg.compat (propAlg.join x z) y := by
      show woAlg.compat (propAlg.join x z).read y.read
      rw [(prop_set_ok x z k1).2]; exact k2
    show (propAlg.join (propAlg.join x y) z).read = (propAlg.join (propAlg.join x z) y).read
    rw [(prop_set_ok _ z h2).2, e1, (prop_set_ok _ y k2').2, (prop_set_ok x z k1).2]
    exact woAlg_laws.swap_join (x := x.read) (y := y.read) (z := z.read) trivial trivial trivial h1 h2'
  comm_compat := by
    intro a b _ _ h
    exact woAlg_laws.comm_compat (a := a.read) (b := b.read) trivial trivial h
  comm_join := by
    intro a b _ _ h
    have h' : propAlg.compat b a := woAlg_laws.comm_compat (a := a.read) (b := b.read) trivial trivial h
    show (propAlg.join a b).read = (propAlg.join b a).read
    rw [(prop_set_ok a b h).2, (prop_set_ok b a h').2]
    exact woAlg_laws.comm_join (a := a.read) (b := b.read) trivial trivial h

/-- a field whose merged value is decided by the first library that sets it (neutronVelocity,
libraryLabel): never a conflict, never part of the order-independent content -/
def firstWinsAlg (α : Type) (f : α → α → α) : Alg α where
  wf := fun _ => True
  eqv := fun _ _ => True
  compat := fun _ _ => True
  join := f

theorem firstWinsAlg_laws (α : Type) (f : α → α → α) : (firstWinsAlg α f).Laws := by
  constructor <;> intros <;> first | trivial | exact ⟨trivial, trivial⟩

/-! ### metadata dicts -/

theorem Meta.get_nil_iff (a : Meta) : (∀ k, Meta.get a k = none) ↔ a = [] := by
  constructor
  · intro h
    cases a with
    | nil => rfl
    | cons p ps =>
      obtain ⟨k, v⟩ := p
      have := h k
      simp [Meta.get] at this
  · intro h; subst h; intro k; rfl

theorem Meta.get_none_of_not_mem (a : Meta) (k : Key) (h : ∀ v, (k, v) ∉ a) : Meta.get a k = none := by
  induction a with
  | nil => rfl
  | cons p ps ih =>
    obtain ⟨k', v⟩ := p
    have h1 : k' ≠ k := by
      intro e; subst e; exact h v (by simp)
    have h2 : ∀ v, (k, v) ∉ ps := fun v hv => h v (by simp [hv])
    simp [Meta.get, h1, ih h2]

theorem Meta.get_append (a b : Meta) (k : Key) :
    Meta.get (a ++ b) k = oor (Meta.get a k) (Meta.get b k) := by
  induction a with
  | nil => simp [Meta.get, oor]
  | cons p ps ih =>
    obtain ⟨k', v⟩ := p
    by_cases h : k' = k <;> simp [Meta.get, h, oor, ih]

theorem Meta.get_filter (a : Meta) (f : Key → Bool) (k : Key) :
    Meta.get (a.filter (fun p => f p.1)) k = if f k then Meta.get a k else none := by
  induction a with
  | nil => simp [Meta.get]
  | cons p ps ih =>
    obtain ⟨k', v⟩ := p
    by_cases hf : f k' = true
    · by_cases h : k' = k
      · subst h; simp [hf, Meta.get]
      · simp [hf, Meta.get, h, ih]
    · by_cases h : k' = k
      · subst h; simp [hf, ih]
      · simp [hf, Meta.get, h, ih]

/-- the key loop of `_Metadata.merge` passes iff the two dicts agree on every non-skipped key -/
theorem Meta.agree_iff (skip : List Key) (a b : Meta) :
    Meta.agree skip a b = true ↔ ∀ k, k ∉ skip → Meta.get a k = Meta.get b k := by
  unfold Meta.agree
  rw [List.all_eq_true]
  constructor
  · intro h k hk
    by_cases hm : (∃ x, (k, x) ∈ a) ∨ ∃ x, (k, x) ∈ b
    · have := h k (by simp [List.mem_filter, hm, hk])
      simpa using this
    · simp only [not_or, not_exists] at hm
      rw [Meta.get_none_of_not_mem a k hm.1, Meta.get_none_of_not_mem b k hm.2]
  · intro h k hk
    simp only [List.mem_filter] at hk
    have : k ∉ skip := by simpa using hk.2
    simpa using h k this


/-- two metadata dicts with the same content (same value, or both absent, under every key) -/
def Meta.Eqv (a b : Meta) : Prop := ∀ k, Meta.get a k = Meta.get b k

theorem Meta.Eqv.nil_iff {a b : Meta} (h : Meta.Eqv a b) : a = [] ↔ b = [] := by
  rw [← Meta.get_nil_iff a, ← Meta.get_nil_iff b]
  constructor
  · intro ha k; rw [← h k]; exact ha k
  · intro hb k; rw [h k]; exact hb k

/-- nuclide-level metadata (`NuclideMetadata`, no skipped keys): an empty dict takes the other one,
two non-empty dicts must agree under every key -/
def metaAlg : Alg Meta where
  wf := fun _ => True
  eqv := Meta.Eqv
  compat := fun a b => a = [] ∨ b = [] ∨ Meta.Eqv a b
  join := fun a b => if a = [] then b else a

theorem metaAlg_laws : metaAlg.Laws where
  refl := fun _ _ => rfl
  symm := fun h k => (h k).symm
  trans := fun h1 h2 k => (h1 k).trans (h2 k)
  wf_join := fun _ _ _ => trivial
  compat_congr := by
    intro a a' b _ _ _ h hc
    rcases hc with ha | hb | he
    · exact Or.inl (h.nil_iff.mp ha)
    · exact Or.inr (Or.inl hb)
    · exact Or.inr (Or.inr (fun k => (h k).symm.trans (he k)))
  join_congr := by
    intro a a' b _ _ _ h _
    show Meta.Eqv (if a = [] then b else a) (if a' = [] then b else a')
    by_cases ha : a = []
    · have ha' := h.nil_iff.mp ha
      simp [ha, ha']; exact fun _ => rfl
    · have ha' : a' ≠ [] := fun e => ha (h.nil_iff.mpr e)
      simp [ha, ha']; exact h
  swap_compat := by
    intro x y z _ _ _ h1 h2
    change (x = [] ∨ y = [] ∨ Meta.Eqv x y) at h1
    change ((if x = [] then y else x) = [] ∨ z = [] ∨ Meta.Eqv (if x = [] then y else x) z) at h2
    change (x = [] ∨ z = [] ∨ Meta.Eqv x z) ∧
      ((if x = [] then z else x) = [] ∨ y = [] ∨ Meta.Eqv (if x = [] then z else x) y)
    by_cases hx : x = []
    · have e : ∀ w : Meta, (if x = [] then w else x) = w := fun w => by simp [hx]
      rw [e] at h2; rw [e]
      refine ⟨Or.inl hx, ?_⟩
      rcases h2 with hy | hz | he
      · exact Or.inr (Or.inl hy)
      · exact Or.inl hz
      · exact Or.inr (Or.inr (fun k => (he k).symm))
    · have e : ∀ w : Meta, (if x = [] then w else x) = x := fun w => by simp [hx]
      rw [e] at h2; rw [e]
      refine ⟨?_, ?_⟩
      · rcases h2 with h | h | h
        · exact absurd h hx
        · exact Or.inr (Or.inl h)
        · exact Or.inr (Or.inr h)
      · rcases h1 with h | h | h
        · exact absurd h hx
        · exact Or.inr (Or.inl h)
        · exact Or.inr (Or.inr h)
  swap_join := by
    intro x y z _ _ _ h1 h2
    change (x = [] ∨ y = [] ∨ Meta.Eqv x y) at h1
    change ((if x = [] then y else x) = [] ∨ z = [] ∨ Meta.Eqv (if x = [] then y else x) z) at h2
    change Meta.Eqv (if (if x = [] then y else x) = [] then z else (if x = [] then y else x))
      (if (if x = [] then z else x) = [] then y else (if x = [] then z else x))
    by_cases hx : x = []
    · have e : ∀ w : Meta, (if x = [] then w else x) = w := fun w => by simp [hx]
      rw [e] at h2; rw [e, e]
      by_cases hy : y = []
      · by_cases hz : z = []
        · simp [hy, hz]; exact fun _ => rfl
        · simp [hy, hz]; exact fun _ => rfl
      · by_cases hz : z = []
        · simp [hy, hz]; exact fun _ => rfl
        · simp only [hy, hz, if_false]
          rcases h2 with h | h | h
          · exact absurd h hy
          · exact absurd h hz
          · exact h
    · have e : ∀ w : Meta, (if x = [] then w else x) = x := fun w => by simp [hx]
      rw [e, e]; simp only [hx, if_false]; exact fun _ => rfl
  comm_compat := by
    intro a b _ _ h
    rcases h with h | h | h
    · exact Or.inr (Or.inl h)
    · exact Or.inl h
    · exact Or.inr (Or.inr (fun k => (h k).symm))
  comm_join := by
    intro a b _ _ h
    simp only [metaAlg] at h ⊢
    by_cases ha : a = [] <;> by_cases hb : b = [] <;> simp_all [Meta.Eqv]

theorem Meta.merge_nil_skip_ok (a b r : Meta) (h : Meta.merge [] a b = some r) :
    metaAlg.compat a b ∧ r = metaAlg.join a b := by
  unfold Meta.merge at h
  cases a with
  | nil =>
    simp [Meta.update] at h
    subst h
    exact ⟨Or.inl rfl, by simp [metaAlg]⟩
  | cons p ps =>
    cases b with
    | nil =>
      simp [Meta.update, Meta.get] at h
      subst h
      exact ⟨Or.inr (Or.inl rfl), by simp [metaAlg]⟩
    | cons q qs =>
      simp only [List.isEmpty_cons, Bool.or_self, Bool.false_eq_true, if_false] at h
      split at h
      · rename_i hag
        simp at h
        subst h
        refine ⟨Or.inr (Or.inr ?_), by simp [metaAlg]⟩
        intro k
        exact (Meta.agree_iff [] _ _).mp hag k (by simp)
      · simp at h

theorem Meta.merge_nil_skip_of_compat (a b : Meta) (h : metaAlg.compat a b) :
    Meta.merge [] a b = some (metaAlg.join a b) := by
  unfold Meta.merge
  cases a with
  | nil => simp [Meta.update, metaAlg]
  | cons p ps =>
    cases b with
    | nil => simp [Meta.update, Meta.get, metaAlg]
    | cons q qs =>
      have hag : Meta.agree [] (p :: ps) (q :: qs) = true := by
        rw [Meta.agree_iff]
        rcases h with h | h | h
        · simp at h
        · simp at h
        · exact fun k _ => h k
      simp [hag, metaAlg]


/-! ### the five production / heating attributes -/

def compatAttrs : List (Option Val) → List (Option Val) → Prop
  | a :: as, b :: bs => (a = none ∨ b = none) ∧ compatAttrs as bs
  | _, _ => True

def joinAttrs : List (Option Val) → List (Option Val) → List (Option Val)
  | a :: as, b :: bs => oor a b :: joinAttrs as bs
  | as, _ => as

theorem joinAttrs_nil_right (a : List (Option Val)) : joinAttrs a [] = a := by
  cases a <;> rfl

theorem joinAttrs_length : ∀ (a b : List (Option Val)), (joinAttrs a b).length = a.length := by
  intro a
  induction a with
  | nil => intro b; rfl
  | cons x xs ih => intro b; cases b <;> simp [joinAttrs, ih]

theorem mergeAttrs_ok : ∀ (a b : List (Option Val)), (mergeAttrs a b).1 = true →
    compatAttrs a b ∧ (mergeAttrs a b).2 = joinAttrs a b := by
  intro a
  induction a with
  | nil => intro b _; cases b <;> simp [mergeAttrs, compatAttrs, joinAttrs]
  | cons x xs ih =>
    intro b h
    cases b with
    | nil => simp [mergeAttrs, compatAttrs, joinAttrs]
    | cons y ys =>
      cases x <;> cases y <;> simp_all [mergeAttrs, compatAttrs, joinAttrs]

theorem mergeAttrs_of_compat : ∀ (a b : List (Option Val)), compatAttrs a b →
    mergeAttrs a b = (true, joinAttrs a b) := by
  intro a
  induction a with
  | nil => intro b _; cases b <;> simp [mergeAttrs, joinAttrs]
  | cons x xs ih =>
    intro b h
    cases b with
    | nil => simp [mergeAttrs, joinAttrs]
    | cons y ys =>
      have := ih ys h.2
      cases x <;> cases y <;> simp_all [mergeAttrs, compatAttrs, joinAttrs]

def attrsAlg : Alg (List (Option Val)) where
  wf := fun a => a.length = 5
  eqv := Eq
  compat := compatAttrs
  join := joinAttrs

theorem attrs_swap : ∀ (x y z : List (Option Val)), compatAttrs x y → compatAttrs (joinAttrs x y) z →
    (compatAttrs x z ∧ compatAttrs (joinAttrs x z) y) ∧
      joinAttrs (joinAttrs x y) z = joinAttrs (joinAttrs x z) y := by
  intro x
  induction x with
  | nil => intro y z _ _; cases y <;> cases z <;> simp [compatAttrs, joinAttrs]
  | cons a as ih =>
    intro y z h1 h2
    cases y with
    | nil =>
      cases z with
      | nil => simp [compatAttrs, joinAttrs]
      | cons c cs =>
        simp only [joinAttrs_nil_right] at h2 ⊢
        simp only [joinAttrs] at h2 ⊢
        exact ⟨⟨h2, by simp [compatAttrs]⟩, trivial⟩
    | cons b bs =>
      cases z with
      | nil =>
        simp only [joinAttrs_nil_right]
        exact ⟨⟨by simp [compatAttrs], h1⟩, trivial⟩
      | cons c cs =>
        simp only [joinAttrs, compatAttrs] at h1 h2 ⊢
        obtain ⟨⟨k1, k2⟩, k3⟩ := ih bs cs h1.2 h2.2
        refine ⟨⟨⟨?_, k1⟩, ?_, k2⟩, ?_⟩
        · cases a <;> cases b <;> cases c <;> simp_all [oor]
        · cases a <;> cases b <;> cases c <;> simp_all [oor]
        · rw [k3]
          cases a <;> cases b <;> cases c <;> simp_all [oor]

theorem attrs_comm : ∀ (x y : List (Option Val)), x.length = y.length → compatAttrs x y →
    compatAttrs y x ∧ joinAttrs x y = joinAttrs y x := by
  intro x
  induction x with
  | nil => intro y hl _; cases y <;> simp_all [compatAttrs, joinAttrs]
  | cons a as ih =>
    intro y hl h
    cases y with
    | nil => simp at hl
    | cons b bs =>
      obtain ⟨k1, k2⟩ := ih bs (by simpa using hl) h.2
      simp only [compatAttrs, joinAttrs] at h ⊢
      refine ⟨⟨h.1.symm, k1⟩, ?_⟩
      rw [k2]
      cases a <;> cases b <;> simp_all [oor]

theorem attrsAlg_laws : attrsAlg.Laws where
  refl := fun _ => rfl
  symm := fun h => h.symm
  trans := fun h1 h2 => h1.trans h2
  wf_join := by intro a b ha _ _; show (joinAttrs a b).length = 5; rw [joinAttrs_length]; exact ha
  compat_congr := by intro a a' b _ _ _ h hc; cases h; exact hc
  join_congr := by intro a a' b _ _ _ h _; cases h; rfl
  swap_compat := fun _ _ _ h1 h2 => (attrs_swap _ _ _ h1 h2).1
  swap_join := fun _ _ _ h1 h2 => (attrs_swap _ _ _ h1 h2).2
  comm_compat := fun ha hb h => (attrs_comm _ _ (ha.trans hb.symm) h).1
  comm_join := fun ha hb h => (attrs_comm _ _ (ha.trans hb.symm) h).2

theorem Coll.merge_ok (a b r : Coll) (h : Coll.merge a b = some r) :
    (slotAlg _).compat a b ∧ r = oor a b := by
  cases a <;> cases b <;> simp_all [Coll.merge, slotAlg, oor]

theorem Coll.merge_of_compat (a b : Coll) (h : (slotAlg _).compat a b) : Coll.merge a b = some (oor a b) := by
  cases a <;> cases b <;> simp_all [Coll.merge, slotAlg, oor]


/-! ### products and transport -/

def Alg.prod {α β : Type} (A : Alg α) (B : Alg β) : Alg (α × β) where
  wf := fun p => A.wf p.1 ∧ B.wf p.2
  eqv := fun p q => A.eqv p.1 q.1 ∧ B.eqv p.2 q.2
  compat := fun p q => A.compat p.1 q.1 ∧ B.compat p.2 q.2
  join := fun p q => (A.join p.1 q.1, B.join p.2 q.2)

theorem Alg.Laws.prod {α β : Type} {A : Alg α} {B : Alg β} (hA : A.Laws) (hB : B.Laws) : (A.prod B).Laws where
  refl := fun p => ⟨hA.refl p.1, hB.refl p.2⟩
  symm := fun h => ⟨hA.symm h.1, hB.symm h.2⟩
  trans := fun h1 h2 => ⟨hA.trans h1.1 h2.1, hB.trans h1.2 h2.2⟩
  wf_join := fun wa wb h => ⟨hA.wf_join wa.1 wb.1 h.1, hB.wf_join wa.2 wb.2 h.2⟩
  compat_congr := fun wa wa' wb h hc =>
    ⟨hA.compat_congr wa.1 wa'.1 wb.1 h.1 hc.1, hB.compat_congr wa.2 wa'.2 wb.2 h.2 hc.2⟩
  join_congr := fun wa wa' wb h hc =>
    ⟨hA.join_congr wa.1 wa'.1 wb.1 h.1 hc.1, hB.join_congr wa.2 wa'.2 wb.2 h.2 hc.2⟩
  swap_compat := fun wx wy wz h1 h2 =>
    ⟨⟨(hA.swap_compat wx.1 wy.1 wz.1 h1.1 h2.1).1, (hB.swap_compat wx.2 wy.2 wz.2 h1.2 h2.2).1⟩,
     ⟨(hA.swap_compat wx.1 wy.1 wz.1 h1.1 h2.1).2, (hB.swap_compat wx.2 wy.2 wz.2 h1.2 h2.2).2⟩⟩
  swap_join := fun wx wy wz h1 h2 =>
    ⟨hA.swap_join wx.1 wy.1 wz.1 h1.1 h2.1, hB.swap_join wx.2 wy.2 wz.2 h1.2 h2.2⟩
  comm_compat := fun wa wb h => ⟨hA.comm_compat wa.1 wb.1 h.1, hB.comm_compat wa.2 wb.2 h.2⟩
  comm_join := fun wa wb h => ⟨hA.comm_join wa.1 wb.1 h.1, hB.comm_join wa.2 wb.2 h.2⟩

def Alg.comap {α γ : Type} (A : Alg α) (f : γ → α) (g : α → γ) : Alg γ where
  wf := fun c => A.wf (f c)
  eqv := fun c d => A.eqv (f c) (f d)
  compat := fun c d => A.compat (f c) (f d)
  join := fun c d => g (A.join (f c) (f d))

theorem Alg.Laws.comap {α γ : Type} {A : Alg α} (hA : A.Laws) (f : γ → α) (g : α → γ)
    (hfg : ∀ x, f (g x) = x) : (A.comap f g).Laws where
  refl := fun c => hA.refl (f c)
  symm := fun h => hA.symm h
  trans := fun h1 h2 => hA.trans h1 h2
  wf_join := by
    intro a b wa wb h
    show A.wf (f (g (A.join (f a) (f b))))
    rw [hfg]; exact hA.wf_join wa wb h
  compat_congr := fun wa wa' wb h hc => hA.compat_congr wa wa' wb h hc
  join_congr := by
    intro a a' b wa wa' wb h hc
    show A.eqv (f (g (A.join (f a) (f b)))) (f (g (A.join (f a') (f b))))
    rw [hfg, hfg]; exact hA.join_congr wa wa' wb h hc
  swap_compat := by
    intro x y z wx wy wz h1 h2
    have h2' : A.compat (A.join (f x) (f y)) (f z) := by
      have : A.compat (f (g (A.join (f x) (f y)))) (f z) := h2
      rwa [hfg] at this
    obtain ⟨k1, k2⟩ := hA.swap_compat wx wy wz h1 h2'
    refine ⟨k1, ?_⟩
    show A.compat (f (g (A.join (f x) (f z)))) (f y)
    rw [hfg]; exact k2
  swap_join := by
    intro x y z wx wy wz h1 h2
    have h2' : A.compat (A.join (f x) (f y)) (f z) := by
      have : A.compat (f (g (A.join (f x) (f y)))) (f z) := h2
      rwa [hfg] at this
    show A.eqv (f (g (A.join (f (g (A.join (f x) (f y)))) (f z))))
      (f (g (A.join (f (g (A.join (f x) (f z)))) (f y))))
    rw [hfg, hfg, hfg, hfg]; exact hA.swap_join wx wy wz h1 h2'
  comm_compat := fun wa wb h => hA.comm_compat wa wb h
  comm_join := by
    intro a b wa wb h
    show A.eqv (f (g (A.join (f a) (f b)))) (f (g (A.join (f b) (f a))))
    rw [hfg, hfg]; exact hA.comm_join wa wb h

/-! ### `XSNuclide` -/

abbrev NucT := Meta × Meta × Meta × Coll × Coll × List (Option Val)

def Nuc.toT (n : Nuc) : NucT := (n.iso, n.gam, n.pm, n.micros, n.gamma, n.attrs)
def Nuc.ofT (t : NucT) : Nuc := ⟨t.1, t.2.1, t.2.2.1, t.2.2.2.1, t.2.2.2.2.1, t.2.2.2.2.2⟩

def nucTAlg : Alg NucT :=
  metaAlg.prod (metaAlg.prod (metaAlg.prod ((slotAlg _).prod ((slotAlg _).prod attrsAlg))))

/-- content / compatibility / merged value of a nuclide: field by field -/
def nucAlg : Alg Nuc := nucTAlg.comap Nuc.toT Nuc.ofT

theorem nucAlg_laws : nucAlg.Laws :=
  Alg.Laws.comap
    (metaAlg_laws.prod (metaAlg_laws.prod (metaAlg_laws.prod
      ((slotAlg_laws _).prod ((slotAlg_laws _).prod attrsAlg_laws)))))
    Nuc.toT Nuc.ofT (fun _ => rfl)

/-- **`XSNuclide.merge` succeeds exactly on compatible nuclides and then holds the field-wise join** -/
theorem Nuc.merge_ok (t o : Nuc) (h : (Nuc.merge t o).1 = true) :
    nucAlg.compat t o ∧ (Nuc.merge t o).2 = nucAlg.join t o := by
  unfold Nuc.merge at h ⊢
  cases h1 : Meta.merge [] t.iso o.iso with
  | none => simp [h1] at h
  | some m1 =>
    simp only [h1] at h ⊢
    cases h2 : Meta.merge [] t.gam o.gam with
    | none => simp [h2] at h
    | some m2 =>
      simp only [h2] at h ⊢
      cases h3 : Meta.merge [] t.pm o.pm with
      | none => simp [h3] at h
      | some m3 =>
        simp only [h3] at h ⊢
        cases h4 : Coll.merge t.micros o.micros with
        | none => simp [h4] at h
        | some c1 =>
          simp only [h4] at h ⊢
          cases h5 : Coll.merge t.gamma o.gamma with
          | none => simp [h5] at h
          | some c2 =>
            simp only [h5] at h ⊢
            obtain ⟨a1, rfl⟩ := Meta.merge_nil_skip_ok _ _ _ h1
            obtain ⟨a2, rfl⟩ := Meta.merge_nil_skip_ok _ _ _ h2
            obtain ⟨a3, rfl⟩ := Meta.merge_nil_skip_ok _ _ _ h3
            obtain ⟨a4, rfl⟩ := Coll.merge_ok _ _ _ h4
            obtain ⟨a5, rfl⟩ := Coll.merge_ok _ _ _ h5
            obtain ⟨a6, e6⟩ := mergeAttrs_ok t.attrs o.attrs h
            refine ⟨⟨a1, a2, a3, a4, a5, a6⟩, ?_⟩
            simp only [e6]
            rfl

theorem Nuc.merge_of_compat (t o : Nuc) (h : nucAlg.compat t o) :
    Nuc.merge t o = (true, nucAlg.join t o) := by
  obtain ⟨a1, a2, a3, a4, a5, a6⟩ := h
  have e1 := Meta.merge_nil_skip_of_compat t.iso o.iso a1
  have e2 := Meta.merge_nil_skip_of_compat t.gam o.gam a2
  have e3 := Meta.merge_nil_skip_of_compat t.pm o.pm a3
  have e4 := Coll.merge_of_compat t.micros o.micros a4
  have e5 := Coll.merge_of_compat t.gamma o.gamma a5
  have e6 := mergeAttrs_of_compat t.attrs o.attrs a6
  unfold Nuc.merge
  simp only [e1, e2, e3, e4, e5, e6]
  rfl


/-! ### optional values (a label present on one side only) and label-keyed maps -/

def Alg.opt {α : Type} (A : Alg α) : Alg (Option α) where
  wf := fun o => ∀ a, o = some a → A.wf a
  eqv := fun o o' => match o, o' with
    | none, none => True
    | some a, some b => A.eqv a b
    | _, _ => False
  compat := fun o o' => ∀ a b, o = some a → o' = some b → A.compat a b
  join := fun o o' => match o, o' with
    | some a, some b => some (A.join a b)
    | some a, none => some a
    | none, b => b

theorem Alg.Laws.opt {α : Type} {A : Alg α} (hA : A.Laws) : A.opt.Laws where
  refl := by intro a; cases a <;> simp [Alg.opt, hA.refl]
  symm := by
    intro a b h
    cases a <;> cases b <;> simp_all [Alg.opt]
    exact hA.symm h
  trans := by
    intro a b c h1 h2
    cases a <;> cases b <;> cases c <;> simp_all [Alg.opt]
    exact hA.trans h1 h2
  wf_join := by
    intro a b wa wb h
    cases a <;> cases b <;> simp_all [Alg.opt]
    exact hA.wf_join wa wb h
  compat_congr := by
    intro a a' b wa wa' wb h hc
    cases a <;> cases a' <;> cases b <;> simp_all [Alg.opt]
    exact hA.compat_congr wa wa' wb h hc
  join_congr := by
    intro a a' b wa wa' wb h hc
    cases a <;> cases a' <;> cases b <;> simp_all [Alg.opt]
    · exact hA.refl _
    · exact hA.join_congr wa wa' wb h hc
  swap_compat := by
    intro x y z wx wy wz h1 h2
    cases x <;> cases y <;> cases z <;> simp_all [Alg.opt]
    · exact hA.comm_compat wy wz h2
    · exact hA.swap_compat wx wy wz h1 h2
  swap_join := by
    intro x y z wx wy wz h1 h2
    cases x <;> cases y <;> cases z <;> simp_all [Alg.opt]
    all_goals first
      | exact hA.refl _
      | exact hA.comm_join wy wz h2
      | exact hA.swap_join wx wy wz h1 h2
  comm_compat := by
    intro a b wa wb h
    cases a <;> cases b <;> simp_all [Alg.opt]
    exact hA.comm_compat wa wb h
  comm_join := by
    intro a b wa wb h
    cases a <;> cases b <;> simp_all [Alg.opt]
    · exact hA.refl _
    · exact hA.refl _
    · exact hA.comm_join wa wb h


def Nucs.labels (m : Nucs) : List Label := m.map Prod.fst

/-- the pure counterpart of `_mergeNuclides`: other's nuclides in other's order, joined or appended -/
def Nucs.joinWith (A : Alg Nuc) (t : Nucs) : Nucs → Nucs
  | [] => t
  | (l, n) :: rest =>
    match Nucs.find t l with
    | some tn => Nucs.joinWith A (Nucs.replace t l (A.join tn n)) rest
    | none => Nucs.joinWith A (t ++ [(l, n)]) rest

theorem Nucs.find_none_iff (m : Nucs) (l : Label) : Nucs.find m l = none ↔ l ∉ m.labels := by
  induction m with
  | nil => simp [Nucs.find, Nucs.labels]
  | cons p ps ih =>
    obtain ⟨l', n⟩ := p
    by_cases h : l' = l
    · subst h; simp [Nucs.find, Nucs.labels]
    · have h' : ¬ l = l' := fun e => h e.symm
      simp only [Nucs.find, h, if_false, ih]
      simp [Nucs.labels, h']

theorem Nucs.find_append (a b : Nucs) (l : Label) :
    Nucs.find (a ++ b) l = oor (Nucs.find a l) (Nucs.find b l) := by
  induction a with
  | nil => simp [Nucs.find, oor]
  | cons p ps ih =>
    obtain ⟨l', n⟩ := p
    by_cases h : l' = l <;> simp [Nucs.find, h, oor, ih]

theorem Nucs.find_replace (m : Nucs) (l0 : Label) (x : Nuc) (l : Label) :
    Nucs.find (Nucs.replace m l0 x) l = if l = l0 then (Nucs.find m l0).map (fun _ => x) else Nucs.find m l := by
  induction m with
  | nil => simp [Nucs.find, Nucs.replace]
  | cons p ps ih =>
    obtain ⟨l', n⟩ := p
    by_cases h0 : l' = l0
    · subst h0
      by_cases h : l = l'
      · subst h; simp [Nucs.replace, Nucs.find]
      · have h' : ¬ l' = l := fun e => h e.symm
        simp [Nucs.replace, Nucs.find, h, h']
    · by_cases h : l = l0
      · subst h
        simp [Nucs.replace, Nucs.find, h0, ih]
      · by_cases h1 : l' = l
        · simp [Nucs.replace, Nucs.find, h, h1]
        · simp [Nucs.replace, Nucs.find, h0, h, h1, ih]

theorem Nucs.labels_replace (m : Nucs) (l0 : Label) (x : Nuc) : (Nucs.replace m l0 x).labels = m.labels := by
  induction m with
  | nil => rfl
  | cons p ps ih =>
    obtain ⟨l', n⟩ := p
    by_cases h0 : l' = l0
    · simp [Nucs.replace, h0, Nucs.labels]
    · simp only [Nucs.replace, h0, if_false]
      simp only [Nucs.labels, List.map_cons] at ih ⊢
      rw [ih]

/-- **find-level characterisation of the merged nuclide map** -/
theorem Nucs.find_joinWith (A : Alg Nuc) : ∀ (o t : Nucs), o.labels.Nodup → ∀ l,
    Nucs.find (Nucs.joinWith A t o) l = A.opt.join (Nucs.find t l) (Nucs.find o l) := by
  intro o
  induction o with
  | nil => intro t _ l; cases h : Nucs.find t l <;> simp [Nucs.joinWith, Nucs.find, Alg.opt, h]
  | cons p rest ih =>
    obtain ⟨l0, n⟩ := p
    intro t hnd l
    have hnd' : (Nucs.labels rest).Nodup := by
      simp only [Nucs.labels, List.map_cons, List.nodup_cons] at hnd; exact hnd.2
    have hl0 : Nucs.find rest l0 = none := by
      rw [Nucs.find_none_iff]
      simp only [Nucs.labels, List.map_cons, List.nodup_cons] at hnd; exact hnd.1
    cases ht : Nucs.find t l0 with
    | some tn =>
      simp only [Nucs.joinWith, ht]
      rw [ih _ hnd' l, Nucs.find_replace]
      by_cases h : l = l0
      · subst h; simp [ht, hl0, Nucs.find, Alg.opt]
      · have h' : ¬ l0 = l := fun e => h e.symm
        simp [h, h', Nucs.find]
    | none =>
      simp only [Nucs.joinWith, ht]
      rw [ih _ hnd' l, Nucs.find_append]
      by_cases h : l = l0
      · subst h; simp [ht, hl0, Nucs.find, Alg.opt, oor]
      · have h' : ¬ l0 = l := fun e => h e.symm
        cases hf : Nucs.find t l <;> simp [h', Nucs.find, oor]

/-- **labels of the merged map: the target's labels, then the other's new labels in the other's order** -/
theorem Nucs.labels_joinWith (A : Alg Nuc) : ∀ (o t : Nucs), o.labels.Nodup →
    (Nucs.joinWith A t o).labels = t.labels ++ o.labels.filter (fun l => decide (l ∉ t.labels)) := by
  intro o
  induction o with
  | nil => intro t _; simp [Nucs.joinWith, Nucs.labels]
  | cons p rest ih =>
    obtain ⟨l0, n⟩ := p
    intro t hnd
    have hnd' : (Nucs.labels rest).Nodup := by
      simp only [Nucs.labels, List.map_cons, List.nodup_cons] at hnd; exact hnd.2
    have hl0 : l0 ∉ Nucs.labels rest := by
      simp only [Nucs.labels, List.map_cons, List.nodup_cons] at hnd; exact hnd.1
    cases ht : Nucs.find t l0 with
    | some tn =>
      have hin : l0 ∈ t.labels := by
        refine Classical.byContradiction fun hc => ?_
        rw [← Nucs.find_none_iff] at hc; rw [hc] at ht; cases ht
      simp only [Nucs.joinWith, ht]
      rw [ih _ hnd', Nucs.labels_replace]
      simp [Nucs.labels, List.filter_cons] at hin ⊢
      simp [hin]
    | none =>
      have hnin : l0 ∉ t.labels := (Nucs.find_none_iff t l0).mp ht
      simp only [Nucs.joinWith, ht]
      rw [ih _ hnd']
      have e1 : (t ++ [(l0, n)]).labels = t.labels ++ [l0] := by simp [Nucs.labels]
      have e2 : Nucs.labels ((l0, n) :: rest) = l0 :: Nucs.labels rest := by simp [Nucs.labels]
      rw [e1, e2, List.filter_cons]
      simp only [hnin, not_false_eq_true, decide_true, if_true, List.append_assoc, List.singleton_append]
      congr 2
      apply List.filter_congr
      intro x hx
      have : x ≠ l0 := fun e => hl0 (e ▸ hx)
      simp [this]


/-- label-keyed maps of nuclides: content = label-wise content -/
def mapAlg (A : Alg Nuc) : Alg Nucs where
  wf := fun m => (Nucs.labels m).Nodup ∧ ∀ l, A.opt.wf (Nucs.find m l)
  eqv := fun m m' => ∀ l, A.opt.eqv (Nucs.find m l) (Nucs.find m' l)
  compat := fun m o => ∀ l, A.opt.compat (Nucs.find m l) (Nucs.find o l)
  join := Nucs.joinWith A

theorem mapAlg_laws {A : Alg Nuc} (hA : A.Laws) : (mapAlg A).Laws where
  refl := fun m l => hA.opt.refl _
  symm := fun h l => hA.opt.symm (h l)
  trans := fun h1 h2 l => hA.opt.trans (h1 l) (h2 l)
  wf_join := by
    intro a b wa wb h
    refine ⟨?_, fun l => ?_⟩
    · show (Nucs.labels (Nucs.joinWith A a b)).Nodup
      rw [Nucs.labels_joinWith A b a wb.1]
      rw [List.nodup_append]
      refine ⟨wa.1, List.Nodup.sublist List.filter_sublist wb.1, ?_⟩
      intro x hx y hy hxy
      subst hxy
      simp only [List.mem_filter] at hy
      exact (by simpa using hy.2 : x ∉ Nucs.labels a) hx
    · show A.opt.wf (Nucs.find (Nucs.joinWith A a b) l)
      rw [Nucs.find_joinWith A b a wb.1]
      exact hA.opt.wf_join (wa.2 l) (wb.2 l) (h l)
  compat_congr := fun wa wa' wb h hc l => hA.opt.compat_congr (wa.2 l) (wa'.2 l) (wb.2 l) (h l) (hc l)
  join_congr := by
    intro a a' b wa wa' wb h hc l
    show A.opt.eqv (Nucs.find (Nucs.joinWith A a b) l) (Nucs.find (Nucs.joinWith A a' b) l)
    rw [Nucs.find_joinWith A b a wb.1, Nucs.find_joinWith A b a' wb.1]
    exact hA.opt.join_congr (wa.2 l) (wa'.2 l) (wb.2 l) (h l) (hc l)
  swap_compat := by
    intro x y z wx wy wz h1 h2
    have h2' : ∀ l, A.opt.compat (A.opt.join (Nucs.find x l) (Nucs.find y l)) (Nucs.find z l) := by
      intro l
      have := h2 l
      change A.opt.compat (Nucs.find (Nucs.joinWith A x y) l) (Nucs.find z l) at this
      rwa [Nucs.find_joinWith A y x wy.1] at this
    refine ⟨fun l => (hA.opt.swap_compat (wx.2 l) (wy.2 l) (wz.2 l) (h1 l) (h2' l)).1, fun l => ?_⟩
    show A.opt.compat (Nucs.find (Nucs.joinWith A x z) l) (Nucs.find y l)
    rw [Nucs.find_joinWith A z x wz.1]
    exact (hA.opt.swap_compat (wx.2 l) (wy.2 l) (wz.2 l) (h1 l) (h2' l)).2
  swap_join := by
    intro x y z wx wy wz h1 h2 l
    have h2' : A.opt.compat (A.opt.join (Nucs.find x l) (Nucs.find y l)) (Nucs.find z l) := by
      have := h2 l
      change A.opt.compat (Nucs.find (Nucs.joinWith A x y) l) (Nucs.find z l) at this
      rwa [Nucs.find_joinWith A y x wy.1] at this
    show A.opt.eqv (Nucs.find (Nucs.joinWith A (Nucs.joinWith A x y) z) l)
      (Nucs.find (Nucs.joinWith A (Nucs.joinWith A x z) y) l)
    rw [Nucs.find_joinWith A z _ wz.1, Nucs.find_joinWith A y x wy.1, Nucs.find_joinWith A y _ wy.1,
      Nucs.find_joinWith A z x wz.1]
    exact hA.opt.swap_join (wx.2 l) (wy.2 l) (wz.2 l) (h1 l) h2'
  comm_compat := fun wa wb h l => hA.opt.comm_compat (wa.2 l) (wb.2 l) (h l)
  comm_join := by
    intro a b wa wb h l
    show A.opt.eqv (Nucs.find (Nucs.joinWith A a b) l) (Nucs.find (Nucs.joinWith A b a) l)
    rw [Nucs.find_joinWith A b a wb.1, Nucs.find_joinWith A a b wa.1]
    exact hA.opt.comm_join (wa.2 l) (wb.2 l) (h l)

/-- **`_mergeNuclides` succeeds exactly when every common label holds compatible nuclides, and then
the target is the label-wise join** -/
theorem mergeNucs_ok : ∀ (o t : Nucs), (Nucs.labels o).Nodup → (mergeNucs t o).1 = true →
    (mapAlg nucAlg).compat t o ∧ (mergeNucs t o).2 = Nucs.joinWith nucAlg t o := by
  intro o
  induction o with
  | nil => intro t _ _; exact ⟨fun l a b _ hb => by simp [Nucs.find] at hb, rfl⟩
  | cons p rest ih =>
    obtain ⟨l0, n⟩ := p
    intro t hnd h
    have hnd' : (Nucs.labels rest).Nodup := by
      simp only [Nucs.labels, List.map_cons, List.nodup_cons] at hnd; exact hnd.2
    have hl0 : Nucs.find rest l0 = none := by
      rw [Nucs.find_none_iff]
      simp only [Nucs.labels, List.map_cons, List.nodup_cons] at hnd; exact hnd.1
    cases ht : Nucs.find t l0 with
    | some tn =>
      simp only [mergeNucs, ht] at h ⊢
      by_cases hm : (Nuc.merge tn n).1 = true
      · simp only [hm, if_true] at h ⊢
        obtain ⟨c1, e1⟩ := Nuc.merge_ok tn n hm
        rw [e1] at h ⊢
        obtain ⟨c2, e2⟩ := ih _ hnd' h
        refine ⟨fun l a b ha hb => ?_, by simp only [Nucs.joinWith, ht]; exact e2⟩
        by_cases hl : l = l0
        · subst hl
          rw [ht] at ha; simp [Nucs.find] at hb
          cases ha; cases hb; exact c1
        · have hl' : ¬ l0 = l := fun e => hl e.symm
          simp only [Nucs.find, hl', if_false] at hb
          refine c2 l a b ?_ hb
          rw [Nucs.find_replace]; simp [hl, ha]
      · simp [hm] at h
    | none =>
      simp only [mergeNucs, ht] at h ⊢
      obtain ⟨c2, e2⟩ := ih _ hnd' h
      refine ⟨fun l a b ha hb => ?_, by simp only [Nucs.joinWith, ht]; exact e2⟩
      by_cases hl : l = l0
      · subst hl; rw [ht] at ha; cases ha
      · have hl' : ¬ l0 = l := fun e => hl e.symm
        simp only [Nucs.find, hl', if_false] at hb
        refine c2 l a b ?_ hb
        rw [Nucs.find_append, ha]; rfl

theorem mergeNucs_of_compat : ∀ (o t : Nucs), (Nucs.labels o).Nodup → (mapAlg nucAlg).compat t o →
    mergeNucs t o = (true, Nucs.joinWith nucAlg t o) := by
  intro o
  induction o with
  | nil => intro t _ _; rfl
  | cons p rest ih =>
    obtain ⟨l0, n⟩ := p
    intro t hnd hc
    have hnd' : (Nucs.labels rest).Nodup := by
      simp only [Nucs.labels, List.map_cons, List.nodup_cons] at hnd; exact hnd.2
    have hl0 : Nucs.find rest l0 = none := by
      rw [Nucs.find_none_iff]
      simp only [Nucs.labels, List.map_cons, List.nodup_cons] at hnd; exact hnd.1
    cases ht : Nucs.find t l0 with
    | some tn =>
      have c1 : nucAlg.compat tn n := hc l0 tn n ht (by simp [Nucs.find])
      simp only [mergeNucs, Nucs.joinWith, ht, Nuc.merge_of_compat tn n c1, if_true]
      apply ih _ hnd'
      intro l a b ha hb
      rw [Nucs.find_replace] at ha
      by_cases hl : l = l0
      · subst hl; rw [hl0] at hb; cases hb
      · have hl' : ¬ l0 = l := fun e => hl e.symm
        simp only [hl, if_false] at ha
        exact hc l a b ha (by simp [Nucs.find, hl', hb])
    | none =>
      simp only [mergeNucs, Nucs.joinWith, ht]
      apply ih _ hnd'
      intro l a b ha hb
      by_cases hl : l = l0
      · subst hl; rw [hl0] at hb; cases hb
      · have hl' : ¬ l0 = l := fun e => hl e.symm
        rw [Nucs.find_append] at ha
        have ha' : Nucs.find t l = some a := by
          cases hf : Nucs.find t l with
          | some x => rw [hf] at ha; simpa [oor] using ha
          | none => rw [hf] at ha; simp [oor, Nucs.find, hl'] at ha
        exact hc l a b ha' (by simp [Nucs.find, hl', hb])


/-! ### library-level metadata (`NuclideXSMetadata`) -/

/-- pull an algebra back along an abstraction function `f` that commutes with a concrete join `j` -/
def Alg.pull {α γ : Type} (A : Alg α) (f : γ → α) (wf' : γ → Prop) (j : γ → γ → γ) : Alg γ where
  wf := fun c => wf' c ∧ A.wf (f c)
  eqv := fun c d => A.eqv (f c) (f d)
  compat := fun c d => A.compat (f c) (f d)
  join := j

theorem Alg.Laws.pull {α γ : Type} {A : Alg α} (hA : A.Laws) (f : γ → α) (wf' : γ → Prop) (j : γ → γ → γ)
    (hj : ∀ c d, wf' c → wf' d → A.compat (f c) (f d) → f (j c d) = A.join (f c) (f d) ∧ wf' (j c d)) :
    (A.pull f wf' j).Laws where
  refl := fun c => hA.refl (f c)
  symm := fun h => hA.symm h
  trans := fun h1 h2 => hA.trans h1 h2
  wf_join := by
    intro a b wa wb h
    obtain ⟨e, w⟩ := hj a b wa.1 wb.1 h
    refine ⟨w, ?_⟩
    show A.wf (f (j a b))
    rw [e]; exact hA.wf_join wa.2 wb.2 h
  compat_congr := fun wa wa' wb h hc => hA.compat_congr wa.2 wa'.2 wb.2 h hc
  join_congr := by
    intro a a' b wa wa' wb h hc
    have hc' := hA.compat_congr wa.2 wa'.2 wb.2 h hc
    show A.eqv (f (j a b)) (f (j a' b))
    rw [(hj a b wa.1 wb.1 hc).1, (hj a' b wa'.1 wb.1 hc').1]
    exact hA.join_congr wa.2 wa'.2 wb.2 h hc
  swap_compat := by
    intro x y z wx wy wz h1 h2
    have h2' : A.compat (A.join (f x) (f y)) (f z) := by
      have : A.compat (f (j x y)) (f z) := h2
      rwa [(hj x y wx.1 wy.1 h1).1] at this
    obtain ⟨k1, k2⟩ := hA.swap_compat wx.2 wy.2 wz.2 h1 h2'
    refine ⟨k1, ?_⟩
    show A.compat (f (j x z)) (f y)
    rw [(hj x z wx.1 wz.1 k1).1]; exact k2
  swap_join := by
    intro x y z wx wy wz h1 h2
    have h2' : A.compat (A.join (f x) (f y)) (f z) := by
      have : A.compat (f (j x y)) (f z) := h2
      rwa [(hj x y wx.1 wy.1 h1).1] at this
    obtain ⟨k1, k2⟩ := hA.swap_compat wx.2 wy.2 wz.2 h1 h2'
    have k2' : A.compat (f (j x z)) (f y) := by rw [(hj x z wx.1 wz.1 k1).1]; exact k2
    show A.eqv (f (j (j x y) z)) (f (j (j x z) y))
    rw [(hj _ z (hj x y wx.1 wy.1 h1).2 wz.1 h2).1, (hj x y wx.1 wy.1 h1).1,
      (hj _ y (hj x z wx.1 wz.1 k1).2 wy.1 k2').1, (hj x z wx.1 wz.1 k1).1]
    exact hA.swap_join wx.2 wy.2 wz.2 h1 h2'
  comm_compat := fun wa wb h => hA.comm_compat wa.2 wb.2 h
  comm_join := by
    intro a b wa wb h
    have h' := hA.comm_compat wa.2 wb.2 h
    show A.eqv (f (j a b)) (f (j b a))
    rw [(hj a b wa.1 wb.1 h).1, (hj b a wb.1 wa.1 h').1]
    exact hA.comm_join wa.2 wb.2 h

/-- the content of a metadata dict as a function of the key -/
abbrev KeyFn := Key → Option Val
def KeyFn.bot : KeyFn := fun _ => none

open Classical in
/-- dict contents: an empty one takes the other, two non-empty ones must be equal -/
noncomputable def fnAlg : Alg KeyFn where
  wf := fun _ => True
  eqv := Eq
  compat := fun a b => a = KeyFn.bot ∨ b = KeyFn.bot ∨ a = b
  join := fun a b => if a = KeyFn.bot then b else a

theorem fnAlg_laws : fnAlg.Laws where
  refl := fun _ => rfl
  symm := fun h => h.symm
  trans := fun h1 h2 => h1.trans h2
  wf_join := fun _ _ _ => trivial
  compat_congr := by intro a a' b _ _ _ h hc; cases h; exact hc
  join_congr := by intro a a' b _ _ _ h _; cases h; rfl
  swap_compat := by
    intro x y z _ _ _ h1 h2
    simp only [fnAlg] at h1 h2 ⊢
    by_cases hx : x = KeyFn.bot
    · simp only [hx, if_true] at h2 ⊢
      refine ⟨Or.inl trivial, ?_⟩
      rcases h2 with h | h | h
      · exact Or.inr (Or.inl h)
      · exact Or.inl h
      · exact Or.inr (Or.inr h.symm)
    · simp only [hx, if_false, false_or] at h1 h2 ⊢
      exact ⟨h2, h1⟩
  swap_join := by
    intro x y z _ _ _ h1 h2
    simp only [fnAlg] at h1 h2 ⊢
    by_cases hx : x = KeyFn.bot
    · simp only [hx, if_true] at h2 ⊢
      by_cases hy : y = KeyFn.bot <;> by_cases hz : z = KeyFn.bot <;> simp_all
    · simp [hx]
  comm_compat := by
    intro a b _ _ h
    rcases h with h | h | h
    · exact Or.inr (Or.inl h)
    · exact Or.inl h
    · exact Or.inr (Or.inr h.symm)
  comm_join := by
    intro a b _ _ h
    simp only [fnAlg] at h ⊢
    by_cases ha : a = KeyFn.bot <;> by_cases hb : b = KeyFn.bot <;> simp_all

/-- file name lists: concatenated, compared as multisets -/
def filesAlg : Alg (List Nat) where
  wf := fun _ => True
  eqv := List.Perm
  compat := fun _ _ => True
  join := fun a b => a ++ b

theorem filesAlg_laws : filesAlg.Laws where
  refl := fun _ => List.Perm.refl _
  symm := fun h => h.symm
  trans := fun h1 h2 => h1.trans h2
  wf_join := fun _ _ _ => trivial
  compat_congr := fun _ _ _ _ _ => trivial
  join_congr := by intro a a' b _ _ _ h _; exact List.Perm.append h (List.Perm.refl _)
  swap_compat := fun _ _ _ _ _ => ⟨trivial, trivial⟩
  swap_join := by
    intro x y z _ _ _ _ _
    show ((x ++ y) ++ z).Perm ((x ++ z) ++ y)
    rw [List.append_assoc, List.append_assoc]
    exact List.Perm.append (List.Perm.refl _) List.perm_append_comm
  comm_compat := fun _ _ _ => trivial
  comm_join := fun _ _ _ => List.perm_append_comm


/-- the order-independent content of library metadata: the value under every ordinary
(non-skipped) key -/
def FileMeta.ord (a : FileMeta) : KeyFn := fun k => if k ∈ libSkip then none else Meta.get a.data k

def FileMeta.abs (a : FileMeta) : KeyFn × List Nat := (a.ord, a.files)

/-- modelled domain: non-empty library metadata holds at least one ordinary key
(every real file has `numGroups`, `label`, ...) -/
def FileMeta.good (a : FileMeta) : Prop := a.ord = KeyFn.bot → a.data = []

def FileMeta.join (a b : FileMeta) : FileMeta := (FileMeta.merge a b).getD a

theorem FileMeta.ord_of_nil (a : FileMeta) (h : a.data = []) : a.ord = KeyFn.bot := by
  funext k; simp [FileMeta.ord, h, Meta.get, KeyFn.bot]

theorem FileMeta.ord_eq_iff (a b : FileMeta) :
    a.ord = b.ord ↔ ∀ k, k ∉ libSkip → Meta.get a.data k = Meta.get b.data k := by
  constructor
  · intro h k hk
    have := congrFun h k
    simpa [FileMeta.ord, hk] using this
  · intro h; funext k
    by_cases hk : k ∈ libSkip
    · simp [FileMeta.ord, hk]
    · simp [FileMeta.ord, hk, h k hk]

private theorem ord_merged (a b : FileMeta) (ll : Option Val) :
    FileMeta.ord ⟨(match ll with | some v => [(keyLibraryLabel, v)] | none => [])
      ++ a.data.filter (fun p => !libSkip.contains p.1), a.files ++ b.files⟩ = a.ord := by
  funext k
  by_cases hk : k ∈ libSkip
  · simp [FileMeta.ord, hk]
  · have hne : keyLibraryLabel ≠ k := by
      intro e; apply hk; rw [← e]; simp [libSkip]
    have hc : (!libSkip.contains k) = true := by simpa using hk
    simp only [FileMeta.ord, hk, if_false, Meta.get_append]
    rw [Meta.get_filter a.data (fun k => !libSkip.contains k) k, hc]
    cases ll <;> simp [Meta.get, hne, oor]

theorem FileMeta.join_abs (a b : FileMeta) (ga : a.good) (gb : b.good)
    (hc : (fnAlg.prod filesAlg).compat a.abs b.abs) :
    (a.join b).abs = (fnAlg.prod filesAlg).join a.abs b.abs ∧ (a.join b).good := by
  obtain ⟨hc1, _⟩ := hc
  change (a.ord = KeyFn.bot ∨ b.ord = KeyFn.bot ∨ a.ord = b.ord) at hc1
  have split : ∀ (f : KeyFn), (a.join b).ord = f → fnAlg.join a.ord b.ord = f →
      (a.join b).files = a.files ++ b.files →
      (a.join b).abs = (fnAlg.prod filesAlg).join a.abs b.abs := by
    intro f h1 h2 h3
    show ((a.join b).ord, (a.join b).files) = (fnAlg.join a.ord b.ord, a.files ++ b.files)
    rw [h1, h2, h3]
  by_cases ha : a.data = []
  · have hj : a.join b = ⟨b.data, a.files ++ b.files⟩ := by
      simp [FileMeta.join, FileMeta.merge, ha, Meta.update]
    have hoa := a.ord_of_nil ha
    refine ⟨split b.ord (by rw [hj]; rfl) (by simp [fnAlg, hoa]) (by rw [hj]), ?_⟩
    rw [hj]
    intro h; exact gb h
  · have hoa : a.ord ≠ KeyFn.bot := fun e => ha (ga e)
    by_cases hb : b.data = []
    · have hj : a.join b = ⟨a.data, a.files ++ b.files⟩ := by
        cases hda : a.data with
        | nil => exact absurd hda ha
        | cons p ps => simp [FileMeta.join, FileMeta.merge, hb, Meta.update, Meta.get, hda]
      refine ⟨split a.ord (by rw [hj]; rfl) (by simp [fnAlg, hoa]) (by rw [hj]), ?_⟩
      rw [hj]
      intro h; exact absurd (ga h) ha
    · have hob : b.ord ≠ KeyFn.bot := fun e => hb (gb e)
      have heq : a.ord = b.ord := by
        rcases hc1 with h | h | h
        · exact absurd h hoa
        · exact absurd h hob
        · exact h
      have hag : Meta.agree libSkip a.data b.data = true := by
        rw [Meta.agree_iff]; exact (FileMeta.ord_eq_iff a b).mp heq
      have hea : a.data.isEmpty = false := by cases hd : a.data <;> simp_all
      have heb : b.data.isEmpty = false := by cases hd : b.data <;> simp_all
      have hj : a.join b = ⟨(match orVal (Meta.get a.data keyLibraryLabel) (Meta.get b.data keyLibraryLabel) with
            | some v => [(keyLibraryLabel, v)] | none => [])
            ++ a.data.filter (fun p => !libSkip.contains p.1), a.files ++ b.files⟩ := by
        simp [FileMeta.join, FileMeta.merge, hea, heb, hag]
        cases orVal (Meta.get a.data keyLibraryLabel) (Meta.get b.data keyLibraryLabel) <;> rfl
      have ho : (a.join b).ord = a.ord := by rw [hj]; exact ord_merged a b _
      refine ⟨split a.ord ho (by simp [fnAlg, hoa]) (by rw [hj]), ?_⟩
      intro h; rw [ho] at h; exact absurd h hoa

/-- library-level metadata: content = ordinary keys + multiset of file names -/
noncomputable def fileMetaAlg : Alg FileMeta :=
  (fnAlg.prod filesAlg).pull FileMeta.abs FileMeta.good FileMeta.join

theorem fileMetaAlg_laws : fileMetaAlg.Laws :=
  Alg.Laws.pull (fnAlg_laws.prod filesAlg_laws) _ _ _ FileMeta.join_abs

theorem FileMeta.merge_ok (a b r : FileMeta) (h : FileMeta.merge a b = some r) :
    fileMetaAlg.compat a b ∧ r = a.join b := by
  refine ⟨⟨?_, trivial⟩, by simp [FileMeta.join, h]⟩
  show a.ord = KeyFn.bot ∨ b.ord = KeyFn.bot ∨ a.ord = b.ord
  by_cases ha : a.data = []
  · exact Or.inl (a.ord_of_nil ha)
  · by_cases hb : b.data = []
    · exact Or.inr (Or.inl (b.ord_of_nil hb))
    · have hea : a.data.isEmpty = false := by cases hd : a.data <;> simp_all
      have heb : b.data.isEmpty = false := by cases hd : b.data <;> simp_all
      refine Or.inr (Or.inr ?_)
      rw [FileMeta.ord_eq_iff, ← Meta.agree_iff]
      simp only [FileMeta.merge, hea, heb, Bool.or_self, Bool.false_eq_true, if_false] at h
      split at h
      · assumption
      · cases h

theorem FileMeta.merge_of_compat (a b : FileMeta) (ga : a.good) (gb : b.good) (h : fileMetaAlg.compat a b) :
    FileMeta.merge a b = some (a.join b) := by
  obtain ⟨hc1, _⟩ := h
  change (a.ord = KeyFn.bot ∨ b.ord = KeyFn.bot ∨ a.ord = b.ord) at hc1
  have key : ∃ r, FileMeta.merge a b = some r := by
    by_cases ha : a.data = []
    · simp [FileMeta.merge, ha]
    · by_cases hb : b.data = []
      · simp [FileMeta.merge, hb]
      · have hoa : a.ord ≠ KeyFn.bot := fun e => ha (ga e)
        have hob : b.ord ≠ KeyFn.bot := fun e => hb (gb e)
        have heq : a.ord = b.ord := by
          rcases hc1 with h | h | h
          · exact absurd h hoa
          · exact absurd h hob
          · exact h
        have hag : Meta.agree libSkip a.data b.data = true := by
          rw [Meta.agree_iff]; exact (FileMeta.ord_eq_iff a b).mp heq
        have hea : a.data.isEmpty = false := by cases hd : a.data <;> simp_all
        have heb : b.data.isEmpty = false := by cases hd : b.data <;> simp_all
        simp [FileMeta.merge, hea, heb, hag]
  obtain ⟨r, hr⟩ := key
  simp [FileMeta.join, hr]


/-! ### `IsotxsLibrary` -/

abbrev LibT := Prop' × Prop' × Prop' × Prop' × Prop' × FileMeta × FileMeta × FileMeta × Nucs

def Lib.toT (l : Lib) : LibT :=
  (l.ndcf, l.nEnergy, l.nVel, l.gEnergy, l.gdcf, l.isoMeta, l.pmMeta, l.gamMeta, l.nucs)

def Lib.ofT (t : LibT) : Lib :=
  ⟨t.1, t.2.1, t.2.2.1, t.2.2.2.1, t.2.2.2.2.1, t.2.2.2.2.2.1, t.2.2.2.2.2.2.1, t.2.2.2.2.2.2.2.1, t.2.2.2.2.2.2.2.2⟩

/-- `if not hasattr(self, "_neutronVelocity"): self.neutronVelocity = other.neutronVelocity` -/
def velJoin (a b : Prop') : Prop' := if a.isNone then some b.read else a

noncomputable def libTAlg : Alg LibT :=
  propAlg.prod (propAlg.prod ((firstWinsAlg Prop' velJoin).prod (propAlg.prod (propAlg.prod
    (fileMetaAlg.prod (fileMetaAlg.prod (fileMetaAlg.prod (mapAlg nucAlg))))))))

/-- The library algebra. `eqv` = same order-independent content: the four write-once group-structure /
dose properties read equal, each of the three metadata blocks agrees on every ordinary key and holds
the same multiset of file names, every label is present on both sides or on neither, and the two
nuclides under a label have equal metadata contents, collections and attributes.
(neutronVelocity and libraryLabel, first-one-wins by design, are not part of it.) -/
noncomputable def libAlg : Alg Lib := libTAlg.comap Lib.toT Lib.ofT

theorem libAlg_laws : libAlg.Laws :=
  Alg.Laws.comap
    (propAlg_laws.prod (propAlg_laws.prod ((firstWinsAlg_laws _ _).prod (propAlg_laws.prod (propAlg_laws.prod
      (fileMetaAlg_laws.prod (fileMetaAlg_laws.prod (fileMetaAlg_laws.prod (mapAlg_laws nucAlg_laws))))))))) 
    Lib.toT Lib.ofT (fun _ => rfl)

theorem Lib.mergeProperties_ok (t o : Lib) (h : (Lib.mergeProperties t o).1 = true) :
    (propAlg.compat t.ndcf o.ndcf ∧ propAlg.compat t.nEnergy o.nEnergy ∧
      propAlg.compat t.gEnergy o.gEnergy ∧ propAlg.compat t.gdcf o.gdcf) ∧
    (Lib.mergeProperties t o).2 =
      { t with
        ndcf := propAlg.join t.ndcf o.ndcf
        nEnergy := propAlg.join t.nEnergy o.nEnergy
        nVel := velJoin t.nVel o.nVel
        gEnergy := propAlg.join t.gEnergy o.gEnergy
        gdcf := propAlg.join t.gdcf o.gdcf } := by
  have c1 : propAlg.compat t.ndcf o.ndcf := by
    refine Classical.byContradiction fun hc => ?_
    simp [Lib.mergeProperties, prop_set_fail _ _ hc] at h
  have c2 : propAlg.compat t.nEnergy o.nEnergy := by
    refine Classical.byContradiction fun hc => ?_
    simp [Lib.mergeProperties, (prop_set_ok _ _ c1).1, prop_set_fail _ _ hc] at h
  have c3 : propAlg.compat t.gEnergy o.gEnergy := by
    refine Classical.byContradiction fun hc => ?_
    simp [Lib.mergeProperties, (prop_set_ok _ _ c1).1, (prop_set_ok _ _ c2).1, prop_set_fail _ _ hc] at h
  have c4 : propAlg.compat t.gdcf o.gdcf := by
    refine Classical.byContradiction fun hc => ?_
    simp [Lib.mergeProperties, (prop_set_ok _ _ c1).1, (prop_set_ok _ _ c2).1, (prop_set_ok _ _ c3).1,
      prop_set_fail _ _ hc] at h
  refine ⟨⟨c1, c2, c3, c4⟩, ?_⟩
  simp [Lib.mergeProperties, (prop_set_ok _ _ c1).1, (prop_set_ok _ _ c2).1, (prop_set_ok _ _ c3).1,
    (prop_set_ok _ _ c4).1, velJoin]

theorem Lib.mergeProperties_of_compat (t o : Lib)
    (c1 : propAlg.compat t.ndcf o.ndcf) (c2 : propAlg.compat t.nEnergy o.nEnergy)
    (c3 : propAlg.compat t.gEnergy o.gEnergy) (c4 : propAlg.compat t.gdcf o.gdcf) :
    (Lib.mergeProperties t o).1 = true := by
  simp [Lib.mergeProperties, (prop_set_ok _ _ c1).1, (prop_set_ok _ _ c2).1, (prop_set_ok _ _ c3).1,
    (prop_set_ok _ _ c4).1]


/-- **`IsotxsLibrary.merge` succeeds exactly on compatible libraries and then holds the join** -/
theorem Lib.merge_ok (t o : Lib) (hnd : (Nucs.labels o.nucs).Nodup) (h : (Lib.merge t o).1 = true) :
    libAlg.compat t o ∧ (Lib.merge t o).2 = libAlg.join t o := by
  unfold Lib.merge at h ⊢
  by_cases hp : (Lib.mergeProperties t o).1 = true
  · obtain ⟨⟨c1, c2, c3, c4⟩, ep⟩ := Lib.mergeProperties_ok t o hp
    simp only [hp, Bool.not_true, Bool.false_eq_true, if_false] at h ⊢
    rw [ep] at h ⊢
    simp only [] at h ⊢
    cases h1 : FileMeta.merge t.isoMeta o.isoMeta with
    | none => simp [h1] at h
    | some mi =>
      simp only [h1] at h ⊢
      cases h2 : FileMeta.merge t.pmMeta o.pmMeta with
      | none => simp [h2] at h
      | some mp =>
        simp only [h2] at h ⊢
        cases h3 : FileMeta.merge t.gamMeta o.gamMeta with
        | none => simp [h3] at h
        | some mg =>
          simp only [h3] at h ⊢
          by_cases hn : (mergeNucs t.nucs o.nucs).1 = true
          · simp only [hn, if_true] at h ⊢
            obtain ⟨f1, rfl⟩ := FileMeta.merge_ok _ _ _ h1
            obtain ⟨f2, rfl⟩ := FileMeta.merge_ok _ _ _ h2
            obtain ⟨f3, rfl⟩ := FileMeta.merge_ok _ _ _ h3
            obtain ⟨m, em⟩ := mergeNucs_ok o.nucs t.nucs hnd hn
            refine ⟨⟨c1, c2, trivial, c3, c4, f1, f2, f3, m⟩, ?_⟩
            rw [em]; rfl
          · simp [hn] at h
  · simp [hp] at h

theorem Lib.merge_of_compat (t o : Lib) (hnd : (Nucs.labels o.nucs).Nodup)
    (gt : t.isoMeta.good ∧ t.pmMeta.good ∧ t.gamMeta.good)
    (go : o.isoMeta.good ∧ o.pmMeta.good ∧ o.gamMeta.good)
    (h : libAlg.compat t o) : Lib.merge t o = (true, libAlg.join t o) := by
  obtain ⟨c1, c2, _, c3, c4, f1, f2, f3, m⟩ := h
  have hp := Lib.mergeProperties_of_compat t o c1 c2 c3 c4
  obtain ⟨_, ep⟩ := Lib.mergeProperties_ok t o hp
  have e1 := FileMeta.merge_of_compat t.isoMeta o.isoMeta gt.1 go.1 f1
  have e2 := FileMeta.merge_of_compat t.pmMeta o.pmMeta gt.2.1 go.2.1 f2
  have e3 := FileMeta.merge_of_compat t.gamMeta o.gamMeta gt.2.2 go.2.2 f3
  have e4 := mergeNucs_of_compat o.nucs t.nucs hnd m
  unfold Lib.merge
  simp only [hp, Bool.not_true, Bool.false_eq_true, if_false]
  rw [ep]
  simp only [e1, e2, e3, e4, if_true]
  rfl

/-! ### merge sequences and their order -/

section seq
variable {α : Type} (A : Alg α)

/-- every merge of the sequence is accepted -/
def seqCompat (t : α) : List α → Prop
  | [] => True
  | o :: os => A.compat t o ∧ seqCompat (A.join t o) os

/-- what the target holds after the sequence -/
def seqJoin (t : α) : List α → α
  | [] => t
  | o :: os => seqJoin (A.join t o) os

variable {A}

theorem seq_wf (hA : A.Laws) : ∀ (os : List α) (t : α), A.wf t → (∀ o ∈ os, A.wf o) → seqCompat A t os →
    A.wf (seqJoin A t os) := by
  intro os
  induction os with
  | nil => intro t wt _ _; exact wt
  | cons o os ih =>
    intro t wt wo hc
    exact ih _ (hA.wf_join wt (wo o (by simp)) hc.1) (fun x hx => wo x (by simp [hx])) hc.2

theorem seq_congr (hA : A.Laws) : ∀ (os : List α) (t t' : α), A.wf t → A.wf t' → (∀ o ∈ os, A.wf o) →
    A.eqv t t' → seqCompat A t os → seqCompat A t' os ∧ A.eqv (seqJoin A t os) (seqJoin A t' os) := by
  intro os
  induction os with
  | nil => intro t t' _ _ _ he _; exact ⟨trivial, he⟩
  | cons o os ih =>
    intro t t' wt wt' wo he hc
    have wo' := wo o (by simp)
    have c' := hA.compat_congr wt wt' wo' he hc.1
    obtain ⟨k1, k2⟩ := ih _ _ (hA.wf_join wt wo' hc.1) (hA.wf_join wt' wo' c') (fun x hx => wo x (by simp [hx]))
      (hA.join_congr wt wt' wo' he hc.1) hc.2
    exact ⟨⟨c', k1⟩, k2⟩

/-- **order independence of a merge sequence**: for any permutation of the libraries, from
content-equivalent targets, acceptance carries over and the results are content-equivalent. -/
theorem seq_perm (hA : A.Laws) {l₁ l₂ : List α} (hp : l₁.Perm l₂) : ∀ (t t' : α), A.wf t → A.wf t' →
    (∀ o ∈ l₁, A.wf o) → A.eqv t t' → seqCompat A t l₁ →
    seqCompat A t' l₂ ∧ A.eqv (seqJoin A t l₁) (seqJoin A t' l₂) := by
  induction hp with
  | nil => intro t t' _ _ _ he _; exact ⟨trivial, he⟩
  | cons x _ ih =>
    intro t t' wt wt' wo he hc
    have wx := wo x (by simp)
    have c' := hA.compat_congr wt wt' wx he hc.1
    obtain ⟨k1, k2⟩ := ih _ _ (hA.wf_join wt wx hc.1) (hA.wf_join wt' wx c') (fun o ho => wo o (by simp [ho]))
      (hA.join_congr wt wt' wx he hc.1) hc.2
    exact ⟨⟨c', k1⟩, k2⟩
  | swap x y l =>
    intro t t' wt wt' wo he hc
    -- l₁ = y :: x :: l, l₂ = x :: y :: l
    have wy := wo y (by simp)
    have wx := wo x (by simp)
    obtain ⟨cy, cx, cl⟩ := hc
    obtain ⟨s1, s2⟩ := hA.swap_compat wt wy wx cy cx
    have sj := hA.swap_join wt wy wx cy cx
    -- transfer to t'
    have cx' := hA.compat_congr wt wt' wx he s1
    have ex := hA.join_congr wt wt' wx he s1
    have wtx := hA.wf_join wt wx s1
    have wtx' := hA.wf_join wt' wx cx'
    have cy' := hA.compat_congr wtx wtx' wy ex s2
    have exy := hA.join_congr wtx wtx' wy ex s2
    have wtyx := hA.wf_join (hA.wf_join wt wy cy) wx cx
    have wtxy' := hA.wf_join wtx' wy cy'
    obtain ⟨k1, k2⟩ := seq_congr hA l _ _ wtyx wtxy' (fun o ho => wo o (by simp [ho]))
      (hA.trans sj exy) cl
    exact ⟨⟨cx', cy', k1⟩, k2⟩
  | trans h1 _ ih1 ih2 =>
    intro t t' wt wt' wo he hc
    obtain ⟨k1, k2⟩ := ih1 t t wt wt wo (hA.refl t) hc
    obtain ⟨k3, k4⟩ := ih2 t t' wt wt' (fun o ho => wo o (h1.mem_iff.mpr ho)) he k1
    exact ⟨k3, hA.trans k2 k4⟩

end seq

end ArmiVerif.XsLib
