/-
C18 model, part 1 — ascii lattice maps (armi/utils/asciimaps.py).   Core Lean only.

Transcribes, over token lists (a text line = its whitespace-separated tokens):
  AsciiMap.readAscii / gridContentsToAscii / _removeTrailingPlaceholders / __str__ (length check only)
  AsciiMapCartesian, AsciiMapHexThirdFlatsUp, AsciiMapHexFullFlatsUp, AsciiMapHexFullTipsUp:
  _getIJBaseByAsciiLine, _getIJFromColAndBase, _getIJFromColRow, _asciiLinesToIndices, _makeOffsets,
  _updateDimensionsFromAsciiLines, _updateDimensionsFromData, _getLineNumsToWrite.
The maps are fresh objects (state of `__init__`).  Text splitting (`str.strip/splitlines/split`) and
the fixed-width formatting of `__str__` are parameters: the harness checks that tokens survive them.
Domain: labels are non-empty strings without whitespace.
-/
namespace ArmiVerif.AsciiMap

inductive Kind | cart | third | full | tips
  deriving Repr, DecidableEq

abbrev Cell := Int × Int

/-- `asciiLabelByIndices`: a dict in insertion order -/
abbrev Labels := List (Cell × String)

def PLACEHOLDER : String := "-"

def get? (m : Labels) (k : Cell) : Option String :=
  (m.find? (fun p => p.1 == k)).map (·.2)

/-- `d[k] = v` -/
def put (m : Labels) (k : Cell) (v : String) : Labels :=
  if m.any (fun p => p.1 == k) then m.map (fun p => if p.1 == k then (k, v) else p) else m ++ [(k, v)]

/-- Python `range(n)` for an integer that may be negative -/
def pyRange (n : Int) : List Int := (List.range n.toNat).map Int.ofNat

/-- Python `l[a:b]` -/
def pySlice {α} (l : List α) (a b : Int) : List α :=
  let n : Int := l.length
  let norm := fun (x : Int) => if x < 0 then max 0 (n + x) else min x n
  let a' := norm a
  let b' := norm b
  if a' < b' then (l.drop a'.toNat).take (b' - a').toNat else []

/-- `max(xs)` with a default for the empty list -/
def maxD (d : Int) : List Int → Int
  | [] => d
  | x :: xs => xs.foldl max x

def minD (d : Int) : List Int → Int
  | [] => d
  | x :: xs => xs.foldl min x

/-! ### text cell → grid index -/

/-- `AsciiMapHexThirdFlatsUp._getIJBaseByAsciiLine` -/
def thirdBase (line : Int) : Cell :=
  if line = 0 then (0, 0) else
  let ray := (line - 1) % 3
  let idx := (line - 1) / 3
  if ray = 0 then (1 - idx, 2 * idx)
  else if ray = 1 then (-idx, 2 * idx + 1)
  else (1 - idx, 2 * idx + 1)

/-- `AsciiMapHexFullFlatsUp._getIJBaseByAsciiLine` -/
def fullBase (ijMax offCorner line : Int) : Cell :=
  let l := line + offCorner
  if l < ijMax then (-l, -ijMax + l)
  else if (l - ijMax) % 2 = 0 then (-ijMax, (l - ijMax) / 2)
  else (-ijMax + 1, (l - ijMax) / 2)

/-- `AsciiMapHexFullTipsUp._getIJBaseByAsciiLine` -/
def tipsBase (ijMax line : Int) : Cell := (-ijMax * 2 + line, ijMax - line)

/-- `_getIJFromColRow` of each class: (column, line) of the text ↦ (i, j) of the grid.
Lines are counted from the bottom except for tips-up maps (from the top). -/
def cellOf (k : Kind) (ijMax offCorner : Int) (col line : Int) : Cell :=
  match k with
  | .cart => (col, line)
  | .third => let b := thirdBase line; (b.1 + 2 * col, b.2 - col)
  | .full => let b := fullBase ijMax offCorner line; (b.1 + 2 * col, b.2 - col)
  | .tips => let b := tipsBase ijMax line; (b.1 + col + b.2, -(b.1 + col))

/-! ### the map object -/

structure AMap where
  lines : List (List String)
  offsets : List Int
  labels : Labels
  maxCol : Int
  maxLine : Int
  ijMax : Int
  offCorner : Int
  /-- `len(self._placeholder)` -/
  slot : Nat
  deriving Repr

/-- `enumerate` -/
def enum {α} (l : List α) : List (Int × α) := (List.range l.length).map Int.ofNat |>.zip l

/-- `_asciiLinesToIndices`: bottom-to-top except tips-up maps -/
def readLabels (k : Kind) (ijMax offCorner : Int) (lines : List (List String)) : Labels :=
  let ordered := if k = .tips then lines else lines.reverse
  (enum ordered).foldl (fun acc (ll : Int × List String) =>
    (enum ll.2).foldl (fun acc2 (ct : Int × String) => put acc2 (cellOf k ijMax offCorner ct.1 ll.1) ct.2) acc) []

/-- `_makeOffsets` of each class for `n` lines -/
def makeOffsets (k : Kind) (ijMax offCorner : Int) (n : Nat) : List Int :=
  match k with
  | .cart => List.replicate n 0
  | .third =>
    let raw := ((pyRange n).map (fun li => (thirdBase li).1 - 1)).reverse
    let mn := minD 0 raw
    raw.map (fun o => o - mn)
  | .full =>
    let top := (pyRange (ijMax * 3)).map (fun li => (li - offCorner) % 2)
    let all := top ++ pyRange (ijMax + 1)
    if offCorner ≠ 0 then pySlice all offCorner (-offCorner) else all
  | .tips => pyRange n

def slotSize (labels : Labels) : Nat := (labels.map (fun p => p.2.length)).foldl max 0

/-- `_updateDimensionsFromAsciiLines` of each class: the (ijMax, corner lines) the reader infers from a text
(a fresh Cartesian map keeps the zeros of `__init__`) -/
def readerDims (k : Kind) (lines : List (List String)) : Int × Int :=
  let maxCol : Int := max 0 (maxD 0 (lines.map (fun l => (l.length : Int))))
  match k with
  | .cart => (0, 0)
  | .third | .full => (maxCol - 1, ((lines.getLast?.getD []).length : Int) - 1)
  | .tips => ((maxCol - 1) / 2, 0)

/-- `AsciiMap.readAscii` on the token lines of a text; `none` where Python raises
(empty text: `li` unbound; no label at all: `max()` of an empty sequence). -/
def readAscii (k : Kind) (lines : List (List String)) : Option AMap :=
  if lines.isEmpty then none else
  let maxCol : Int := max 0 (maxD 0 (lines.map (fun l => (l.length : Int))))
  let maxLine : Int := lines.length
  let labels := readLabels k (readerDims k lines).1 (readerDims k lines).2 lines
  if labels.isEmpty then none else
  some { lines := lines, offsets := makeOffsets k (readerDims k lines).1 (readerDims k lines).2 lines.length,
         labels := labels, maxCol := maxCol, maxLine := maxLine, ijMax := (readerDims k lines).1,
         offCorner := (readerDims k lines).2, slot := slotSize labels }

/-! ### writer -/

def allDash (s : String) : Bool := !s.isEmpty && s.toList.all (· == '-')

/-- `re.search("^[-]+$", "".join(line))`: the concatenation of the tokens is a non-empty run of dashes,
i.e. every token consists of dashes only and some token is non-empty -/
def rowAllDash (line : List String) : Bool :=
  line.any (fun t => !t.isEmpty) && line.all (fun t => t.toList.all (· == '-'))

/-- `_removeTrailingPlaceholders` -/
def removeTrailing (line : List String) : List String :=
  (line.reverse.dropWhile (· == PLACEHOLDER)).reverse

/-- the "clean data" loop of `gridContentsToAscii`: leading all-placeholder lines are dropped, a later
line that is wiped out entirely raises. -/
def cleanLines : List (List String) → Bool → List (List String) → Option (List (List String))
  | [], _, acc => some acc
  | line :: rest, noDataYet, acc =>
    if rowAllDash line && noDataYet then cleanLines rest noDataYet acc
    else
      let nl := removeTrailing line
      if nl.isEmpty then none else cleanLines rest false (acc ++ [nl])

/-- `_updateDimensionsFromData` of each class: (ijMax, offCorner, maxCol, maxLine); `none` = ValueError -/
def dimsFromData (k : Kind) (labels : Labels) : Option (Int × Int × Int × Int) :=
  if labels.isEmpty then none else
  let keys := labels.map (·.1)
  let ijMax := maxD 0 (keys.map (fun c => c.1 + c.2))
  match k with
  | .cart =>
    let maxCol := maxD 0 (keys.map (·.1)) + 1
    let maxLine := maxD 0 (keys.map (·.2)) + 1
    let iMin := minD 0 (keys.map (·.1))
    let jMin := minD 0 (keys.map (·.2))
    if iMin ≠ 0 ∨ jMin ≠ 0 then none else some (ijMax, 0, maxCol, maxLine)
  | .third | .full =>
    let maxI := maxD (-1) ((keys.filter (fun c => c.2 == 0)).map (·.1))
    let off0 := (ijMax - maxI) * 2 - 1
    let nextI := maxD (-1) ((keys.filter (fun c => c.2 == 1)).map (·.1))
    let off := if nextI = maxI - 1 then off0 + 1 else off0
    if k = .third then some (ijMax, off, ijMax + 1, ijMax * 2 + 1 - off)
    else some (ijMax, off, ijMax + 1, ijMax * 4 + 1 - off * 2)
  | .tips => some (ijMax, 0, ijMax * 2 + 1, ijMax * 2 + 1)

/-- `s.replace(" ", "")`: every blank removed -/
def stripBlanks (s : String) : String := String.ofList (s.toList.filter (· != ' '))

/-- `str(self.asciiLabelByIndices.get(ij, PLACEHOLDER)).replace(" ", "")` (the placeholder has no blank) -/
def tokenAt (labels : Labels) (c : Cell) : String :=
  match get? labels c with
  | some v => stripBlanks v
  | none => PLACEHOLDER

/-- `AsciiMap.gridContentsToAscii` on a fresh map holding `labels`; `none` = ValueError -/
def gridContentsToAscii (k : Kind) (labels : Labels) : Option AMap :=
  match dimsFromData k labels with
  | none => none
  | some (ijMax, offCorner, maxCol, maxLine) =>
    let lineNums := if k = .tips then pyRange maxLine else (pyRange maxLine).reverse
    let lines0 := lineNums.map (fun ln => (pyRange maxCol).map (fun c =>
      tokenAt labels (cellOf k ijMax offCorner c ln)))
    match cleanLines lines0 true [] with
    | none => none
    | some newLines =>
      if newLines.isEmpty then none else
      some { lines := newLines, offsets := makeOffsets k ijMax offCorner newLines.length, labels := labels,
             maxCol := maxCol, maxLine := maxLine, ijMax := ijMax, offCorner := offCorner,
             slot := slotSize labels }

/-- `__str__` succeeds: lines exist and there is one offset per line -/
def printable (m : AMap) : Bool := !m.lines.isEmpty && m.offsets.length == m.lines.length

/-- `gridBlueprint._getGridSize`: extent of a key set along i and j (both ends included) -/
def gridSize (keys : List Cell) : Int × Int :=
  (maxD 0 (keys.map (·.1)) - minD 0 (keys.map (·.1)) + 1, maxD 0 (keys.map (·.2)) - minD 0 (keys.map (·.2)) + 1)

/-- `GridBlueprint._readGridContentsLattice` for a full-domain Cartesian map: the offset `int(-nx / 2), int(-ny / 2)`
comes from the extent of ALL keys of the map (placeholders included), placeholders are then skipped -/
def cartCentre (labels : Labels) : Labels :=
  let sz := gridSize (labels.map (·.1))
  let io := -(sz.1 / 2)
  let jo := -(sz.2 / 2)
  (labels.filter (fun p => p.2 != PLACEHOLDER)).map (fun p => ((p.1.1 + io, p.1.2 + jo), p.2))

/-- contents without placeholder entries (what `GridBlueprint` keeps) -/
def dataOf (labels : Labels) : Labels := labels.filter (fun p => p.2 != PLACEHOLDER)

/-! ### dispatch: which map class reads / writes a grid blueprint -/

inductive Geom | hex | cartesian | rzt | rz
  deriving Repr, DecidableEq

/-- `geometry.GeomType.fromStr` on an already lower-cased, stripped string: corners-up collapses to HEX; `none` = ValueError -/
def geomFromStr (s : String) : Option Geom :=
  if s == "hex" || s == "hex_corners_up" then some .hex
  else if s == "cartesian" then some .cartesian
  else if s == "thetarz" then some .rzt
  else if s == "rz" then some .rz
  else none

/-- `asciimaps.asciiMapFromGeomAndDomain(geomType, domain)` called with the geometry STRING of the grid blueprint (as
`_readGridContentsLattice` and `saveToStream` do) and the domain word of the symmetry (`full`, `third`, `quarter`, …):
the corners-up special case looks at `str(geomType)`, every other combination at the enumeration (table `MAP_FROM_GEOM`);
`none` = KeyError / ValueError. -/
def dispatch (geom : String) (domain : String) : Option Kind :=
  if geom == "hex_corners_up" && domain == "full" then some .tips
  else match geomFromStr geom, domain with
    | some .hex, "third" => some .third
    | some .hex, "full" => some .full
    | some .cartesian, "full" => some .cart
    | some .cartesian, "quarter" => some .cart
    | _, _ => none

/-- the class `saveToStream` writes with when it is handed the PARSED geometry (the enumeration prints as `hex`):
what a writer that forgets the geometry string would use — kept to state `dispatch_needs_string`. -/
def dispatchParsed (geom : String) (domain : String) : Option Kind :=
  match geomFromStr geom with
  | some .hex => dispatch "hex" domain
  | some .cartesian => dispatch "cartesian" domain
  | _ => none

/-- `saveToStream`: the index shift that undoes the centring of full Cartesian maps, `int(-nx/2), int(-ny/2)` of the
extent of the contents being written -/
def cartUncentre (labels : Labels) : Labels :=
  let sz := gridSize (labels.map (·.1))
  labels.map (fun p => ((p.1.1 + sz.1 / 2, p.1.2 + sz.2 / 2), p.2))

/-- `saveToStream` (tryMap) for one grid design whose contents lie in the represented domain: the lattice-map token lines,
or `none` when the map class refuses (the blueprint then falls back to `grid contents`). -/
def saveLattice (geom domain : String) (labels : Labels) : Option (Kind × List (List String)) :=
  match dispatch geom domain with
  | none => none
  | some k =>
    let shifted := if k == .cart && domain == "full" then cartUncentre labels else labels
    match gridContentsToAscii k shifted with
    | none => none
    | some m => if printable m then some (k, m.lines) else none

/-- `_readGridContentsLattice`: token lines ↦ grid contents (placeholders skipped, full Cartesian maps centred) -/
def readLattice (geom domain : String) (lines : List (List String)) : Option Labels :=
  match dispatch geom domain with
  | none => none
  | some k => match readAscii k lines with
    | none => none
    | some m => some (if k == .cart && domain == "full" then cartCentre m.labels else dataOf m.labels)

end ArmiVerif.AsciiMap
