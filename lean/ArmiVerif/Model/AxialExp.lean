/-
C12 — executable model (core Lean only, exact `Rat`) of
`AxialExpansionChanger.axiallyExpandAssembly` (axialExpansionChanger.py).

An assembly is a bottom-up list of blocks; each block lists its SOLID components in iteration
order (`iterSolidComponents`).  The inputs of one expansion are what `setAssembly` and
`setExpansionFactors`/`computeThermalExpansionFactors` prepared:
  * `g ib ic`      : `expansionData.getExpansionFactor(c)`   (1.0 when nothing was set)
  * `lower ib ic`  : index (among the lower block's solids) of `linked.linkedComponents[c].lower`
  * `target ib`    : index of the block's target component (`isTargetComponent`), if any.
The top block is the "dummy" block that absorbs the change (`ib == numOfBlocks - 1`).
-/
namespace ArmiVerif.AxialExp

structure Comp where
  nd   : Rat      -- number density of one nuclide (all nuclides are scaled alike)
  area : Rat      -- cross-section area (not changed by axiallyExpandAssembly)
  h    : Rat      -- c.height
  zb   : Rat      -- c.zbottom
  zt   : Rat      -- c.ztop
  deriving Repr, DecidableEq

structure Block where
  h  : Rat        -- b.p.height = b.getHeight()
  zb : Rat        -- b.p.zbottom
  zt : Rat        -- b.p.ztop
  comps : List Comp
  deriving Repr, DecidableEq

structure Inp where
  g : Nat → Nat → Rat
  lower : Nat → Nat → Option Nat
  target : Nat → Option Nat

/-- component mass (per unit of the constant factors): number density × area × parent block height -/
def mass (b : Block) (c : Comp) : Rat := c.nd * c.area * b.h

/-- `c.zbottom`: 0.0 in the first block; the linked component's `ztop` if there is one;
otherwise the top of the block below -/
def compBottom (below : Option Block) (lower : Option Nat) : Rat :=
  match below with
  | none => 0
  | some l =>
    match lower with
    | some k => (match l.comps[k]? with
                 | some lc => lc.zt
                 | none => l.zt)
    | none => l.zt

/-- loop body for one solid component `c` with growth `g` of a block of (old) height `H` -/
def expandComp (H : Rat) (below : Option Block) (g : Rat) (lower : Option Nat) (c : Comp) : Comp :=
  let height := g * H
  let zb := compBottom below lower
  { c with h := height, zb := zb, zt := zb + height, nd := c.nd * (1 / g) }

def expandComps (H : Rat) (below : Option Block) (g : Nat → Rat) (lower : Nat → Option Nat) :
    Nat → List Comp → List Comp
  | _, [] => []
  | i, c :: t => expandComp H below (g i) (lower i) c :: expandComps H below g lower (i + 1) t

/-- a block below the top one: bottom = top of the (already updated) block below; every solid
component re-stacked; the block boundary follows the target component -/
def stepBlock (inp : Inp) (below : Option Block) (ib : Nat) (b : Block) : Block :=
  let zb := match below with
    | none => b.zb
    | some l => l.zt
  let comps := expandComps b.h below (inp.g ib) (inp.lower ib) 0 b.comps
  match inp.target ib with
  | none => { b with zb := zb, comps := comps }
  | some k =>
    match comps[k]? with
    | none => { b with zb := zb, comps := comps }
    | some c => { h := c.zt - zb, zb := zb, zt := c.zt, comps := comps }

/-- the top ("dummy") block: keeps its `ztop`, takes the new bottom, absorbs the change -/
def topBlock (below : Option Block) (b : Block) : Block :=
  let zb := match below with
    | none => b.zb
    | some l => l.zt
  { b with zb := zb, h := b.zt - zb }

/-- the `for ib, b in enumerate(a)` loop -/
def expandFrom (inp : Inp) : Option Block → Nat → List Block → List Block
  | _, _, [] => []
  | below, _, [b] => [topBlock below b]
  | below, ib, b :: b2 :: rest =>
    let b' := stepBlock inp below ib b
    b' :: expandFrom inp (some b') (ib + 1) (b2 :: rest)

/-- every growth factor used is positive (`setExpansionFactors` raises otherwise; `1.0 / growFrac`) -/
def factorsOK (inp : Inp) : Nat → List Block → Bool
  | _, [] => true
  | _, [_] => true
  | ib, b :: b2 :: rest =>
    (List.range b.comps.length).all (fun i => decide (0 < inp.g ib i)) && factorsOK inp (ib + 1) (b2 :: rest)

/-- `axiallyExpandAssembly`; `none` where the real code raises (non-positive factor,
`_checkBlockHeight`: negative block height) -/
def expand (inp : Inp) (a : List Block) : Option (List Block) :=
  if factorsOK inp 0 a then
    let r := expandFrom inp none 0 a
    if r.any (fun b => decide (b.h < 0)) then none else some r
  else none

/-- the axial mesh written to `spatialGrid._bounds[2]` -/
def mesh (a : List Block) : List Rat := 0 :: a.map (·.zt)

/-- a sequence of expansions, each with its own factors/linkage (no refusals) -/
def expandSeq (inps : List Inp) (a : List Block) : List Block :=
  inps.foldl (fun a i => expandFrom i none 0 a) a

end ArmiVerif.AxialExp
