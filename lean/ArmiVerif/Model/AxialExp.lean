/-
C12 — executable model (core Lean only, exact `Rat`) of
`AxialExpansionChanger.axiallyExpandAssembly` (axialExpansionChanger.py).

An assembly is a bottom-up list of blocks; each block lists its SOLID components in iteration
order (`iterSolidComponents`).  The inputs of one expansion are what `setAssembly` and
`setExpansionFactors`/`computeThermalExpansionFactors` prepared:
  * `g ib ic`      : `expansionData.getExpansionFactor(c)`   (1.0 when nothing was set)
  * `lower ib ic`  : index (among the lower block's solids) of `linked.linkedComponents[c].lower`
  * `target ib`    : index of the block's target component (`isTargetComponent`), if any.
The top block is the "dummy" block that absorbs the change (`ib == numOfBlocks - 1`).
-/
namespace ArmiVerif.AxialExp

structure Comp where
  nd   : Rat      -- number density of one nuclide (all nuclides are scaled alike)
  area : Rat      -- cross-section area (not changed by axiallyExpandAssembly)
  h    : Rat      -- c.height
  zb   : Rat      -- c.zbottom
  zt   : Rat      -- c.ztop
  deriving Repr, DecidableEq

structure Block where
  h  : Rat        -- b.p.height = b.getHeight()
  zb : Rat        -- b.p.zbottom
  zt : Rat        -- b.p.ztop
  comps : List Comp
  deriving Repr, DecidableEq

structure Inp where
  g : Nat → Nat → Rat
  lower : Nat → Nat → Option Nat
  target : Nat → Option Nat

/-- component mass (per unit of the constant factors): number density × area × parent block height -/
def mass (b : Block) (c : Comp) : Rat := c.nd * c.area * b.h

/-- `c.zbottom`: 0.0 in the first block; the linked component's `ztop` if there is one;
otherwise the top of the block below -/
def compBottom (below : Option Block) (lower : Option Nat) : Rat :=
  match below with
  | none => 0
  | some l =>
    match lower with
    | some k => (match l.comps[k]? with
                 | some lc => lc.zt
                 | none => l.zt)
    | none => l.zt

/-- loop body for one solid component `c` with growth `g` of a block of (old) height `H` -/
def expandComp (H : Rat) (below : Option Block) (g : Rat) (lower : Option Nat) (c : Comp) : Comp :=
  let height := g * H
  let zb := compBottom below lower
  { c with h := height, zb := zb, zt := zb + height, nd := c.nd * (1 / g) }

def expandComps (H : Rat) (below : Option Block) (g : Nat → Rat) (lower : Nat → Option Nat) :
    Nat → List Comp → List Comp
  | _, [] => []
  | i, c :: t => expandComp H below (g i) (lower i) c :: expandComps H below g lower (i + 1) t

/-- a block below the top one: bottom = top of the (already updated) block below; every solid
component re-stacked; the block boundary follows the target component -/
def stepBlock (inp : Inp) (below : Option Block) (ib : Nat) (b : Block) : Block :=
  let zb := match below with
    | none => b.zb
    | some l => l.zt
  let comps := expandComps b.h below (inp.g ib) (inp.lower ib) 0 b.comps
  match inp.target ib with
  | none => { b with zb := zb, comps := comps }
  | some k =>
    match comps[k]? with
    | none => { b with zb := zb, comps := comps }
    | some c => { h := c.zt - zb, zb := zb, zt := c.zt, comps := comps }

/-- the top ("dummy") block: keeps its `ztop`, takes the new bottom, absorbs the change -/
def topBlock (below : Option Block) (b : Block) : Block :=
  let zb := match below with
    | none => b.zb
    | some l => l.zt
  { b with zb := zb, h := b.zt - zb }

/-- the `for ib, b in enumerate(a)` loop -/
def expandFrom (inp : Inp) : Option Block → Nat → List Block → List Block
  | _, _, [] => []
  | below, _, [b] => [topBlock below b]
  | below, ib, b :: b2 :: rest =>
    let b' := stepBlock inp below ib b
    b' :: expandFrom inp (some b') (ib + 1) (b2 :: rest)

/-- every growth factor used is positive (`setExpansionFactors` raises otherwise; `1.0 / growFrac`) -/
def factorsOK (inp : Inp) : Nat → List Block → Bool
  | _, [] => true
  | _, [_] => true
  | ib, b :: b2 :: rest =>
    (List.range b.comps.length).all (fun i => decide (0 < inp.g ib i)) && factorsOK inp (ib + 1) (b2 :: rest)

/-- `axiallyExpandAssembly`; `none` where the real code raises (non-positive factor,
`_checkBlockHeight`: negative block height) -/
def expand (inp : Inp) (a : List Block) : Option (List Block) :=
  if factorsOK inp 0 a then
    let r := expandFrom inp none 0 a
    if r.any (fun b => decide (b.h < 0)) then none else some r
  else none

/-- the axial mesh written to `spatialGrid._bounds[2]` -/
def mesh (a : List Block) : List Rat := 0 :: a.map (·.zt)

/-- a sequence of expansions, each with its own factors/linkage (no refusals) -/
def expandSeq (inps : List Inp) (a : List Block) : List Block :=
  inps.foldl (fun a i => expandFrom i none 0 a) a

/-! ### `ExpansionData`: prescribed factors stored on one object that is used for successive steps

`setAssembly` builds the linkage, the targets and an EMPTY `_expansionFactors` dict once; every step then
calls `expansionData.setExpansionFactors(components, expFrac)` and `axiallyExpandAssembly()`.
A component is named by (block index, index among the block's solids). -/

abbrev Key := Nat × Nat

/-- `ExpansionData._expansionFactors` as an association list, newest assignment first -/
abbrev Store := List (Key × Rat)

/-- `getExpansionFactor(c)`: `self._expansionFactors.get(c, 1.0)` -/
def getFactor (s : Store) (ib ic : Nat) : Rat :=
  match s.find? (fun e => e.1 == (ib, ic)) with
  | some e => e.2
  | none => 1

/-- the loop `for c, p in zip(components, expFrac): self._expansionFactors[c] = p`
(a later entry for the same component overwrites an earlier one; exactly 1.0 is stored like any value) -/
def assign : Store → List Key → List Rat → Store
  | s, k :: ks, p :: ps => assign ((k, p) :: s) ks ps
  | s, _, _ => s

/-- `ExpansionData.setExpansionFactors`; `none` = RuntimeError (different lengths; a factor `<= 0.0`).
Validation comes first: a refused call stores nothing. -/
def setExpansionFactors (s : Store) (keys : List Key) (fr : List Rat) : Option Store :=
  if keys.length ≠ fr.length then none
  else if fr.any (fun p => decide (p ≤ 0)) then none
  else some (assign s keys fr)

/-- what `setAssembly` fixes for all later steps: the component linkage and the target components -/
structure Links where
  lower : Nat → Nat → Option Nat
  target : Nat → Option Nat

/-- the inputs `axiallyExpandAssembly` reads through `getExpansionFactor` / `linked` / `isTargetComponent` -/
def inpOf (L : Links) (s : Store) : Inp := { g := getFactor s, lower := L.lower, target := L.target }

structure RState where
  store : Store
  a : List Block

/-- one step on a re-used `ExpansionData`: `setExpansionFactors(keys, fr)` then `axiallyExpandAssembly()`;
`none` where either raises -/
def stepReuse (L : Links) (st : RState) (step : List Key × List Rat) : Option RState :=
  match setExpansionFactors st.store step.1 step.2 with
  | none => none
  | some s =>
    match expand (inpOf L s) st.a with
    | none => none
    | some a => some { store := s, a := a }

/-- successive steps on ONE `ExpansionData` (created empty by `setAssembly`) -/
def runReuse (L : Links) : RState → List (List Key × List Rat) → Option RState
  | st, [] => some st
  | st, step :: rest =>
    match stepReuse L st step with
    | none => none
    | some st' => runReuse L st' rest

/-- the other route: a FRESH `ExpansionData` (empty store) for every step -/
def stepFresh (L : Links) (a : List Block) (step : List Key × List Rat) : Option (List Block) :=
  match setExpansionFactors [] step.1 step.2 with
  | none => none
  | some s => expand (inpOf L s) a

def runFresh (L : Links) : List Block → List (List Key × List Rat) → Option (List Block)
  | a, [] => some a
  | a, step :: rest =>
    match stepFresh L a step with
    | none => none
    | some a' => runFresh L a' rest

/-! ### `updateComponentTempsBy1DTempField`: the block-average temperature -/

/-- the scan `for idz, z in enumerate(tempGrid): if zb <= z <= zt: append; if z > zt: break` -/
def tempsInBlock (zb zt : Rat) : List Rat → List Rat → List Rat
  | z :: zs, t :: ts =>
    let here := if zb ≤ z ∧ z ≤ zt then [t] else []
    if z > zt then here else here ++ tempsInBlock zb zt zs ts
  | _, _ => []

/-- `mean(tmpMapping)`; `none` = ValueError (no temperature point within the block) -/
def blockAveTemp (zb zt : Rat) (grid field : List Rat) : Option Rat :=
  match tempsInBlock zb zt grid field with
  | [] => none
  | l => some (l.sum / l.length)

/-- the per-block averages for a whole assembly; `none` = RuntimeError (different lengths) / ValueError -/
def blockTemps (a : List Block) (grid field : List Rat) : Option (List Rat) :=
  if grid.length ≠ field.length then none
  else a.mapM (fun b => blockAveTemp b.zb b.zt grid field)


/-! ### thermal factors: `updateComponentTemp`, `updateComponentTempsBy1DTempField`,
`_perComponentThermalExpansionFactors`, `computeThermalExpansionFactors` -/

/-- the thermal part of `ExpansionData` (solid components only; newest entry first) -/
structure Thermal where
  fromInput : Bool                  -- expandFromTinputToThot
  ref  : List (Key × Rat)           -- componentReferenceTemperature
  temp : List (Key × Rat)           -- c.temperatureInC

def lookup (l : List (Key × Rat)) (k : Key) : Option Rat := (l.find? (fun e => e.1 == k)).map (·.2)

/-- `updateComponentTemp(c, temp)`: the reference temperature is the current one, then the new one is set -/
def updateComponentTemp (th : Thermal) (k : Key) (T : Rat) : Thermal :=
  { th with ref := (k, (lookup th.temp k).getD 0) :: th.ref, temp := (k, T) :: th.temp }

/-- which expansion the material is asked for -/
inductive FactorSpec where
  | one                              -- no reference temperature: factor 1.0
  | fromInputTo (T : Rat)            -- `c.getThermalExpansionFactor()`: input temperature -> T
  | between (T0 T : Rat)             -- `c.getThermalExpansionFactor(T0=T0)`: T0 -> T
  deriving DecidableEq, Repr

/-- `_perComponentThermalExpansionFactors(c)` — membership in `componentReferenceTemperature` decides, not the
value (a reference temperature of exactly 0.0 is a reference temperature) -/
def factorSpec (th : Thermal) (k : Key) : FactorSpec :=
  let T := (lookup th.temp k).getD 0
  if th.fromInput then .fromInputTo T
  else match lookup th.ref k with
    | some T0 => .between T0 T
    | none => .one

/-- the material's answer: `f k T0 T` = expansion of component `k` from `T0` to `T`; `tin k` its input temperature -/
def evalSpec (f : Key → Rat → Rat → Rat) (tin : Key → Rat) (k : Key) : FactorSpec → Rat
  | .one => 1
  | .fromInputTo T => f k (tin k) T
  | .between T0 T => f k T0 T

/-- `computeThermalExpansionFactors`: the factor of every solid component is (re)computed and stored -/
def computeThermal (f : Key → Rat → Rat → Rat) (tin : Key → Rat) (th : Thermal) (keys : List Key) (s : Store) : Store :=
  keys.foldl (fun s k => (k, evalSpec f tin k (factorSpec th k)) :: s) s

/-- `updateComponentTempsBy1DTempField`: the references are reset, then block by block the average temperature
goes to every component of the block (`keysOf ib` = its solids); `none` where the code raises — by then the
blocks below have been updated already (the model returns nothing for a refused call) -/
def updateByField (th : Thermal) (a : List Block) (keysOf : Nat → List Key) (grid field : List Rat) : Option Thermal :=
  if grid.length ≠ field.length then none
  else
    let rec go (th : Thermal) (ib : Nat) : List Block → Option Thermal
      | [] => some th
      | b :: rest =>
        match blockAveTemp b.zb b.zt grid field with
        | none => none
        | some T => go ((keysOf ib).foldl (fun th k => updateComponentTemp th k T) th) (ib + 1) rest
    go { th with ref := [] } 0 a


/-! ### compositions that several components share (`c2.p.numberDensities = c1.p.numberDensities`)

A component refers to a composition cell; several components may refer to the SAME cell (direct assignment
of the parameter value, `copyParamsFrom` / `updateParamsFrom`). -/

/-- the cell contents (density of the representative nuclide; all nuclides of a cell are scaled alike) -/
abbrev Heap := List Rat

def deref (heap : Heap) (cell : Nat) : Rat := heap.getD cell 0

/-- `Component.changeNDensByFactor(factor)` for component `i`: a NEW dict `{nuc: dens * factor}` is built from the
one the component refers to and assigned to the component; the old dict (and whoever else refers to it) is left
as it was -/
def changeNDens (heap : Heap) (cells : List Nat) (i : Nat) (f : Rat) : Heap × List Nat :=
  (heap ++ [deref heap (cells.getD i 0) * f], cells.set i heap.length)

/-- the density updates of one expansion: component `i, i+1, ...` get the factors `fs` in turn -/
def changeAll : Heap → List Nat → Nat → List Rat → Heap × List Nat
  | heap, cells, _, [] => (heap, cells)
  | heap, cells, i, f :: fs =>
    let r := changeNDens heap cells i f
    changeAll r.1 r.2 (i + 1) fs

/-- the density every component sees afterwards -/
def densitiesAfter (heap : Heap) (cells : List Nat) (fs : List Rat) : List Rat :=
  let r := changeAll heap cells 0 fs
  r.2.map (deref r.1)

end ArmiVerif.AxialExp
