/-
C18 model, part 2 — the independent reading of a parsed blueprint document (core Lean only):
  * block stack of an assembly: cumulative elevations        (Assembly.calculateZCoords)
  * component dimensions with `name.dim` links                (Component.resolveLinkedDims / getDimension(cold=True))
  * placement: grid contents (location ↦ specifier) ↦ design  (SystemBlueprint._loadComposites / Blueprints.constructAssem)
  * consistency of the per-block lists                        (AssemblyBlueprint._checkParamConsistency)
Materials, thermal expansion and composition are not modelled here (harness: independent Python evaluation).
-/
namespace ArmiVerif.Blueprint

/-! ### stacking -/

/-- `Assembly.calculateZCoords`: (zbottom, ztop) of every block, bottom first -/
def stackFrom (bottom : Rat) : List Rat → List (Rat × Rat)
  | [] => []
  | h :: hs => (bottom, bottom + h) :: stackFrom (bottom + h) hs

def stack (heights : List Rat) : List (Rat × Rat) := stackFrom 0 heights

/-- the axial mesh `[0, top_0, top_1, …]` written into the assembly grid bounds -/
def mesh (heights : List Rat) : List Rat := 0 :: (stack heights).map (·.2)

/-! ### linked dimensions -/

inductive Dim
  | num (q : Rat)
  | link (comp : String) (key : String)
  deriving Repr, DecidableEq

structure Comp where
  name : String
  dims : List (String × Dim)
  deriving Repr

def findComp (cs : List Comp) (n : String) : Option Comp := cs.find? (fun c => c.name == n)

def findDim (c : Comp) (k : String) : Option Dim := (c.dims.find? (fun d => d.1 == k)).map (·.2)

/-- `getDimension(key, cold=True)` through `_DimensionLink.resolveDimension`: follow links until a
number is reached. `fuel` bounds the chain (Python recursion limit); `none` = KeyError (unknown
component / dimension) or unbounded recursion on a cyclic chain. -/
def resolve (cs : List Comp) : Nat → String → String → Option Rat
  | 0, _, _ => none
  | fuel + 1, c, k =>
    match findComp cs c with
    | none => none
    | some comp =>
      match findDim comp k with
      | none => none
      | some (.num q) => some q
      | some (.link c' k') => resolve cs fuel c' k'

/-- what dimension `(c, k)` is declared as in the block -/
def declared (cs : List Comp) (c k : String) : Option Dim :=
  (findComp cs c).bind (fun comp => findDim comp k)

/-- enough fuel for any acyclic chain: one step per declared dimension -/
def fuelFor (cs : List Comp) : Nat := (cs.map (fun c => c.dims.length)).foldl (· + ·) 0 + 1

/-! ### placement -/

abbrev Cell := Int × Int

structure AssemDesign where
  name : String
  specifier : String
  blocks : List String
  heights : List Rat
  xsTypes : List String
  meshPoints : List Nat
  deriving Repr

/-- `_assembliesBySpecifier[specifier]` -/
def bySpecifier (ds : List AssemDesign) (s : String) : Option AssemDesign :=
  ds.find? (fun d => d.specifier == s)

/-- `_loadComposites`: every location of the grid contents gets an assembly of the design named by its
specifier; an unknown specifier raises (`none`). -/
def place (ds : List AssemDesign) : List (Cell × String) → Option (List (Cell × AssemDesign))
  | [] => some []
  | (loc, s) :: rest =>
    match bySpecifier ds s, place ds rest with
    | some d, some r => some ((loc, d) :: r)
    | _, _ => none

/-- `AssemblyBlueprint._checkParamConsistency`: the per-block lists have one entry per block -/
def consistent (d : AssemDesign) : Bool :=
  d.heights.length == d.blocks.length && d.xsTypes.length == d.blocks.length &&
  d.meshPoints.length == d.blocks.length


/-! ### per-block lists of an assembly design -/

/-- `AssemblyBlueprint._checkParamConsistency` + `_createBlock`: block `k` is built from the `k`-th entry of every
per-block list; lists of unequal length are refused (`none` = ValueError). -/
def pairBlocks (d : AssemDesign) : Option (List (String × Rat × String × Nat)) :=
  if consistent d then
    some (d.blocks.zip (d.heights.zip (d.xsTypes.zip d.meshPoints)))
  else none

/-- `_checkParamConsistency` over the material-modification lists (by block and by component alike): every list has
one entry per block -/
def listsConsistent (nBlocks : Nat) (lens : List Nat) : Bool := lens.all (· == nBlocks)

/-! ### multiplicity learned from a pin lattice -/

/-- `GridBlueprint.getLocators`: the grid positions whose specifier is one of the component's `latticeIDs`
(both sides stringified), in grid order -/
def positions (grid : List (Cell × String)) (ids : List String) : List Cell :=
  (grid.filter (fun p => ids.contains p.2)).map (·.1)

/-- the multiplicity rule of `BlockBlueprint.construct` for a component standing on `n` lattice positions:
not in the grid (`n = 0`) → the declared value is left alone; a declared value other than 0, 1 or `n` raises
(`none`); otherwise the multiplicity is the number of positions. Outer `none` = ValueError, inner = "not given". -/
def learnMult (declared : Option Rat) (n : Nat) : Option (Option Rat) :=
  if n = 0 then some declared
  else match declared with
    | none => some (some (n : Rat))
    | some m =>
      if m ≠ 0 ∧ m ≠ 1 ∧ m ≠ (n : Rat) then none
      else if m = 0 ∨ m = 1 then some (some (n : Rat))
      else some (some m)

def multFromGrid (grid : List (Cell × String)) (ids : List String) (declared : Option Rat) : Option (Option Rat) :=
  learnMult declared (positions grid ids).length

/-! ### flags from names -/

/-- multi-word phrases and aliases of `flags._CONVERSIONS`, in dictionary order: (phrase as words, flags) -/
def conversions : List (List String × List String) :=
  [(["GRID", "PLATE"], ["GRID_PLATE"]), (["GRID"], ["GRID_PLATE"]), (["INLET", "NOZZLE"], ["INLET_NOZZLE"]),
   (["NOZZLE"], ["INLET_NOZZLE"]), (["LOAD", "PAD"], ["LOAD_PAD"]), (["HANDLING", "SOCKET"], ["HANDLING_SOCKET"]),
   (["GUIDE", "TUBE"], ["GUIDE_TUBE"]), (["FISSION", "CHAMBER"], ["FISSION_CHAMBER"]), (["SOCKET"], ["HANDLING_SOCKET"]),
   (["SHIELD", "BLOCK"], ["SHIELD_BLOCK"]), (["SHIELDBLOCK"], ["SHIELD_BLOCK"]), (["CORE", "BARREL"], ["CORE_BARREL"]),
   (["INNERDUCT"], ["INNER", "DUCT"]), (["GAP1"], ["GAP", "A"]), (["GAP2"], ["GAP", "B"]), (["GAP3"], ["GAP", "C"]),
   (["GAP4"], ["GAP", "D"]), (["GAP5"], ["GAP", "E"]), (["LINER1"], ["LINER", "A"]), (["LINER2"], ["LINER", "B"])]

/-- remove every occurrence of the phrase (consecutive words); the flag says whether one was found -/
def removePhrase (ph : List String) : List String → List String × Bool
  | [] => ([], false)
  | w :: ws =>
    if !ph.isEmpty && ph.isPrefixOf (w :: ws) then
      let r := removePhrase ph ((w :: ws).drop ph.length)
      (r.1, true)
    else
      let r := removePhrase ph ws
      (w :: r.1, r.2)
termination_by l => l.length
decreasing_by
  all_goals simp_wf
  · cases ph with
    | nil => simp at *
    | cons a as => simp; omega

def stripDigits (s : String) : String := String.ofList (s.toList.filter (fun c => !c.isDigit))

/-- the word loop of `__fromStringGeneral` with the error-ignoring update method: an exact flag name wins,
otherwise digits are stripped and the rest must be a flag name, else the word is ignored -/
def wordFlags (known : List String) (ws : List String) : List String :=
  ws.filterMap (fun w =>
    if known.contains w then some w
    else
      let t := stripDigits w
      if t.isEmpty then none else if known.contains t then some t else none)

/-- `Flags.fromStringIgnoreErrors(name)` as a list of flag names (a set; order of discovery).
Domain: words are separated by blanks and consist of letters, digits and underscores. -/
def flagsOfName (known : List String) (name : String) : List String :=
  let ws0 := (name.toUpper.splitOn " ").filter (fun w => !w.isEmpty)
  let step := fun (acc : List String × List String) (cv : List String × List String) =>
    let r := removePhrase cv.1 acc.1
    if r.2 then (r.1, acc.2 ++ cv.2) else acc
  let r := conversions.foldl step (ws0, [])
  (r.2 ++ wordFlags known r.1).eraseDups

/-! ### pin bundle against the innermost duct  (blocks.py HexBlock.verifyBlockDims / getPinToDuctGap / getPinCenterFlatToFlat)

Covers blocks whose duct components are `Hexagon`s (the `HoledHexagon` / non-hexagonal innermost duct branches return
`None` = no check and are not generated).  Cold dimensions (verifyBlockDims asks for `cold=True`): the input numbers. -/

/-- what `verifyBlockDims` looks at of one component of the block -/
structure PComp where
  name : String
  /-- `hasFlags(Flags.DUCT)`, `Flags.CLAD`, `Flags.WIRE` (non-exact match) -/
  duct : Bool
  clad : Bool
  wire : Bool
  /-- Hexagon outer / inner flat-to-flat (ducts) -/
  op : Rat
  ip : Rat
  /-- Circle / Helix `od` -/
  od : Rat
  mult : Nat
  deriving Repr, DecidableEq

/-- `Component.__lt__` between two Hexagons: bounding circle `2·op/√3` first, inner circle `2·ip/√3` on a tie -/
def hexLt (a b : PComp) : Bool := if a.op = b.op then decide (a.ip < b.ip) else decide (a.op < b.op)

/-- `sorted(self.getChildrenWithFlags(Flags.DUCT))[0]`: the FIRST minimal element (Python's sort is stable) -/
def firstMin : List PComp → Option PComp
  | [] => none
  | c :: cs => match firstMin cs with
    | none => some c
    | some m => if hexLt m c then some m else some c

/-- `Composite.getComponent(flag)`: `some none` when no child has the flag, `some (some c)` when exactly one has,
`none` = ValueError when several have -/
def getOne (p : PComp → Bool) (cs : List PComp) : Option (Option PComp) :=
  match cs.filter p with
  | [] => some none
  | [c] => some (some c)
  | _ => none

/-- `hexagon.numRingsToHoldNumCells`: `ceil(0.5·(1 + sqrt(1 + 4·(n−1)//3)))`, 0 for no cells -/
def numRings (numCells : Nat) : Nat :=
  if numCells = 0 then 0 else
  let s := 1 + (4 * (numCells - 1)) / 3
  let r := Nat.sqrt s
  if r * r = s then (r + 2) / 2 else (r + 3) / 2

/-- `L < √3 · K`, decided exactly over the rationals -/
def ltSqrt3 (L K : Rat) : Bool :=
  if 0 ≤ K then decide (L < 0) || decide (L * L < 3 * K * K)
  else decide (L < 0) && decide (3 * K * K < L * L)

inductive DimVerdict
  /-- several clads / wires: "too complicated to verify dimensions" -/
  | skipped
  /-- no wire, clad or duct: `getPinToDuctGap` is `None` (warning at most) -/
  | nogap
  | accept
  /-- ValueError "Gap between pins and duct is … Make more room." -/
  | refuse
  deriving Repr, DecidableEq

/-- the gap test on the innermost duct: `pinToDuctGap < -0.005` with
`pinToDuctGap = (duct.ip − (√3·(nRings−1)·(clad.od + wire.od) + clad.od + 2·wire.od)) / 2` -/
def gapTooSmall (d c w : PComp) : Bool :=
  ltSqrt3 (d.ip - c.od - 2 * w.od + 1 / 100) (((numRings c.mult : Int) - 1 : Int) * (c.od + w.od))

/-- `HexBlock.verifyBlockDims` on the block's components in the order they were added (blueprint order) -/
def verifyBlockDims (cs : List PComp) : DimVerdict :=
  match getOne (·.wire) cs, getOne (·.clad) cs with
  | some w, some c =>
    match firstMin (cs.filter (·.duct)), w, c with
    | some d, some w, some c => if gapTooSmall d c w then .refuse else .accept
    | _, _, _ => .nogap
  | _, _ => .skipped

/-! ### custom-isotopics density on a library solid  (componentBlueprint.py ComponentBlueprint._setComponentCustomDensity)

The custom density is the density at Tinput.  `dLL` = the material's linear expansion from Tinput to Thot (a parameter). -/

/-- the hot density the component is given: `custom · f`, `f = 1/(1+dLL)²` when the input heights are considered hot (the block
height is used as it is), `1/(1+dLL)³` when they are cold (the block is expanded axially afterwards) -/
def customDensityHot (heightsHot : Bool) (custom dLL : Rat) : Rat :=
  if heightsHot then custom / ((1 + dLL) * (1 + dLL)) else custom / ((1 + dLL) * (1 + dLL) * (1 + dLL))

/-- hot cross-section of a solid: both transverse directions expand -/
def hotArea (coldArea dLL : Rat) : Rat := coldArea * ((1 + dLL) * (1 + dLL))

/-- the height the mass is computed with: the input height when it is considered hot, the axially expanded one otherwise -/
def hotHeight (heightsHot : Bool) (inputHeight dLL : Rat) : Rat := if heightsHot then inputHeight else inputHeight * (1 + dLL)

/-! ### third-core hex cores: which named locations are loaded  (reactorBlueprint.py SystemBlueprint._loadComposites →
cores.py Core.add with `symmetryOverlap`, then converters EdgeAssemblyChanger.removeEdgeAssemblies) -/

/-- `HexGrid.isInFirstThird` (flats-up, (i, j) indices): the centre, and the sector from the 0° line `i + 2j = 0` (included)
up to the 120° line `2i + j = 0` (excluded) -/
def inFirstThird (c : Cell) : Bool := (c.1 == 0 && c.2 == 0) || (decide (2 * c.1 + c.2 > 0) && decide (c.1 + 2 * c.2 ≥ 0))

/-- the 120° symmetry line beyond the centre: the "edge assemblies" (rings 3, 5, 7, …), duplicates of the 0° line that
`locatorInDomain(symmetryOverlap=True)` admits -/
def onOverlapLine (c : Cell) : Bool := decide (2 * c.1 + c.2 = 0) && decide (c.2 > 0)

/-- `Core.add`: a location is accepted when it lies in the represented domain, the overlap line included -/
def coreAccepts (third : Bool) (c : Cell) : Bool := !third || inFirstThird c || onOverlapLine c

/-- the image of a cell under the 120° rotation that carries the overlap line onto the 0° line -/
def rotMinus120 (c : Cell) : Cell := (c.2, -c.1 - c.2)

/-- what the core holds of the named locations after loading and trimming: `none` = ValueError ("non-existent locations");
edge assemblies are built and then removed by `removeEdgeAssemblies` -/
def loadThird (contents : List (Cell × String)) : Option (List (Cell × String)) :=
  if contents.all (fun p => coreAccepts true p.1) then some (contents.filter (fun p => !onOverlapLine p.1)) else none

end ArmiVerif.Blueprint
