/-
C18 model, part 2 — the independent reading of a parsed blueprint document (core Lean only):
  * block stack of an assembly: cumulative elevations        (Assembly.calculateZCoords)
  * component dimensions with `name.dim` links                (Component.resolveLinkedDims / getDimension(cold=True))
  * placement: grid contents (location ↦ specifier) ↦ design  (SystemBlueprint._loadComposites / Blueprints.constructAssem)
  * consistency of the per-block lists                        (AssemblyBlueprint._checkParamConsistency)
Materials, thermal expansion and composition are not modelled here (harness: independent Python evaluation).
-/
namespace ArmiVerif.Blueprint

/-! ### stacking -/

/-- `Assembly.calculateZCoords`: (zbottom, ztop) of every block, bottom first -/
def stackFrom (bottom : Rat) : List Rat → List (Rat × Rat)
  | [] => []
  | h :: hs => (bottom, bottom + h) :: stackFrom (bottom + h) hs

def stack (heights : List Rat) : List (Rat × Rat) := stackFrom 0 heights

/-- the axial mesh `[0, top_0, top_1, …]` written into the assembly grid bounds -/
def mesh (heights : List Rat) : List Rat := 0 :: (stack heights).map (·.2)

/-! ### linked dimensions -/

inductive Dim
  | num (q : Rat)
  | link (comp : String) (key : String)
  deriving Repr, DecidableEq

structure Comp where
  name : String
  dims : List (String × Dim)
  deriving Repr

def findComp (cs : List Comp) (n : String) : Option Comp := cs.find? (fun c => c.name == n)

def findDim (c : Comp) (k : String) : Option Dim := (c.dims.find? (fun d => d.1 == k)).map (·.2)

/-- `getDimension(key, cold=True)` through `_DimensionLink.resolveDimension`: follow links until a
number is reached. `fuel` bounds the chain (Python recursion limit); `none` = KeyError (unknown
component / dimension) or unbounded recursion on a cyclic chain. -/
def resolve (cs : List Comp) : Nat → String → String → Option Rat
  | 0, _, _ => none
  | fuel + 1, c, k =>
    match findComp cs c with
    | none => none
    | some comp =>
      match findDim comp k with
      | none => none
      | some (.num q) => some q
      | some (.link c' k') => resolve cs fuel c' k'

/-- what dimension `(c, k)` is declared as in the block -/
def declared (cs : List Comp) (c k : String) : Option Dim :=
  (findComp cs c).bind (fun comp => findDim comp k)

/-- enough fuel for any acyclic chain: one step per declared dimension -/
def fuelFor (cs : List Comp) : Nat := (cs.map (fun c => c.dims.length)).foldl (· + ·) 0 + 1

/-! ### placement -/

abbrev Cell := Int × Int

structure AssemDesign where
  name : String
  specifier : String
  blocks : List String
  heights : List Rat
  xsTypes : List String
  meshPoints : List Nat
  deriving Repr

/-- `_assembliesBySpecifier[specifier]` -/
def bySpecifier (ds : List AssemDesign) (s : String) : Option AssemDesign :=
  ds.find? (fun d => d.specifier == s)

/-- `_loadComposites`: every location of the grid contents gets an assembly of the design named by its
specifier; an unknown specifier raises (`none`). -/
def place (ds : List AssemDesign) : List (Cell × String) → Option (List (Cell × AssemDesign))
  | [] => some []
  | (loc, s) :: rest =>
    match bySpecifier ds s, place ds rest with
    | some d, some r => some ((loc, d) :: r)
    | _, _ => none

/-- `AssemblyBlueprint._checkParamConsistency`: the per-block lists have one entry per block -/
def consistent (d : AssemDesign) : Bool :=
  d.heights.length == d.blocks.length && d.xsTypes.length == d.blocks.length &&
  d.meshPoints.length == d.blocks.length

end ArmiVerif.Blueprint
