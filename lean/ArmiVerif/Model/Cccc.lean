/-
Model of armi/nuclearDataIO/cccc/cccc.py : primitive codecs, record framing, the bidirectional
`rw*` programs, Fortran-order matrices, block bandwidths, ISOTXS band indexing, ASCII fields.
Core Lean only.  Each definition names the Python function it transcribes.
-/
namespace ArmiVerif.Cccc

abbrev Bytes := List UInt8

/-! ## little-endian words (struct.pack("i"/"q"/"f"/"d") on the little-endian hosts armi runs on) -/

/-- the `k` low bytes of `n`, least significant first -/
def leBytes : Nat → Nat → Bytes
  | 0, _ => []
  | k + 1, n => UInt8.ofNat (n % 256) :: leBytes k (n / 256)

/-- value of a little-endian byte string -/
def leVal : Bytes → Nat
  | [] => 0
  | b :: bs => b.toNat + 256 * leVal bs

/-- two's complement: signed → unsigned `8k`-bit pattern -/
def toUnsigned (bits : Nat) (v : Int) : Nat := (v % (2 ^ bits : Nat)).toNat

/-- two's complement: unsigned `bits`-bit pattern → signed -/
def toSigned (bits : Nat) (n : Nat) : Int :=
  if n < 2 ^ (bits - 1) then (n : Int) else (n : Int) - (2 ^ bits : Nat)

/-- `stream.read(k)` followed by `struct.unpack`: fails (struct.error) on a short read -/
def takeExact : Nat → Bytes → Option (Bytes × Bytes)
  | 0, bs => some ([], bs)
  | _ + 1, [] => none
  | k + 1, b :: bs => match takeExact k bs with
    | none => none
    | some (w, r) => some (b :: w, r)

/-! ## a codec = one `rw*` routine seen from both sides -/

/-- `enc` = what the Writer class appends, `dec` = what the Reader class consumes and returns,
`size` = what the Writer adds to `numBytes` (the count that goes in the record frame),
`ok` = the values for which `struct.pack` succeeds and reading returns the same value. -/
structure Codec (β : Type) where
  enc : β → Bytes
  dec : Bytes → Option (β × Bytes)
  size : β → Nat
  ok : β → Prop

/-- BinaryRecordWriter.rwInt / BinaryRecordReader.rwInt -/
def int32 : Codec Int where
  enc v := leBytes 4 (toUnsigned 32 v)
  dec bs := match takeExact 4 bs with
    | none => none
    | some (w, rest) => some (toSigned 32 (leVal w), rest)
  size _ := 4
  ok v := -2147483648 ≤ v ∧ v < 2147483648

/-- BinaryRecordWriter.rwLong / BinaryRecordReader.rwLong (numBytes += _longSize since the F1 fix) -/
def int64 : Codec Int where
  enc v := leBytes 8 (toUnsigned 64 v)
  dec bs := match takeExact 8 bs with
    | none => none
    | some (w, rest) => some (toSigned 64 (leVal w), rest)
  size _ := 8
  ok v := -9223372036854775808 ≤ v ∧ v < 9223372036854775808

/-- rwFloat: the IEEE single is an opaque 32-bit pattern (double→single rounding is a parameter) -/
def bits32 : Codec Nat where
  enc n := leBytes 4 n
  dec bs := match takeExact 4 bs with
    | none => none
    | some (w, rest) => some (leVal w, rest)
  size _ := 4
  ok n := n < 4294967296

/-- rwDouble: opaque 64-bit pattern -/
def bits64 : Codec Nat where
  enc n := leBytes 8 n
  dec bs := match takeExact 8 bs with
    | none => none
    | some (w, rest) => some (leVal w, rest)
  size _ := 8
  ok n := n < 18446744073709551616

/-- bytes.rstrip() strips ASCII whitespace: space, \t \n \v \f \r -/
def isWs (b : UInt8) : Bool := b == 32 || (9 ≤ b && b ≤ 13)

/-- `rstrip` of a byte string -/
def rstrip (s : Bytes) : Bytes := (s.reverse.dropWhile isWs).reverse

/-- `val.ljust(len)` then `struct.pack("%ds" % len, …)` (which truncates to `len` bytes) -/
def padTo (len : Nat) (s : Bytes) : Bytes := (s ++ List.replicate (len - s.length) 32).take len

/-- BinaryRecordWriter.rwString / BinaryRecordReader.rwString for ASCII text (one byte per character) -/
def str (len : Nat) : Codec Bytes where
  enc s := padTo len s
  dec bs := match takeExact len bs with
    | none => none
    | some (w, rest) => some (rstrip w, rest)
  size _ := len
  ok s := s.length ≤ len ∧ rstrip s = s

/-! ## bidirectional programs (IORecord: "the same method can be used for both reading and writing") -/

/-- one record body: a sequence of `rw*` calls whose later calls may depend on earlier results -/
inductive RW (α : Type) : Type 1 where
  | done : α → RW α
  | prim {β : Type} (c : Codec β) (v : β) (k : β → RW α) : RW α

namespace RW

/-- Writer classes: returns (data joined, numBytes accumulated, result). The writer's `rw*` returns `val`. -/
def write {α} : RW α → Bytes × Nat × α
  | done a => ([], 0, a)
  | prim c v k =>
    let r := write (k v)
    (c.enc v ++ r.1, c.size v + r.2.1, r.2.2)

/-- Reader classes -/
def read {α} : RW α → Bytes → Option (α × Bytes)
  | done a, bs => some (a, bs)
  | prim c _ k, bs =>
    match c.dec bs with
    | none => none
    | some (x, rest) => read (k x) rest

/-- every value handed to a writer routine is in that routine's domain -/
def WF {α} : RW α → Prop
  | done _ => True
  | prim c v k => c.ok v ∧ WF (k v)

/-- the program with every to-be-written value replaced by what a read of `bs` returns
(= "write what was read") -/
def reseed {α} : RW α → Bytes → RW α
  | done a, _ => done a
  | prim c v k, bs =>
    match c.dec bs with
    | none => prim c v k
    | some (x, rest) => prim c x (fun y => reseed (k y) rest)

/-- every field of `bs` read by the program is the canonical encoding of its value -/
def Canon {α} : RW α → Bytes → Prop
  | done _, _ => True
  | prim c _ k, bs =>
    match c.dec bs with
    | none => True
    | some (x, rest) => c.enc x ++ rest = bs ∧ Canon (k x) rest

/-- all routines used add to `numBytes` exactly the number of bytes they append -/
def Exact {α} : RW α → Prop
  | done _ => True
  | prim c v k => (∀ x, (c.enc x).length = c.size x) ∧ Exact (k v)

end RW

/-! ## record framing and files -/

/-- how a record is delimited: BinaryRecordWriter.close / BinaryRecordReader.open+close, or the Ascii classes -/
structure Frame where
  count : Codec Int
  /-- AsciiRecordWriter.close writes "\n"; AsciiRecordReader.close reads one character -/
  term : Bytes

def binaryFrame : Frame := { count := int32, term := [] }

/-- a file: a sequence of records; which records follow may depend on what earlier ones returned -/
inductive File (α : Type) : Type 1 where
  | done : α → File α
  | record {β : Type} (body : RW β) (k : β → File α) : File α

namespace File

/-- `with createRecord() as record: …` in a writing stream, then the rest of readWrite() -/
def write {α} (fr : Frame) : File α → Bytes × α
  | done a => ([], a)
  | record body k =>
    let w := body.write
    let r := write fr (k w.2.2)
    (fr.count.enc (w.2.1 : Nat) ++ w.1 ++ fr.count.enc (w.2.1 : Nat) ++ fr.term ++ r.1, r.2)

/-- the same in a reading stream: open reads the count, close reads it again and compares
(BufferError when they differ), the Ascii reader then skips one character -/
def read {α} (fr : Frame) : File α → Bytes → Option (α × Bytes)
  | done a, bs => some (a, bs)
  | record body k, bs =>
    match fr.count.dec bs with
    | none => none
    | some (n, r1) =>
      match body.read r1 with
      | none => none
      | some (b, r2) =>
        match fr.count.dec r2 with
        | none => none
        | some (n2, r3) =>
          if n2 = n then
            match takeExact fr.term.length r3 with
            | none => none
            | some (_, r4) => read fr (k b) r4
          else none

def WF {α} (fr : Frame) : File α → Prop
  | done _ => True
  | record body k => body.WF ∧ fr.count.ok (body.write.2.1 : Int) ∧ WF fr (k body.write.2.2)

/-- the list of (leading count, payload, trailing count) of the records a write produces -/
def frames {α} : File α → List (Nat × Bytes)
  | done _ => []
  | record body k => (body.write.2.1, body.write.1) :: frames (k body.write.2.2)

/-- the file program re-seeded, record by record, with what a read of `bs` returns -/
def reseed {α} (fr : Frame) : File α → Bytes → File α
  | .done a, _ => .done a
  | .record body k, bs =>
    match fr.count.dec bs with
    | none => .record body k
    | some (_, r1) =>
      match body.read r1 with
      | none => .record body k
      | some (_, r2) =>
        match fr.count.dec r2 with
        | none => .record body k
        | some (_, r3) =>
          match takeExact fr.term.length r3 with
          | none => .record body k
          | some (_, r4) => .record (body.reseed r1) (fun y => reseed fr (k y) r4)

/-- every record of `bs` is canonically encoded: canonical count fields, the leading count equal to the
byte count its fields declare, canonical fields, the frame's terminator -/
def Canon {α} (fr : Frame) : File α → Bytes → Prop
  | .done _, _ => True
  | .record body k, bs =>
    match fr.count.dec bs with
    | none => True
    | some (n, r1) =>
      match body.read r1 with
      | none => True
      | some (b, r2) =>
        match fr.count.dec r2 with
        | none => True
        | some (n2, r3) =>
          match takeExact fr.term.length r3 with
          | none => True
          | some (w, r4) =>
            fr.count.enc n ++ r1 = bs ∧ n = ((body.reseed r1).write.2.1 : Nat) ∧ body.Canon r1 ∧
            fr.count.enc n2 ++ r3 = r2 ∧ w = fr.term ∧ Canon fr (k b) r4


end File

/-! ## containers derived from the primitives -/

/-- IORecord.rwList: `[action(contents[ii]) for ii in range(length)]` -/
def rwList {β α} (c : Codec β) : List β → (List β → RW α) → RW α
  | [], k => k []
  | v :: vs, k => RW.prim c v (fun x => rwList c vs (fun xs => k (x :: xs)))

/-- itertools.product(*[range(n) for n in shape]) -/
def product : List Nat → List (List Nat)
  | [] => [[]]
  | n :: ns => (List.range n).flatMap (fun i => (product ns).map (fun t => i :: t))

/-- IORecord._rwMatrix: the multi-indices into `contents` (whose numpy shape is `reversed(shape)`)
in the order in which `func` is applied: `fortranIndex = tuple(reversed(index))` -/
def matrixOrder (shape : List Nat) : List (List Nat) := (product shape).map List.reverse

/-- row-major (numpy C order) flat position of a multi-index in an array of the given shape -/
def flatPos : List Nat → List Nat → Nat
  | _ :: ns, i :: is => i * ns.foldl (· * ·) 1 + flatPos ns is
  | _, _ => 0

/-- FORTRAN 77 implicit typing in rwImplicitlyTypedMap: first letter in IJKLMN → int, else float -/
def implicitInt (firstUpper : Char) : Bool := "IJKLMN".toList.contains firstUpper

/-! ## cccc.getBlockBandwidth -/

/-- `x = (nintj - 1) // nblok + 1; jLow = (m-1)*x + 1; jHigh = min(nintj, m*x); return jLow-1, jHigh-1`
(Python floor division; ZeroDivisionError for nblok = 0) -/
def getBlockBandwidth (m nintj nblok : Int) : Option (Int × Int) :=
  if nblok = 0 then none else
  let x := Int.fdiv (nintj - 1) nblok + 1
  let jLow := (m - 1) * x + 1
  let jHigh := min nintj (m * x)
  some (jLow - 1, jHigh - 1)

/-- natural-number reading used by the partition theorem (nblok ≥ 1): block `m` (0-based) starts at
`m*x` and holds `width` columns -/
def bandX (nintj nblok : Nat) : Nat := (nintj - 1) / nblok + 1
def bandLow (nintj nblok m : Nat) : Nat := m * bandX nintj nblok
def bandWidth (nintj nblok m : Nat) : Nat := min nintj ((m + 1) * bandX nintj nblok) - bandLow nintj nblok m

/-! ## isotxs._IsotxsNuclideIO._rw7DRecord band indexing (one row `g` of one scatter block)

`jup = g + metadata["jj"][g, block]`, `bandWidth = metadata["jband"][g, block]`, `jdown = jup - bandWidth`;
the functions below take `jup` and `jband` (JJ > 1, i.e. up-scatter, just means jup > g + 1). -/

/-- reading: `indices.extend(range(jup - 1, jdown - 1, -1))` -/
def bandCols (jup jband : Nat) : List Nat := (List.range jband).map (fun p => jup - 1 - p)

/-- writing: `reversed(scatter[g, jdown:jup].tolist())` -/
def bandWrite {β} (row : List β) (jup jband : Nat) : List β :=
  ((row.drop (jup - jband)).take jband).reverse

/-- placing the values read at the columns read into an all-default row of length ng (what the CSR
constructor does with `(data, indices, indptr)` for one row) -/
def bandPlace {β} (dflt : β) (ng : Nat) (cols : List Nat) (vals : List β) : List β :=
  (List.range ng).map (fun c => match (cols.zip vals).find? (fun cv => cv.1 == c) with
    | some cv => cv.2 | none => dflt)

/-! ## ASCII-mode fixed-width fields (AsciiRecordWriter / AsciiRecordReader) -/

def digitChar (d : Nat) : UInt8 := UInt8.ofNat (48 + d % 10)

/-- decimal digits of a natural number, most significant first ("0" for 0) -/
def natDigits (n : Nat) : Bytes :=
  if _h : n < 10 then [digitChar n] else natDigits (n / 10) ++ [digitChar (n % 10)]
termination_by n
decreasing_by omega

def padLeft (w : Nat) (s : Bytes) : Bytes := List.replicate (w - s.length) 32 ++ s

/-- `" {:>+10}".format(v)`: a space, then sign and digits right-aligned in 10 columns (longer when
they do not fit — F24) -/
def asciiIntField (v : Int) : Bytes :=
  let sign : UInt8 := if v < 0 then 45 else 43
  32 :: padLeft 10 (sign :: natDigits v.natAbs)

/-- value of a digit string, `none` when a character is not a digit or the string is empty -/
def parseNat (s : Bytes) : Option Nat :=
  if s.isEmpty then none else
  s.foldl (fun acc (b : UInt8) => match acc with
    | none => none
    | some a => if 48 ≤ b ∧ b ≤ 57 then some (a * 10 + (b.toNat - 48)) else none) (some 0)

/-- Python `int(text)` for the texts the writer can produce: surrounding blanks, optional sign, digits -/
def parseInt (s : Bytes) : Option Int :=
  let t := (rstrip s).dropWhile isWs
  match t with
  | 43 :: ds => (parseNat ds).map (fun n => (n : Int))
  | 45 :: ds => (parseNat ds).map (fun n => -(n : Int))
  | ds => (parseNat ds).map (fun n => (n : Int))

/-- AsciiRecordWriter.rwInt / AsciiRecordReader.rwInt: `int(stream.read(11))`; declares 4 bytes -/
def asciiInt : Codec Int where
  enc v := asciiIntField v
  dec bs :=
    -- text-mode read(11) returns what is left at end of file; int() of it fails unless it parses
    let w := bs.take 11
    match parseInt w with
    | none => none
    | some v => some (v, bs.drop 11)
  size _ := 4
  ok v := -999999999 ≤ v ∧ v ≤ 999999999

/-- AsciiRecordWriter.rwString `" {value:<{length}}"` / AsciiRecordReader.rwString (skip one, read length, rstrip) -/
def asciiStr (len : Nat) : Codec Bytes where
  enc s := 32 :: (s ++ List.replicate (len - s.length) 32)
  dec bs := match takeExact (len + 1) bs with
    | none => none
    | some (w, rest) => some (rstrip (w.drop 1), rest)
  size _ := len
  ok s := s.length ≤ len ∧ rstrip s = s

/-- AsciiRecordWriter.close / AsciiRecordReader.open+close: the declared count as an integer field before and
after the data, then a newline -/
def asciiFrame : Frame := { count := asciiInt, term := [10] }

/-- the 17 significant decimal digits (as one integer D, 10^16 ≤ D < 10^17) and the decimal exponent k of the first
digit of |x| = mant * 2^e2 (mant ≠ 0; e2 may be negative): |x| ≈ D · 10^(k-16), correctly rounded (half-even) -/
def floatDigits (mant : Nat) (e2 : Int) : Nat × Int :=
  -- |x| = num / den
  let num : Nat := if e2 ≥ 0 then mant * 2 ^ e2.toNat else mant
  let den : Nat := if e2 ≥ 0 then 1 else 2 ^ (-e2).toNat
  -- decimal exponent k with 10^k ≤ num/den < 10^(k+1): start from an estimate and correct
  let est : Int := ((Nat.log2 num : Int) - (Nat.log2 den : Int)) * 30103 / 100000
  let ge (k : Int) : Bool := -- num/den ≥ 10^k
    if k ≥ 0 then decide (num ≥ den * 10 ^ k.toNat) else decide (num * 10 ^ (-k).toNat ≥ den)
  let k0 : Int := est + 2
  let k : Int := if ge k0 then k0 else if ge (k0 - 1) then k0 - 1 else if ge (k0 - 2) then k0 - 2
                 else if ge (k0 - 3) then k0 - 3 else k0 - 4
  -- scaled = num/den * 10^(16-k), rounded half-even
  let s : Int := 16 - k
  let n2 : Nat := if s ≥ 0 then num * 10 ^ s.toNat else num
  let d2 : Nat := if s ≥ 0 then den else den * 10 ^ (-s).toNat
  let q := n2 / d2
  let r := n2 % d2
  let q' := if 2 * r > d2 then q + 1 else if 2 * r = d2 then (if q % 2 = 0 then q else q + 1) else q
  if q' ≥ 10 ^ 17 then (q' / 10, k + 1) else (q', k)

/-- the text `" ±d.ddddddddddddddddE±XX"` of the digits `D` and the decimal exponent `k` (exponent at least two
digits) -/
def eText (neg : Bool) (D : Nat) (k : Int) : Bytes :=
  let sign : UInt8 := if neg then 45 else 43
  let ds := natDigits D
  let esign : UInt8 := if k < 0 then 45 else 43
  let eds := natDigits k.natAbs
  let eds := if eds.length < 2 then 48 :: eds else eds
  32 :: sign :: (ds.take 1 ++ [46] ++ ds.drop 1) ++ [69, esign] ++ eds

/-- `" {:+.16E}".format(x)` for a finite double given by sign, and |x| = mant * 2^e2 (e2 may be negative):
correctly rounded (round-half-even) 17 significant digits, exponent at least two digits. -/
def asciiFloatField (neg : Bool) (mant : Nat) (e2 : Int) : Bytes :=
  let sign : UInt8 := if neg then 45 else 43
  if mant = 0 then
    32 :: sign :: (48 :: 46 :: List.replicate 16 48) ++ [69, 43, 48, 48]
  else
    eText neg (floatDigits mant e2).1 (floatDigits mant e2).2

/-- decode an IEEE double bit pattern: (negative, mantissa, binary exponent); none for inf/nan -/
def doubleParts (n : Nat) : Option (Bool × Nat × Int) :=
  let neg : Bool := decide (n / 2 ^ 63 % 2 = 1)
  let e : Nat := n / 2 ^ 52 % 2048
  let fr : Nat := n % 2 ^ 52
  if e = 2047 then none
  else if e = 0 then some (neg, fr, -1074)
  else some (neg, fr + 2 ^ 52, (e : Int) - 1075)

/-- the text `" {:+.16E}".format(x)` of the double with bit pattern `n` ([] for inf/nan) -/
def asciiRealField (n : Nat) : Bytes :=
  match doubleParts n with
  | some (neg, m, e) => asciiFloatField neg m e
  | none => []

/-- AsciiRecordWriter.rwFloat/rwDouble and AsciiRecordReader.rwFloat (`float(stream.read(24))`); the value is the
64-bit pattern of the Python float; `parse` stands for Python's `float(text)` (a parameter of the model);
`declared` = 4 for rwFloat, 8 for rwDouble -/
def asciiReal (parse : Bytes → Option Nat) (declared : Nat) : Codec Nat where
  enc n := asciiRealField n
  dec bs := match parse (bs.take 24) with
    | none => none
    | some v => some (v, bs.drop 24)
  size _ := declared
  ok n := (doubleParts n).isSome ∧ (asciiRealField n).length = 24

/-! ## Python `float(text)` on the texts of the E format, and the Ascii classes as they are

`float()` is correctly rounded: the decimal number the text denotes is converted to the nearest double, ties to even.
`parseEText` reads the text exactly (sign, decimal digits, exponent); `roundToDouble` rounds the exact rational. -/

def isDigit (b : UInt8) : Bool := 48 ≤ b && b ≤ 57

/-- optional sign, digits (the exponent part) -/
def parseSignedNat (s : Bytes) : Option Int :=
  match s with
  | 43 :: ds => (parseNat ds).map (fun n => (n : Int))
  | 45 :: ds => (parseNat ds).map (fun n => -(n : Int))
  | ds => (parseNat ds).map (fun n => (n : Int))

/-- `[blanks][sign]digits[.digits][E[sign]digits][blanks]` (at least one mantissa digit) ↦ (negative, all mantissa
digits as one number, decimal exponent of the last mantissa digit); `none` for any other text (inf/nan/underscores:
the writer produces none of them) -/
def parseEText (s : Bytes) : Option (Bool × Nat × Int) :=
  let t := (rstrip s).dropWhile isWs
  let st : Bool × Bytes := match t with
    | 45 :: r => (true, r)
    | 43 :: r => (false, r)
    | r => (false, r)
  let ip := st.2.takeWhile isDigit
  let t1 := st.2.dropWhile isDigit
  let fr : Bytes × Bytes := match t1 with
    | 46 :: t2 => (t2.takeWhile isDigit, t2.dropWhile isDigit)
    | _ => ([], t1)
  let ex : Option Int := match fr.2 with
    | [] => some 0
    | 69 :: t4 => parseSignedNat t4
    | 101 :: t4 => parseSignedNat t4
    | _ => none
  match ex, parseNat (ip ++ fr.1) with
  | some e, some m => some (st.1, m, e - (fr.1.length : Int))
  | _, _ => none

/-- the double nearest to ±m·10^e10 (round half to even), as a 64-bit pattern; `none` when it overflows (Python
returns inf, which no finite double's text denotes) -/
def roundToDouble (neg : Bool) (m : Nat) (e10 : Int) : Option Nat :=
  let sign : Nat := if neg then 2 ^ 63 else 0
  if m = 0 then some sign else
  let num : Nat := if e10 ≥ 0 then m * 10 ^ e10.toNat else m
  let den : Nat := if e10 ≥ 0 then 1 else 10 ^ (-e10).toNat
  -- t with 2^t ≤ num/den < 2^(t+1)
  let est : Int := (Nat.log2 num : Int) - (Nat.log2 den : Int)
  let ge2 (t : Int) : Bool :=
    if t ≥ 0 then decide (num ≥ den * 2 ^ t.toNat) else decide (num * 2 ^ (-t).toNat ≥ den)
  let t : Int := if ge2 (est + 1) then est + 1 else if ge2 est then est else est - 1
  -- the unit in the last place is 2^e2: 53 significant bits, not below the subnormal spacing
  let e2 : Int := max (t - 52) (-1074)
  let n2 : Nat := if e2 ≥ 0 then num else num * 2 ^ (-e2).toNat
  let d2 : Nat := if e2 ≥ 0 then den * 2 ^ e2.toNat else den
  let q := n2 / d2
  let r := n2 % d2
  let q' := if 2 * r > d2 then q + 1 else if 2 * r = d2 then (if q % 2 = 0 then q else q + 1) else q
  let mm : Nat := if q' ≥ 2 ^ 53 then q' / 2 else q'
  let ee : Int := if q' ≥ 2 ^ 53 then e2 + 1 else e2
  if mm < 2 ^ 52 then some (sign + mm)
  else
    let be : Int := ee + 1075
    if be ≥ 2047 then none else some (sign + be.toNat * 2 ^ 52 + (mm - 2 ^ 52))

/-- Python `float(text)` for E-format texts -/
def parseFloatText (s : Bytes) : Option Nat :=
  match parseEText s with
  | some (neg, m, e) => roundToDouble neg m e
  | none => none

/-- AsciiRecordWriter.rwFloat/rwDouble and AsciiRecordReader.rwFloat with the modelled `float()`. A value is in the
routine's domain when it is finite, its text fills the 24 columns exactly, and the text converts back to it - all
three decidable (the last one is what `float(format(x)) == x` means for this x) -/
def asciiRealM (declared : Nat) : Codec Nat where
  enc n := asciiRealField n
  dec bs := match parseFloatText (bs.take 24) with
    | none => none
    | some v => some (v, bs.drop 24)
  size _ := declared
  ok n := (doubleParts n).isSome ∧ (asciiRealField n).length = 24 ∧ parseFloatText (asciiRealField n) = some n

instance (declared : Nat) : DecidablePred (asciiRealM declared).ok := fun n => by
  unfold asciiRealM; exact inferInstance

/-- the Ascii record classes have no `rwLong` (AttributeError): no value is in its domain -/
def asciiLong : Codec Int where
  enc _ := []
  dec _ := none
  size _ := 0
  ok _ := False

/-! ## bookkeeping around the records -/

/-- AtfluxStream.getEnergyGroupIndex / NafluxStream._getEnergyGroupIndex: `ng - g - 1` (the forward files'
RtfluxStream / NhfluxStream methods are the identity) -/
def revGroup (ng g : Int) : Int := ng - g - 1

/-- IsotxsIO._computeNumIsotxsRecords: the 4D and 5D records, the 6D record when chiFlag > 1, one 7D record per
scattering block with ords > 0 -/
def isotxsNumRecords (chiFlag : Int) (ords : List Int) : Nat :=
  2 + (if chiFlag > 1 then 1 else 0) + (ords.filter (fun o => o > 0)).length

/-- IsotxsIO._computeNuclideRecordOffset: `[sum(recordsPerNuclide[0:ii]) for ii in range(len(lib))]` -/
def recordOffsets (counts : List Nat) : List Nat :=
  (List.range counts.length).map (fun ii => (counts.take ii).sum)

/-- the same list in one pass (running total) -/
def runningOffsets : Nat → List Nat → List Nat
  | _, [] => []
  | acc, c :: cs => acc :: runningOffsets (acc + c) cs

/-! ## container attribute ↔ value sequence: whole scatter blocks, COMPXS columns, adjoint group order -/

/-- isotxs._rw7DRecord, writing: the bands of all rows of a block, one after the other; a row comes with its
(jup, jband) = (g + JJ(g), JBAND(g)) -/
def scatFlatten {β} : List (List β × Nat × Nat) → List β
  | [] => []
  | (row, jup, jb) :: rs => bandWrite row jup jb ++ scatFlatten rs

/-- isotxs._rw7DRecord, reading: the record's values cut into the rows' band widths (`indptr`) and placed at the
columns `indices` gives them - the dense meaning of `csr_matrix((data, indices, indptr), shape=(ng, ng))` -/
def scatUnflatten {β} (dflt : β) (ng : Nat) : List (Nat × Nat) → List β → List (List β)
  | [], _ => []
  | (jup, jb) :: bs, vals =>
    bandPlace dflt ng (bandCols jup jb) (vals.take jb) :: scatUnflatten dflt ng bs (vals.drop jb)

/-- compxs._flattenScatteringVector: `reversed(col[group - ndn : group + nup + 1])` -/
def compxsFlatten {β} (col : List β) (group nup ndn : Nat) : List β := bandWrite col (group + nup + 1) (nup + 1 + ndn)

/-- compxs._rwScatteringMatrix: `reversed(range(group - ndn, group + nup + 1))` -/
def compxsIndices (group nup ndn : Nat) : List Nat := bandCols (group + nup + 1) (nup + 1 + ndn)

/-- ATFLUX / NAFLUX: the container's groups in the order they stand in the file (`gEff = ng - g - 1`) -/
def adjointOrder {β} (c : List β) (d : β) : List β :=
  (List.range c.length).map (fun (g : Nat) => c.getD (revGroup (c.length : Int) (g : Int)).toNat d)

/-! ## record schemas: the field combinators every format's `readWrite()` is built from

A *schema* is first-order syntax for what a `Stream.readWrite()` does: records made of `rwInt`/`rwLong`/`rwFloat`/
`rwDouble`/`rwString` calls, `rwList`/`rwMatrix` (counted repetition of one call), `if` on header values (optional
fields / optional records) and `for` loops whose bounds are integer expressions over the header values read so far.
`Rec.toRW` / `FileS.toFile` interpret a schema as a bidirectional `RW` / `File` program: integers are bound to names
when they come back from the `rw*` call, so in a reading stream every later count, condition and loop bound is taken
from what was read — exactly like `self._metadata[key] = record.rwInt(self._metadata[key])` followed by uses of
`self._metadata[key]`. -/

/-- the five `rw*` routines -/
inductive Ty where
  | i | l | f | d | s (len : Nat)
  deriving DecidableEq, Repr

/-- header values read so far (`self._metadata`, per-nuclide metadata, loop variables); a missing key reads 0 -/
abbrev Env := List (String × Int)

def Env.get (env : Env) (x : String) : Int :=
  match env.find? (fun p => p.1 == x) with
  | some p => p.2
  | none => 0

/-- integer expressions and conditions (0 = false) over the header values -/
inductive E where
  | lit (n : Int)
  | var (x : String)
  /-- `x[i]` -/
  | at1 (x : String) (i : E)
  /-- `x[i, j]` -/
  | at2 (x : String) (i j : E)
  | add (a b : E) | sub (a b : E) | mul (a b : E) | min (a b : E)
  /-- Python `//` -/
  | fdiv (a b : E)
  | lt (a b : E) | le (a b : E) | eq (a b : E)
  | and (a b : E) | or (a b : E) | not (a : E)
  /-- `sum(body for v in range(n))` -/
  | sum (n : E) (v : String) (body : E)
  deriving Repr

def key1 (x : String) (i : Int) : String := x ++ "[" ++ toString i ++ "]"
def key2 (x : String) (i j : Int) : String := x ++ "[" ++ toString i ++ "," ++ toString j ++ "]"

def b2i (b : Bool) : Int := if b then 1 else 0

def E.eval : E → Env → Int
  | .lit n, _ => n
  | .var x, env => env.get x
  | .at1 x i, env => env.get (key1 x (i.eval env))
  | .at2 x i j, env => env.get (key2 x (i.eval env) (j.eval env))
  | .add a b, env => a.eval env + b.eval env
  | .sub a b, env => a.eval env - b.eval env
  | .mul a b, env => a.eval env * b.eval env
  | .min a b, env => Min.min (a.eval env) (b.eval env)
  | .fdiv a b, env => Int.fdiv (a.eval env) (b.eval env)
  | .lt a b, env => b2i (decide (a.eval env < b.eval env))
  | .le a b, env => b2i (decide (a.eval env ≤ b.eval env))
  | .eq a b, env => b2i (decide (a.eval env = b.eval env))
  | .and a b, env => b2i (a.eval env != 0 && b.eval env != 0)
  | .or a b, env => b2i (a.eval env != 0 || b.eval env != 0)
  | .not a, env => b2i (a.eval env == 0)
  | .sum n v body, env =>
    (List.range (n.eval env).toNat).foldl (fun (acc : Int) (k : Nat) => acc + body.eval ((v, (k : Int)) :: env)) 0

/-- where the integer returned by a `rwInt` is stored: `name` or `name[ix…]` (at most two indices) -/
structure Bind where
  name : String
  ix : List E := []
  deriving Repr

def Bind.key (b : Bind) (env : Env) : String :=
  match b.ix with
  | [] => b.name
  | [i] => key1 b.name (i.eval env)
  | i :: j :: _ => key2 b.name (i.eval env) (j.eval env)

/-- the body of one record -/
inductive Rec where
  | nil
  /-- one `rw*` call; an integer may be stored under a name -/
  | fld (t : Ty) (bind : Option Bind) (rest : Rec)
  /-- `rwList` / `rwMatrix` / a comprehension of one call: `n` fields of type `t`, element k stored as `bind[k]` -/
  | rep (n : E) (t : Ty) (bind : Option String) (rest : Rec)
  /-- `rwString(val, length)` with a computed length -/
  | strv (len : E) (rest : Rec)
  /-- `if c: body` -/
  | opt (c : E) (body rest : Rec)
  /-- `for v in range(n): body` (inside one record) -/
  | loop (n : E) (v : String) (body rest : Rec)
  deriving Repr

/-- a file: records, optional records, counted loops of records -/
inductive FileS where
  | nil
  | one (r : Rec) (rest : FileS)
  | opt (c : E) (body rest : FileS)
  /-- `for v in range(n): body`; what an iteration binds is local to it (per-nuclide / per-region metadata) -/
  | loop (n : E) (v : String) (body rest : FileS)
  deriving Repr

/-- a value handed to / returned by a `rw*` call: an integer, a 32/64-bit real pattern, or text -/
inductive Val where
  | i (v : Int) | n (v : Nat) | s (b : Bytes)
  deriving Repr, DecidableEq

def Val.int : Val → Int
  | .i v => v | .n v => v | .s _ => 0
def Val.nat : Val → Nat
  | .n v => v | .i v => v.toNat | .s _ => 0
def Val.str : Val → Bytes
  | .s b => b | _ => []

/-- the routines of one record class (binary or ASCII) -/
structure Codecs where
  ci : Codec Int
  cl : Codec Int
  cf : Codec Nat
  cd : Codec Nat
  cs : Nat → Codec Bytes

/-- the Ascii record classes with the modelled `float()` and without `rwLong` -/
def asciiCodecsM : Codecs :=
  { ci := asciiInt, cl := asciiLong, cf := asciiRealM 4, cd := asciiRealM 8, cs := asciiStr }

def binaryCodecs : Codecs := { ci := int32, cl := int64, cf := bits32, cd := bits64, cs := str }

/-- the Ascii record classes (they have no `rwLong`: `cl` is the integer field, and no ASCII statement is made about
schemas that use `Ty.l`) -/
def asciiCodecs (parse : Bytes → Option Nat) : Codecs :=
  { ci := asciiInt, cl := asciiInt, cf := asciiReal parse 4, cd := asciiReal parse 8, cs := asciiStr }

/-- interpreter state threaded through a record: header values, values still to be written (ignored by a reading
stream), values seen so far (most recent first) -/
abbrev Kont (α : Type) := Env → List Val → List Val → RW α

def bindInt (env : Env) (key : Option String) (x : Int) : Env :=
  match key with
  | some k => (k, x) :: env
  | none => env

/-- one `rw*` call: the value to write is the next one of the container (what a reading stream passes is ignored);
what the call RETURNS is stored and threaded on -/
def fldRW {α} (cs : Codecs) (t : Ty) (key : Option String) (env : Env) (inp acc : List Val) (k : Kont α) : RW α :=
  let v := inp.head?.getD (.i 0)
  match t with
  | .i => .prim cs.ci v.int (fun x => k (bindInt env key x) inp.tail (.i x :: acc))
  | .l => .prim cs.cl v.int (fun x => k (bindInt env key x) inp.tail (.i x :: acc))
  | .f => .prim cs.cf v.nat (fun x => k env inp.tail (.n x :: acc))
  | .d => .prim cs.cd v.nat (fun x => k env inp.tail (.n x :: acc))
  | .s len => .prim (cs.cs len) v.str (fun x => k env inp.tail (.s x :: acc))

/-- the loop variable's new value replaces its previous one (so the header-value list does not grow with the number of
iterations) -/
def bindLoop (env : Env) (v : String) (i : Nat) : Env := (v, (i : Int)) :: env.eraseP (fun p => p.1 == v)

/-- `n` calls of the same routine, element `i`, `i+1`, … -/
def repRW {α} (cs : Codecs) (t : Ty) (key : Option String) : Nat → Nat → Env → List Val → List Val → Kont α → RW α
  | 0, _, env, inp, acc, k => k env inp acc
  | n + 1, i, env, inp, acc, k =>
    fldRW cs t (key.map (fun x => key1 x i)) env inp acc (fun e i' a => repRW cs t key n (i + 1) e i' a k)

/-- `for v in range(n): body`, iteration `i`, `i+1`, … -/
def loopRW {α} (body : Env → List Val → List Val → Kont α → RW α) (v : String) :
    Nat → Nat → Env → List Val → List Val → Kont α → RW α
  | 0, _, env, inp, acc, k => k env inp acc
  | n + 1, i, env, inp, acc, k =>
    body (bindLoop env v i) inp acc (fun e i' a => loopRW body v n (i + 1) e i' a k)

/-- a record schema as a bidirectional record program (continuation-passing) -/
def Rec.toRW {α} (cs : Codecs) : Rec → Env → List Val → List Val → Kont α → RW α
  | .nil, env, inp, acc, k => k env inp acc
  | .fld t b rest, env, inp, acc, k =>
    fldRW cs t (b.map (fun b => b.key env)) env inp acc (fun e i a => rest.toRW cs e i a k)
  | .rep n t b rest, env, inp, acc, k =>
    repRW cs t b (n.eval env).toNat 0 env inp acc (fun e i a => rest.toRW cs e i a k)
  | .strv len rest, env, inp, acc, k =>
    fldRW cs (.s (len.eval env).toNat) none env inp acc (fun e i a => rest.toRW cs e i a k)
  | .opt c body rest, env, inp, acc, k =>
    if c.eval env != 0 then body.toRW cs env inp acc (fun e i a => rest.toRW cs e i a k)
    else rest.toRW cs env inp acc k
  | .loop n v body rest, env, inp, acc, k =>
    loopRW (body.toRW cs) v (n.eval env).toNat 0 env inp acc (fun e i a => rest.toRW cs e i a k)

/-- state threaded from record to record -/
abbrev St := Env × List Val × List Val

def loopF {α} (body : St → (St → File α) → File α) (v : String) : Nat → Nat → St → (St → File α) → File α
  | 0, _, st, k => k st
  | n + 1, i, st, k =>
    -- bindings made by an iteration are dropped at its end (only the data position and the values seen go on)
    body (bindLoop st.1 v i, st.2) (fun st' => loopF body v n (i + 1) (st.1, st'.2) k)

/-- a file schema as a bidirectional file program -/
def FileS.toFile {α} (cs : Codecs) : FileS → St → (St → File α) → File α
  | .nil, st, k => k st
  | .one r rest, st, k =>
    .record (r.toRW cs st.1 st.2.1 st.2.2 (fun e i a => .done (e, i, a))) (fun st' => rest.toFile cs st' k)
  | .opt c body rest, st, k =>
    if c.eval st.1 != 0 then body.toFile cs st (fun st' => rest.toFile cs st' k) else rest.toFile cs st k
  | .loop n v body rest, st, k =>
    loopF (body.toFile cs) v (n.eval st.1).toNat 0 st (fun st' => rest.toFile cs st' k)

/-- the whole `readWrite()`: starts from the values that are not in the file (`env0`: variant flags, container
lengths) and the container's values in call order; returns the header values and every value seen, in order, and
how many container values were left over -/
def schemaFile (cs : Codecs) (s : FileS) (env0 : Env) (inp : List Val) : File (Env × List Val × Nat) :=
  s.toFile cs (env0, inp, []) (fun st => .done (st.1, st.2.2.reverse, st.2.1.length))

/-- does a schema call `rwLong` anywhere -/
def Rec.usesLong : Rec → Bool
  | .nil => false
  | .fld t _ rest => t == .l || rest.usesLong
  | .rep _ t _ rest => t == .l || rest.usesLong
  | .strv _ rest => rest.usesLong
  | .opt _ body rest => body.usesLong || rest.usesLong
  | .loop _ _ body rest => body.usesLong || rest.usesLong

def FileS.usesLong : FileS → Bool
  | .nil => false
  | .one r rest => r.usesLong || rest.usesLong
  | .opt _ body rest => body.usesLong || rest.usesLong
  | .loop _ _ body rest => body.usesLong || rest.usesLong

/-! ## the schemas of the CCCC formats (one per `readWrite()`), written with a few abbreviations -/

namespace Schema

instance : Add E := ⟨E.add⟩
instance : Sub E := ⟨E.sub⟩
instance : Mul E := ⟨E.mul⟩
instance (k : Nat) : OfNat E k := ⟨E.lit k⟩

def v (x : String) : E := .var x
def gt (a b : E) : E := .lt b a
def ge (a b : E) : E := .le b a
def ne (a b : E) : E := .not (.eq a b)

abbrev Item := Rec → Rec
def mk (items : List Item) : Rec := items.foldr (fun f r => f r) .nil

/-- `metadata[name] = record.rwInt(metadata[name])` (also `rwBool`: an int in the file) -/
def int (name : String) : Item := .fld .i (some { name := name })
/-- an integer nobody looks at again -/
def int_ : Item := .fld .i none
def intAt (name : String) (ix : List E) : Item := .fld .i (some { name := name, ix := ix })
def real : Item := .fld .f none
def dbl : Item := .fld .d none
def str (len : Nat) : Item := .fld (.s len) none
def ints (n : E) (bind : Option String := none) : Item := .rep n .i bind
def reals (n : E) : Item := .rep n .f none
def dbls (n : E) : Item := .rep n .d none
def strs (n : E) (len : Nat) : Item := .rep n (.s len) none
def when_ (c : E) (items : List Item) : Item := fun rest => .opt c (mk items) rest
def for_ (n : E) (x : String) (items : List Item) : Item := fun rest => .loop n x (mk items) rest
/-- `rwMatrix(contents, a, b)` / `rwDoubleMatrix` / `rwIntMatrix`: `for _ in range(a): for _ in range(b): func(...)` -/
def matrix (t : Ty) (a b : E) : Item := for_ a "_m" [.rep b t none]
/-- `rwImplicitlyTypedMap(keys, metadata)` -/
def implicitMap (keys : List String) : List Item :=
  keys.map (fun k => if implicitInt (k.front.toUpper) then int k else real)

abbrev FItem := FileS → FileS
def mkF (items : List FItem) : FileS := items.foldr (fun f r => f r) .nil
def record (items : List Item) : FItem := .one (mk items)
def fwhen (c : E) (items : List FItem) : FItem := fun rest => .opt c (mkF items) rest
def ffor (n : E) (x : String) (items : List FItem) : FItem := fun rest => .loop n x (mkF items) rest

/-- `jU - jL + 1` for `jL, jU = getBlockBandwidth(b + 1, nintj, nblok)` (b = 0-based block index) -/
def blockWidth (b nintj nblok : E) : E :=
  let x : E := E.fdiv (nintj - 1) nblok + 1
  E.min nintj ((b + 1) * x) - b * x

def geodstKeys : List String := ["IGOM", "NZONE", "NREG", "NZCL", "NCINTI", "NCINTJ", "NCINTK", "NINTI", "NINTJ",
  "NINTK", "IMB1", "IMB2", "JMB1", "JMB2", "KMB1", "KMB2", "NBS", "NBCS", "NIBCS", "NZWBB", "NTRIAG", "NRASS", "NTHPT",
  "NGOP1", "NGOP2", "NGOP3", "NGOP4"]

/-- geodst.GeodstStream.readWrite -/
def geodst : FileS := mkF [
  record [str 28],
  record (geodstKeys.map int),
  fwhen (.and (gt (v "IGOM") 0) (.le (v "IGOM") 3)) [
    record [dbls (v "NCINTI" + 1), ints (v "NCINTI")]],
  fwhen (.and (.not (.and (gt (v "IGOM") 0) (.le (v "IGOM") 3))) (.and (ge (v "IGOM") 6) (.le (v "IGOM") 11))) [
    record [dbls (v "NCINTI" + 1), dbls (v "NCINTJ" + 1), ints (v "NCINTI"), ints (v "NCINTJ")]],
  fwhen (.and (.not (.and (gt (v "IGOM") 0) (.le (v "IGOM") 3)))
      (.and (.not (.and (ge (v "IGOM") 6) (.le (v "IGOM") 11))) (ge (v "IGOM") 12))) [
    record [dbls (v "NCINTI" + 1), dbls (v "NCINTJ" + 1), dbls (v "NCINTK" + 1),
            ints (v "NCINTI"), ints (v "NCINTJ"), ints (v "NCINTK")]],
  fwhen (.or (gt (v "IGOM") 0) (gt (v "NBS") 0)) [
    record [reals (v "NREG"), reals (v "NBS"), reals (v "NBCS"), reals (v "NIBCS"), ints (v "NZWBB"),
            ints (v "NZONE"), ints (v "NREG")]],
  fwhen (gt (v "IGOM") 0) [
    fwhen (.eq (v "NRASS") 0) [ffor (v "NCINTK") "k" [record [matrix .i (v "NCINTJ") (v "NCINTI")]]],
    fwhen (.and (ne (v "NRASS") 0) (.eq (v "NRASS") 1)) [
      ffor (v "NINTK") "k" [record [matrix .i (v "NINTJ") (v "NINTI")]]]]]

def dif3d2D : List String := ["IPROBT", "ISOLNT", "IXTRAP", "MINBSZ", "NOUTMX", "IRSTRT", "LIMTIM", "NUPMAX", "IOSAVE",
  "IOMEG1", "INRMAX", "NUMORP", "IRETRN", "IEDF1", "IEDF2", "IEDF3", "IEDF4", "IEDF5", "IEDF6", "IEDF7", "IEDF8",
  "IEDF9", "IEDF10", "NOUTBQ", "I0FLUX", "NOEDIT", "NOD3ED", "ISRHED", "NSN", "NSWMAX", "NAPRX", "NAPRXZ", "NFMCMX",
  "NXYSWP", "NZSWP", "ISYMF", "NCMRZS", "ISEXTR", "NPNO", "NXTR", "IOMEG2", "IFULL", "NVFLAG", "ISIMPL", "IWNHFL",
  "IPERT", "IHARM"]

/-- dif3d.Dif3dStream.readWrite: the 5D record is all ZCMRC (doubles), then all NZINTS (ints) -/
def dif3d : FileS := mkF [
  record [str 8, str 8, str 8, int "VERSION"],
  record [.rep 11 (.s 8) none, int "MAXSIZ", int "MAXBLK", int "IPRINT"],
  record (dif3d2D.map int),
  record [dbls 30],
  fwhen (ne (v "NUMORP") 0) [record [dbls (v "NUMORP")]],
  fwhen (ne (v "NCMRZS") 0) [record [dbls (v "NCMRZS"), ints (v "NCMRZS")]]]

def labelsKeys : List String := ["numZones", "numRegions", "numAreas", "numRegionAreaAssignments",
  "numHalfHeightsDirection1", "numHalfHeightsDirection2", "numNuclideSets", "numZoneAliases", "numTrianglesPerHex",
  "numHexagonalRings", "numControlRodChannels", "numControlRodBanks", "numAxialFineMeshBins", "maxControlRodBankTimes",
  "maxControlRodsPerBank", "maxControlRodsMeshes", "maxControlRodPieces", "maxControlRodChannels",
  "numBurnupDependentIsotopes", "maxBurnupDependentGroups", "maxBurnupPolynomialOrder", "modelDimensions"]

/-- labels.LabelsStream.readWrite (the control-rod and burn-up records raise NotImplementedError: not in the schema) -/
def labels : FileS := mkF [
  record [str 8, str 8, str 8, int "version"],
  record (labelsKeys.map int ++ [ints 2]),
  record [strs (v "numZones") 8, strs (v "numRegions") 8, strs (v "numAreas") 8, strs (v "numRegionAreaAssignments") 8],
  fwhen (.or (gt (v "numHalfHeightsDirection1") 0) (gt (v "numHalfHeightsDirection2") 0)) [
    record [reals (v "numHalfHeightsDirection1"), reals (v "numHalfHeightsDirection1"),
            reals (v "numHalfHeightsDirection2"), reals (v "numHalfHeightsDirection2")]],
  fwhen (gt (v "numNuclideSets") 1) [record [strs (v "numNuclideSets") 8]],
  fwhen (gt (v "numZoneAliases") 0) [record [strs (v "numZoneAliases") 8]]]

/-- pwdint.PwdintStream.readWrite -/
def pwdint : FileS := mkF [
  record [str 8, str 6, str 6, int "version", int "mult"],
  record (implicitMap ["TIME", "POWER", "VOL", "NINTI", "NINTJ", "NINTK", "NCY", "NBLOK"]),
  ffor (v "NINTK") "k" [ffor (v "NBLOK") "b" [
    record [matrix .f (blockWidth (v "b") (v "NINTJ") (v "NBLOK")) (v "NINTI")]]]]

/-- rtflux.RtfluxStream / AtfluxStream.readWrite (NDIM = 1 raises NotImplementedError, NDIM < 1 ValueError) -/
def rtflux : FileS := mkF [
  record [str 28],
  record (implicitMap ["NDIM", "NGROUP", "NINTI", "NINTJ", "NINTK", "ITER", "EFFK", "POWER", "NBLOK"]),
  fwhen (ge (v "NDIM") 2) [
    ffor (v "NGROUP") "g" [ffor (v "NINTK") "k" [ffor (v "NBLOK") "b" [
      record [matrix .d (blockWidth (v "b") (v "NINTJ") (v "NBLOK")) (v "NINTI")]]]]]]

/-- rzflux.RzfluxStream.readWrite -/
def rzflux : FileS := mkF [
  record [str 28],
  record (implicitMap ["TIME", "POWER", "VOL", "EFFK", "EIVS", "DKDS", "TNL", "TNA", "TNSL", "TNBL", "TNBAL", "TNCRA",
    "X1", "X2", "X3", "NBLOK", "ITPS", "NZONE", "NGROUP", "NCY"]),
  ffor (v "NBLOK") "b" [record [matrix .f (blockWidth (v "b") (v "NZONE") (v "NBLOK")) (v "NGROUP")]]]

/-- fixsrc.FIXSRC.readWrite -/
def fixsrc : FileS := mkF [
  record [str 24, int "fileId"],
  record (["itype", "ndim", "ngroup", "ninti", "nintj", "nintk", "idists", "ndcomp", "nscomp", "nedgi", "nedgj",
           "nedjk", "nblok"].map int),
  ffor (v "ngroup") "g" [ffor (v "nintk") "z" [record [for_ (v "nintj") "j" [dbls (v "ninti")]]]]]

def nhfluxKeys : List String := ["ndim", "ngroup", "ninti", "nintj", "nintk", "iter", "effk", "power", "nSurf", "nMom",
  "nintxy", "npcxy", "nscoef", "itrord", "iaprx", "ileak", "iaprxz", "ileakz", "iorder"]

def idums (n : Nat) : List String :=
  (List.range n).map (fun e => if e + 1 < 10 then "IDUM0" ++ toString (e + 1) else "IDUM" ++ toString (e + 1))

/-- nhflux.NhfluxStream / NafluxStream (+ Variant).readWrite; not in the file: `variantFlag`, `numDataSetsToRead` -/
def nhflux : FileS :=
  let nExtCur : E := v "npcxy" - v "nintxy" * v "nSurf"
  mkF [
  record [str 28],
  fwhen (v "variantFlag") [
    record (implicitMap (nhfluxKeys ++ ["npcbdy", "npcsym", "npcsec", "iwnhfl", "nMoms"] ++ idums 6))],
  fwhen (.not (v "variantFlag")) [record (implicitMap (nhfluxKeys ++ idums 11))],
  record [matrix .i (v "nintxy") (v "nSurf"),
          when_ (v "variantFlag") [ints (v "npcbdy")],
          when_ (.not (v "variantFlag")) [ints nExtCur],
          ints (v "nintxy"),
          when_ (v "variantFlag") [ints (v "npcsym" + v "npcsec"), ints (v "npcsym" + v "npcsec")]],
  ffor (v "numDataSetsToRead") "n" [ffor (v "ngroup") "g" [
    ffor (v "nintk") "z" [
      record [matrix .d (v "nintxy") (v "nMom"),
              when_ (.and (v "variantFlag") (gt (v "nMoms") 0)) [matrix .d (v "nintxy") (v "nMoms")]]],
    fwhen (ne (v "iwnhfl") 1) [
      ffor (v "nintk") "z" [
        record [for_ (v "nintxy") "i" [for_ (v "nSurf") "j" [dbls (v "nscoef")]],
                for_ nExtCur "j" [dbls (v "nscoef")]]],
      ffor (v "nintk" + 1) "z" [
        record [for_ 2 "j" [for_ (v "nintxy") "i" [dbls (v "nscoef")]]]]]]]]

/-- pmatrx.PmatrxIO.readWrite: the number of production-matrix records of a nuclide is ITS heading's
maxScatteringOrder (`nuc.maxScatteringOrder`), not the file's (`maxScatteringOrder`) -/
def pmatrx : FileS := mkF [
  record [int "numberCollapsingSpatialRegions", int "numGammaGroups", int "numNeutronGroups", int "hasInPlateData",
          int "numNucs", int "hasDoseConversionFactor", int "maxScatteringOrder", int "maxNumberOfCompositions",
          int "maxMaterials", int "maxNumberOfRegions", int "maxNumberOfCollapsingRegions", int "_dummy1", int "_dummy2"],
  record [reals (v "numNeutronGroups"), real, reals (v "numGammaGroups"), real],
  fwhen (v "hasDoseConversionFactor") [record [reals (v "numNeutronGroups"), reals (v "numGammaGroups")]],
  record [strs (v "numNucs") 8, ints (v "numNucs")],
  ffor (v "numNucs") "nuc" [
    record [int "nuc.hasNeutronHeatingAndDamage", int "nuc.maxScatteringOrder", int "nuc.hasGammaHeating",
            int "nuc.numberNeutronXS", int "nuc.collapsingRegionNumber"],
    fwhen (v "nuc.hasNeutronHeatingAndDamage") [record [reals (v "numNeutronGroups"), reals (v "numNeutronGroups")]],
    ffor (v "nuc.numberNeutronXS") "x" [record [reals (v "numNeutronGroups"), int_, int_]],
    fwhen (v "nuc.hasGammaHeating") [record [reals (v "numGammaGroups")]],
    ffor (v "nuc.maxScatteringOrder") "lrd" [record [matrix .f (v "numNeutronGroups") (v "numGammaGroups")]]]]

/-- dlayxs.DlayxsIO.readWrite; not in the file: `labelLength` (the writer's `len(label)`, the reader takes the
record's count), `numPad` (`len(dummy2)`; the reader takes `(numBytes - byteCount) // 4`), `numPrecursorGroups` -/
def dlayxs : FileS := mkF [
  record [.strv (v "labelLength")],
  record [int "numEnergyGroups", int "numNuclides", int "numFamilies", int "dummy"],
  record [strs (v "numNuclides") 8, reals (v "numFamilies"), matrix .f (v "numFamilies") (v "numEnergyGroups"),
          reals (v "numEnergyGroups"), real, ints (v "numNuclides") (some "nkfam"), ints (v "numNuclides"),
          strs (v "numPad") 4],
  ffor (v "numNuclides") "ii" [
    record [matrix .f (.at1 "nkfam" (v "ii")) (v "numEnergyGroups"), ints (v "numPrecursorGroups")]]]

/-- isotxs.IsotxsIO.readWrite and gamiso._GamisoIO (identical field sequence); fileWideChiFlag > 1 and
chiFlag > 1 raise NotImplementedError -/
def isotxs : FileS :=
  let ng : E := v "numGroups"
  let msb : E := v "maxScatteringBlocks"
  let x : E := E.fdiv (ng - 1) (v "subblockingControl") + 1
  let jl : E := v "sb" * x + 1
  let ju : E := E.min ng ((v "sb" + 1) * x)
  mkF [
  record [str 24, int "fileId"],
  record [int "numGroups", int "numNucs", int "maxUpScatterGroups", int "maxDownScatterGroups",
          int "maxScatteringOrder", int "fileWideChiFlag", int "maxScatteringBlocks", int "subblockingControl"],
  record [str 96, strs (v "numNucs") 8, when_ (.eq (v "fileWideChiFlag") 1) [reals ng], reals ng, reals ng, real,
          ints (v "numNucs")],
  ffor (v "numNucs") "nuc" [
    record ([str 8, str 8, str 8, reals 6] ++
      ["classif", "chiFlag", "fisFlag", "nalph", "np", "n2n", "nd", "nt", "ltot", "ltrn", "strpd"].map int ++
      [ints msb, ints msb (some "ords"),
       for_ msb "n" [for_ ng "j" [intAt "jband" [v "j", v "n"]]],
       for_ msb "n" [for_ ng "j" [intAt "jj" [v "j", v "n"]]]]),
    record [matrix .f (v "ltrn") ng, matrix .f (v "ltot") ng, reals ng,
            when_ (gt (v "fisFlag") 0) [reals ng, reals ng],
            when_ (.eq (v "chiFlag") 1) [reals ng],
            when_ (v "nalph") [reals ng], when_ (v "np") [reals ng], when_ (v "n2n") [reals ng],
            when_ (v "nd") [reals ng], when_ (v "nt") [reals ng],
            when_ (gt (v "strpd") 0) [matrix .f (v "strpd") ng]],
    ffor msb "n" [ffor (v "subblockingControl") "sb" [
      fwhen (gt (.at1 "ords" (v "n")) 0) [
        record [for_ (.at1 "ords" (v "n")) "o" [
          for_ (ju - jl + 1) "gg" [reals (.at2 "jband" (v "gg" + jl - 1) (v "n"))]]]]]]]]

/-- compxs._CompxsIO.readWrite (file-wide chi and delayed-neutron families cannot be written or read by the code:
findings compxs-2d-record-*; they are not in the schema) -/
def compxs : FileS :=
  let ng : E := v "numGroups"
  let nsc : E := .at1 "nup" (v "g") + 1 + .at1 "ndn" (v "g")
  let nfam : E := .at1 "compFam" (v "r")
  mkF [
  record (["numComps", "numGroups", "fileWideChiFlag", "numFissComps", "maxUpScatterGroups", "maxDownScatterGroups",
           "numDelayedFam", "maxScatteringOrder", "reservedFlag1", "reservedFlag2"].map int),
  record [dbls ng, dbls ng, dbl, ints (v "numComps") (some "compFam")],
  ffor (v "numComps") "r" [
    record [int "chiFlag", ints ng (some "nup"), ints ng (some "ndn"), when_ nfam [ints nfam]],
    ffor ng "g" [
      record [dbls 4, when_ (v "chiFlag") [dbl, dbl, dbls (v "chiFlag")], dbls nsc, dbls 7,
              when_ nfam [ints nfam], dbl, for_ (v "maxScatteringOrder") "o" [dbls nsc]]]],
  record [dbls (v "numComps"), dbls (v "numComps")]]

/-- the schema of a format name -/
def byName : String → Option FileS
  | "GEODST" => some geodst
  | "DIF3D" => some dif3d
  | "LABELS" => some labels
  | "PWDINT" => some pwdint
  | "RTFLUX" => some rtflux
  | "ATFLUX" => some rtflux
  | "RZFLUX" => some rzflux
  | "FIXSRC" => some fixsrc
  | "NHFLUX" => some nhflux
  | "NAFLUX" => some nhflux
  | "PMATRX" => some pmatrx
  | "DLAYXS" => some dlayxs
  | "ISOTXS" => some isotxs
  | "GAMISO" => some isotxs
  | "COMPXS" => some compxs
  | _ => none

end Schema

end ArmiVerif.Cccc
