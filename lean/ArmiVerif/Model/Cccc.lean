/-
Model of armi/nuclearDataIO/cccc/cccc.py : primitive codecs, record framing, the bidirectional
`rw*` programs, Fortran-order matrices, block bandwidths, ISOTXS band indexing, ASCII fields.
Core Lean only.  Each definition names the Python function it transcribes.
-/
namespace ArmiVerif.Cccc

abbrev Bytes := List UInt8

/-! ## little-endian words (struct.pack("i"/"q"/"f"/"d") on the little-endian hosts armi runs on) -/

/-- the `k` low bytes of `n`, least significant first -/
def leBytes : Nat → Nat → Bytes
  | 0, _ => []
  | k + 1, n => UInt8.ofNat (n % 256) :: leBytes k (n / 256)

/-- value of a little-endian byte string -/
def leVal : Bytes → Nat
  | [] => 0
  | b :: bs => b.toNat + 256 * leVal bs

/-- two's complement: signed → unsigned `8k`-bit pattern -/
def toUnsigned (bits : Nat) (v : Int) : Nat := (v % (2 ^ bits : Nat)).toNat

/-- two's complement: unsigned `bits`-bit pattern → signed -/
def toSigned (bits : Nat) (n : Nat) : Int :=
  if n < 2 ^ (bits - 1) then (n : Int) else (n : Int) - (2 ^ bits : Nat)

/-- `stream.read(k)` followed by `struct.unpack`: fails (struct.error) on a short read -/
def takeExact : Nat → Bytes → Option (Bytes × Bytes)
  | 0, bs => some ([], bs)
  | _ + 1, [] => none
  | k + 1, b :: bs => match takeExact k bs with
    | none => none
    | some (w, r) => some (b :: w, r)

/-! ## a codec = one `rw*` routine seen from both sides -/

/-- `enc` = what the Writer class appends, `dec` = what the Reader class consumes and returns,
`size` = what the Writer adds to `numBytes` (the count that goes in the record frame),
`ok` = the values for which `struct.pack` succeeds and reading returns the same value. -/
structure Codec (β : Type) where
  enc : β → Bytes
  dec : Bytes → Option (β × Bytes)
  size : β → Nat
  ok : β → Prop

/-- BinaryRecordWriter.rwInt / BinaryRecordReader.rwInt -/
def int32 : Codec Int where
  enc v := leBytes 4 (toUnsigned 32 v)
  dec bs := match takeExact 4 bs with
    | none => none
    | some (w, rest) => some (toSigned 32 (leVal w), rest)
  size _ := 4
  ok v := -2147483648 ≤ v ∧ v < 2147483648

/-- BinaryRecordWriter.rwLong / BinaryRecordReader.rwLong (numBytes += _longSize since the F1 fix) -/
def int64 : Codec Int where
  enc v := leBytes 8 (toUnsigned 64 v)
  dec bs := match takeExact 8 bs with
    | none => none
    | some (w, rest) => some (toSigned 64 (leVal w), rest)
  size _ := 8
  ok v := -9223372036854775808 ≤ v ∧ v < 9223372036854775808

/-- rwFloat: the IEEE single is an opaque 32-bit pattern (double→single rounding is a parameter) -/
def bits32 : Codec Nat where
  enc n := leBytes 4 n
  dec bs := match takeExact 4 bs with
    | none => none
    | some (w, rest) => some (leVal w, rest)
  size _ := 4
  ok n := n < 4294967296

/-- rwDouble: opaque 64-bit pattern -/
def bits64 : Codec Nat where
  enc n := leBytes 8 n
  dec bs := match takeExact 8 bs with
    | none => none
    | some (w, rest) => some (leVal w, rest)
  size _ := 8
  ok n := n < 18446744073709551616

/-- bytes.rstrip() strips ASCII whitespace: space, \t \n \v \f \r -/
def isWs (b : UInt8) : Bool := b == 32 || (9 ≤ b && b ≤ 13)

/-- `rstrip` of a byte string -/
def rstrip (s : Bytes) : Bytes := (s.reverse.dropWhile isWs).reverse

/-- `val.ljust(len)` then `struct.pack("%ds" % len, …)` (which truncates to `len` bytes) -/
def padTo (len : Nat) (s : Bytes) : Bytes := (s ++ List.replicate (len - s.length) 32).take len

/-- BinaryRecordWriter.rwString / BinaryRecordReader.rwString for ASCII text (one byte per character) -/
def str (len : Nat) : Codec Bytes where
  enc s := padTo len s
  dec bs := match takeExact len bs with
    | none => none
    | some (w, rest) => some (rstrip w, rest)
  size _ := len
  ok s := s.length ≤ len ∧ rstrip s = s

/-! ## bidirectional programs (IORecord: "the same method can be used for both reading and writing") -/

/-- one record body: a sequence of `rw*` calls whose later calls may depend on earlier results -/
inductive RW (α : Type) : Type 1 where
  | done : α → RW α
  | prim {β : Type} (c : Codec β) (v : β) (k : β → RW α) : RW α

namespace RW

/-- Writer classes: returns (data joined, numBytes accumulated, result). The writer's `rw*` returns `val`. -/
def write {α} : RW α → Bytes × Nat × α
  | done a => ([], 0, a)
  | prim c v k =>
    let r := write (k v)
    (c.enc v ++ r.1, c.size v + r.2.1, r.2.2)

/-- Reader classes -/
def read {α} : RW α → Bytes → Option (α × Bytes)
  | done a, bs => some (a, bs)
  | prim c _ k, bs =>
    match c.dec bs with
    | none => none
    | some (x, rest) => read (k x) rest

/-- every value handed to a writer routine is in that routine's domain -/
def WF {α} : RW α → Prop
  | done _ => True
  | prim c v k => c.ok v ∧ WF (k v)

/-- the program with every to-be-written value replaced by what a read of `bs` returns
(= "write what was read") -/
def reseed {α} : RW α → Bytes → RW α
  | done a, _ => done a
  | prim c v k, bs =>
    match c.dec bs with
    | none => prim c v k
    | some (x, rest) => prim c x (fun y => reseed (k y) rest)

/-- every field of `bs` read by the program is the canonical encoding of its value -/
def Canon {α} : RW α → Bytes → Prop
  | done _, _ => True
  | prim c _ k, bs =>
    match c.dec bs with
    | none => True
    | some (x, rest) => c.enc x ++ rest = bs ∧ Canon (k x) rest

/-- all routines used add to `numBytes` exactly the number of bytes they append -/
def Exact {α} : RW α → Prop
  | done _ => True
  | prim c v k => (∀ x, (c.enc x).length = c.size x) ∧ Exact (k v)

end RW

/-! ## record framing and files -/

/-- how a record is delimited: BinaryRecordWriter.close / BinaryRecordReader.open+close, or the Ascii classes -/
structure Frame where
  count : Codec Int
  /-- AsciiRecordWriter.close writes "\n"; AsciiRecordReader.close reads one character -/
  term : Bytes

def binaryFrame : Frame := { count := int32, term := [] }

/-- a file: a sequence of records; which records follow may depend on what earlier ones returned -/
inductive File (α : Type) : Type 1 where
  | done : α → File α
  | record {β : Type} (body : RW β) (k : β → File α) : File α

namespace File

/-- `with createRecord() as record: …` in a writing stream, then the rest of readWrite() -/
def write {α} (fr : Frame) : File α → Bytes × α
  | done a => ([], a)
  | record body k =>
    let w := body.write
    let r := write fr (k w.2.2)
    (fr.count.enc (w.2.1 : Nat) ++ w.1 ++ fr.count.enc (w.2.1 : Nat) ++ fr.term ++ r.1, r.2)

/-- the same in a reading stream: open reads the count, close reads it again and compares
(BufferError when they differ), the Ascii reader then skips one character -/
def read {α} (fr : Frame) : File α → Bytes → Option (α × Bytes)
  | done a, bs => some (a, bs)
  | record body k, bs =>
    match fr.count.dec bs with
    | none => none
    | some (n, r1) =>
      match body.read r1 with
      | none => none
      | some (b, r2) =>
        match fr.count.dec r2 with
        | none => none
        | some (n2, r3) =>
          if n2 = n then
            match takeExact fr.term.length r3 with
            | none => none
            | some (_, r4) => read fr (k b) r4
          else none

def WF {α} (fr : Frame) : File α → Prop
  | done _ => True
  | record body k => body.WF ∧ fr.count.ok (body.write.2.1 : Int) ∧ WF fr (k body.write.2.2)

/-- the list of (leading count, payload, trailing count) of the records a write produces -/
def frames {α} : File α → List (Nat × Bytes)
  | done _ => []
  | record body k => (body.write.2.1, body.write.1) :: frames (k body.write.2.2)

/-- the file program re-seeded, record by record, with what a read of `bs` returns -/
def reseed {α} (fr : Frame) : File α → Bytes → File α
  | .done a, _ => .done a
  | .record body k, bs =>
    match fr.count.dec bs with
    | none => .record body k
    | some (_, r1) =>
      match body.read r1 with
      | none => .record body k
      | some (_, r2) =>
        match fr.count.dec r2 with
        | none => .record body k
        | some (_, r3) =>
          match takeExact fr.term.length r3 with
          | none => .record body k
          | some (_, r4) => .record (body.reseed r1) (fun y => reseed fr (k y) r4)

/-- every record of `bs` is canonically encoded: canonical count fields, the leading count equal to the
byte count its fields declare, canonical fields, the frame's terminator -/
def Canon {α} (fr : Frame) : File α → Bytes → Prop
  | .done _, _ => True
  | .record body k, bs =>
    match fr.count.dec bs with
    | none => True
    | some (n, r1) =>
      match body.read r1 with
      | none => True
      | some (b, r2) =>
        match fr.count.dec r2 with
        | none => True
        | some (n2, r3) =>
          match takeExact fr.term.length r3 with
          | none => True
          | some (w, r4) =>
            fr.count.enc n ++ r1 = bs ∧ n = ((body.reseed r1).write.2.1 : Nat) ∧ body.Canon r1 ∧
            fr.count.enc n2 ++ r3 = r2 ∧ w = fr.term ∧ Canon fr (k b) r4


end File

/-! ## containers derived from the primitives -/

/-- IORecord.rwList: `[action(contents[ii]) for ii in range(length)]` -/
def rwList {β α} (c : Codec β) : List β → (List β → RW α) → RW α
  | [], k => k []
  | v :: vs, k => RW.prim c v (fun x => rwList c vs (fun xs => k (x :: xs)))

/-- itertools.product(*[range(n) for n in shape]) -/
def product : List Nat → List (List Nat)
  | [] => [[]]
  | n :: ns => (List.range n).flatMap (fun i => (product ns).map (fun t => i :: t))

/-- IORecord._rwMatrix: the multi-indices into `contents` (whose numpy shape is `reversed(shape)`)
in the order in which `func` is applied: `fortranIndex = tuple(reversed(index))` -/
def matrixOrder (shape : List Nat) : List (List Nat) := (product shape).map List.reverse

/-- row-major (numpy C order) flat position of a multi-index in an array of the given shape -/
def flatPos : List Nat → List Nat → Nat
  | _ :: ns, i :: is => i * ns.foldl (· * ·) 1 + flatPos ns is
  | _, _ => 0

/-- FORTRAN 77 implicit typing in rwImplicitlyTypedMap: first letter in IJKLMN → int, else float -/
def implicitInt (firstUpper : Char) : Bool := "IJKLMN".toList.contains firstUpper

/-! ## cccc.getBlockBandwidth -/

/-- `x = (nintj - 1) // nblok + 1; jLow = (m-1)*x + 1; jHigh = min(nintj, m*x); return jLow-1, jHigh-1`
(Python floor division; ZeroDivisionError for nblok = 0) -/
def getBlockBandwidth (m nintj nblok : Int) : Option (Int × Int) :=
  if nblok = 0 then none else
  let x := Int.fdiv (nintj - 1) nblok + 1
  let jLow := (m - 1) * x + 1
  let jHigh := min nintj (m * x)
  some (jLow - 1, jHigh - 1)

/-- natural-number reading used by the partition theorem (nblok ≥ 1): block `m` (0-based) starts at
`m*x` and holds `width` columns -/
def bandX (nintj nblok : Nat) : Nat := (nintj - 1) / nblok + 1
def bandLow (nintj nblok m : Nat) : Nat := m * bandX nintj nblok
def bandWidth (nintj nblok m : Nat) : Nat := min nintj ((m + 1) * bandX nintj nblok) - bandLow nintj nblok m

/-! ## isotxs._IsotxsNuclideIO._rw7DRecord band indexing (one row `g` of one scatter block)

`jup = g + metadata["jj"][g, block]`, `bandWidth = metadata["jband"][g, block]`, `jdown = jup - bandWidth`;
the functions below take `jup` and `jband` (JJ > 1, i.e. up-scatter, just means jup > g + 1). -/

/-- reading: `indices.extend(range(jup - 1, jdown - 1, -1))` -/
def bandCols (jup jband : Nat) : List Nat := (List.range jband).map (fun p => jup - 1 - p)

/-- writing: `reversed(scatter[g, jdown:jup].tolist())` -/
def bandWrite {β} (row : List β) (jup jband : Nat) : List β :=
  ((row.drop (jup - jband)).take jband).reverse

/-- placing the values read at the columns read into an all-default row of length ng (what the CSR
constructor does with `(data, indices, indptr)` for one row) -/
def bandPlace {β} (dflt : β) (ng : Nat) (cols : List Nat) (vals : List β) : List β :=
  (List.range ng).map (fun c => match (cols.zip vals).find? (fun cv => cv.1 == c) with
    | some cv => cv.2 | none => dflt)

/-! ## ASCII-mode fixed-width fields (AsciiRecordWriter / AsciiRecordReader) -/

def digitChar (d : Nat) : UInt8 := UInt8.ofNat (48 + d % 10)

/-- decimal digits of a natural number, most significant first ("0" for 0) -/
def natDigits (n : Nat) : Bytes :=
  if _h : n < 10 then [digitChar n] else natDigits (n / 10) ++ [digitChar (n % 10)]
termination_by n
decreasing_by omega

def padLeft (w : Nat) (s : Bytes) : Bytes := List.replicate (w - s.length) 32 ++ s

/-- `" {:>+10}".format(v)`: a space, then sign and digits right-aligned in 10 columns (longer when
they do not fit — F24) -/
def asciiIntField (v : Int) : Bytes :=
  let sign : UInt8 := if v < 0 then 45 else 43
  32 :: padLeft 10 (sign :: natDigits v.natAbs)

/-- value of a digit string, `none` when a character is not a digit or the string is empty -/
def parseNat (s : Bytes) : Option Nat :=
  if s.isEmpty then none else
  s.foldl (fun acc (b : UInt8) => match acc with
    | none => none
    | some a => if 48 ≤ b ∧ b ≤ 57 then some (a * 10 + (b.toNat - 48)) else none) (some 0)

/-- Python `int(text)` for the texts the writer can produce: surrounding blanks, optional sign, digits -/
def parseInt (s : Bytes) : Option Int :=
  let t := (rstrip s).dropWhile isWs
  match t with
  | 43 :: ds => (parseNat ds).map (fun n => (n : Int))
  | 45 :: ds => (parseNat ds).map (fun n => -(n : Int))
  | ds => (parseNat ds).map (fun n => (n : Int))

/-- AsciiRecordWriter.rwInt / AsciiRecordReader.rwInt: `int(stream.read(11))`; declares 4 bytes -/
def asciiInt : Codec Int where
  enc v := asciiIntField v
  dec bs :=
    -- text-mode read(11) returns what is left at end of file; int() of it fails unless it parses
    let w := bs.take 11
    match parseInt w with
    | none => none
    | some v => some (v, bs.drop 11)
  size _ := 4
  ok v := -999999999 ≤ v ∧ v ≤ 999999999

/-- AsciiRecordWriter.rwString `" {value:<{length}}"` / AsciiRecordReader.rwString (skip one, read length, rstrip) -/
def asciiStr (len : Nat) : Codec Bytes where
  enc s := 32 :: (s ++ List.replicate (len - s.length) 32)
  dec bs := match takeExact (len + 1) bs with
    | none => none
    | some (w, rest) => some (rstrip (w.drop 1), rest)
  size _ := len
  ok s := s.length ≤ len ∧ rstrip s = s

/-- AsciiRecordWriter.close / AsciiRecordReader.open+close: the declared count as an integer field before and
after the data, then a newline -/
def asciiFrame : Frame := { count := asciiInt, term := [10] }

/-- `" {:+.16E}".format(x)` for a finite double given by sign, and |x| = mant * 2^e2 (e2 may be negative):
correctly rounded (round-half-even) 17 significant digits, exponent at least two digits. -/
def asciiFloatField (neg : Bool) (mant : Nat) (e2 : Int) : Bytes :=
  let sign : UInt8 := if neg then 45 else 43
  if mant = 0 then
    32 :: sign :: (48 :: 46 :: List.replicate 16 48) ++ [69, 43, 48, 48]
  else
    -- |x| = num / den
    let num : Nat := if e2 ≥ 0 then mant * 2 ^ e2.toNat else mant
    let den : Nat := if e2 ≥ 0 then 1 else 2 ^ (-e2).toNat
    -- decimal exponent k with 10^k ≤ num/den < 10^(k+1): start from an estimate and correct
    let est : Int := ((Nat.log2 num : Int) - (Nat.log2 den : Int)) * 30103 / 100000
    let ge (k : Int) : Bool := -- num/den ≥ 10^k
      if k ≥ 0 then decide (num ≥ den * 10 ^ k.toNat) else decide (num * 10 ^ (-k).toNat ≥ den)
    let k0 : Int := est + 2
    let k : Int := if ge k0 then k0 else if ge (k0 - 1) then k0 - 1 else if ge (k0 - 2) then k0 - 2
                   else if ge (k0 - 3) then k0 - 3 else k0 - 4
    -- scaled = num/den * 10^(16-k), rounded half-even
    let s : Int := 16 - k
    let n2 : Nat := if s ≥ 0 then num * 10 ^ s.toNat else num
    let d2 : Nat := if s ≥ 0 then den else den * 10 ^ (-s).toNat
    let q := n2 / d2
    let r := n2 % d2
    let q' := if 2 * r > d2 then q + 1 else if 2 * r = d2 then (if q % 2 = 0 then q else q + 1) else q
    let (digits, kk) := if q' ≥ 10 ^ 17 then (q' / 10, k + 1) else (q', k)
    let ds := natDigits digits
    let esign : UInt8 := if kk < 0 then 45 else 43
    let eds := natDigits kk.natAbs
    let eds := if eds.length < 2 then 48 :: eds else eds
    32 :: sign :: (ds.take 1 ++ [46] ++ ds.drop 1) ++ [69, esign] ++ eds

/-- decode an IEEE double bit pattern: (negative, mantissa, binary exponent); none for inf/nan -/
def doubleParts (n : Nat) : Option (Bool × Nat × Int) :=
  let neg : Bool := decide (n / 2 ^ 63 % 2 = 1)
  let e : Nat := n / 2 ^ 52 % 2048
  let fr : Nat := n % 2 ^ 52
  if e = 2047 then none
  else if e = 0 then some (neg, fr, -1074)
  else some (neg, fr + 2 ^ 52, (e : Int) - 1075)

/-- the text `" {:+.16E}".format(x)` of the double with bit pattern `n` ([] for inf/nan) -/
def asciiRealField (n : Nat) : Bytes :=
  match doubleParts n with
  | some (neg, m, e) => asciiFloatField neg m e
  | none => []

/-- AsciiRecordWriter.rwFloat/rwDouble and AsciiRecordReader.rwFloat (`float(stream.read(24))`); the value is the
64-bit pattern of the Python float; `parse` stands for Python's `float(text)` (a parameter of the model);
`declared` = 4 for rwFloat, 8 for rwDouble -/
def asciiReal (parse : Bytes → Option Nat) (declared : Nat) : Codec Nat where
  enc n := asciiRealField n
  dec bs := match parse (bs.take 24) with
    | none => none
    | some v => some (v, bs.drop 24)
  size _ := declared
  ok n := (doubleParts n).isSome ∧ (asciiRealField n).length = 24

end ArmiVerif.Cccc
