/-
C02 model — mass / volume / number-density accounting of the composite tree (core Lean only, `Rat`).

Transcribes
  armi/reactor/composites.py   ArmiObject.getNuclideNumberDensities, getVolumeFractions, getNuclides,
                               setNumberDensity, updateNumberDensities, setNumberDensities, changeNDensByFactor,
                               addMass, removeMass, setMass, density, getMassFracs, setMassFracs, getMass,
                               getNumberOfAtoms, Composite.getVolume
  armi/reactor/components/component.py
                               Component.getNumberDensity, setNumberDensity, updateNumberDensities (no
                               composition-dependent expansion), setNumberDensities, changeNDensByFactor, getMass
  armi/reactor/blocks.py       Block.getVolume (sum of component volumes / symmetry factor)
  armi/reactor/assemblies.py   Assembly.getVolume (first block's area × total height), getSymmetryFactor
  armi/utils/densityTools.py   getNDensFromMasses, getMassFractions, calculateMassDensity,
                               calculateNumberDensity, getMassInGrams

One generic level (`Node α` over any child type with operations `Ops α`) is instantiated three times
(block of components, assembly of blocks, core of assemblies); the theorems are proved once for the generic
level and hold at every depth.  Setters are total functions plus a `can…` predicate that says when the real
call does not raise.
-/
namespace ArmiVerif.Compo

abbrev Nuc := Nat
/-- a `{nuclide: number density}` dict in insertion order -/
abbrev NDens := List (Nuc × Rat)

def sumBy {α : Type} (f : α → Rat) : List α → Rat
  | [] => 0
  | a :: l => f a + sumBy f l

namespace NDens
/-- `d.get(n, 0.0)` -/
def get : NDens → Nuc → Rat
  | [], _ => 0
  | (m, v) :: rest, n => if m = n then v else get rest n

def has : NDens → Nuc → Bool
  | [], _ => false
  | (m, _) :: rest, n => if m = n then true else has rest n

/-- `d[n] = v` -/
def set : NDens → Nuc → Rat → NDens
  | [], n, v => [(n, v)]
  | (m, w) :: rest, n, v => if m = n then (m, v) :: rest else (m, w) :: set rest n v

/-- `d.update(u)` -/
def update (d u : NDens) : NDens := u.foldl (fun acc p => acc.set p.1 p.2) d

def keys (d : NDens) : List Nuc := d.map (·.1)
end NDens

/-- physical constants: `K = units.MOLES_PER_CC_TO_ATOMS_PER_BARN_CM`, `barn = units.CM2_PER_BARN`,
`aw n` = atomic weight of nuclide `n` (`nuclideBases.byName[n].weight`) -/
structure Phys where
  K : Rat
  barn : Rat
  aw : Nuc → Rat

/-! ## densityTools -/

/-- `calculateMassDensity(numberDensities)`: `Σ N·A / K` -/
def calculateMassDensity (ph : Phys) (d : NDens) : Rat := sumBy (fun p => p.2 * ph.aw p.1 / ph.K) d

/-- `getMassFractions(numberDensities)`: weights `N·A` normalised by their sum (all 0 when the sum is 0) -/
def getMassFractions (ph : Phys) (d : NDens) : NDens :=
  let total := sumBy (fun p => p.2 * ph.aw p.1) d
  if total ≠ 0 then d.map (fun p => (p.1, p.2 * ph.aw p.1 / total)) else d.map (fun p => (p.1, 0))

/-- `getNDensFromMasses(rho, massFracs)`: `massFrac * (rho * K) / A` -/
def getNDensFromMasses (ph : Phys) (rho : Rat) (mf : NDens) : NDens :=
  mf.map (fun p => (p.1, p.2 * (rho * ph.K) / ph.aw p.1))

/-- `calculateNumberDensity(nucName, mass, volume)`: `K * mass / (volume * A)` (raises when that divides by 0,
except mass = volume = 0 → 0) -/
def calculateNumberDensity (ph : Phys) (n : Nuc) (mass vol : Rat) : Rat := ph.K * mass / (vol * ph.aw n)
def canCalculateNumberDensity (ph : Phys) (n : Nuc) (mass vol : Rat) : Bool :=
  vol * ph.aw n ≠ 0 || (mass = 0 && vol = 0)

/-- `getMassInGrams(nucName, volume, numberDensity)`: `N * V * A / K` -/
def getMassInGrams (ph : Phys) (n : Nuc) (vol nd : Rat) : Rat := nd * vol * ph.aw n / ph.K

/-! ## the operations every level offers to the level above -/

structure Ops (α : Type) where
  /-- `getVolume()` -/
  vol : α → Rat
  /-- specification only: the volume that carries mass (component: volume / parent symmetry factor;
  composite: sum over children) -/
  evol : α → Rat
  /-- `getNuclides()` -/
  nucs : α → List Nuc
  /-- `getNumberDensity(n)` -/
  nd : α → Nuc → Rat
  /-- `getMass(n)` for one nuclide name -/
  mass : α → Nuc → Rat
  /-- `setNumberDensity(n, v)` -/
  setND : α → Nuc → Rat → α
  /-- … does not raise -/
  canSet : α → Nuc → Rat → Bool
  /-- `updateNumberDensities(d)` -/
  upd : α → NDens → α
  canUpd : α → NDens → Bool

def Ops.has {α : Type} (o : Ops α) (a : α) (n : Nuc) : Bool := (o.nucs a).contains n

/-! ## components -/

structure Comp where
  /-- `getVolume()` (cached `p.volume`) -/
  vol : Rat
  /-- `self.parent.getSymmetryFactor() if self.parent else 1.0` -/
  psym : Rat
  /-- `p.numberDensities` -/
  nd : NDens
  deriving Repr

/-- `Component.getMass(n)`: `calculateMassDensity({n: N}) * (volume / parent symmetry factor)` -/
def Comp.mass (ph : Phys) (c : Comp) (n : Nuc) : Rat := (0 + c.nd.get n * ph.aw n / ph.K) * (c.vol / c.psym)

def compOps (ph : Phys) : Ops Comp where
  vol c := c.vol
  evol c := c.vol / c.psym
  nucs c := c.nd.keys
  nd c n := c.nd.get n
  mass c n := c.mass ph n
  setND c n v := { c with nd := c.nd.update [(n, v)] }
  canSet _ _ _ := true
  upd c d := { c with nd := c.nd.update d }
  canUpd _ _ := true

/-- `Component.setNumberDensities(d)` (`wipe=True`): exactly the dict passed -/
def Comp.setNDs (c : Comp) (d : NDens) : Comp := { c with nd := NDens.update [] d }

/-- `Component.changeNDensByFactor(f)` -/
def Comp.scale (c : Comp) (f : Rat) : Comp := { c with nd := c.nd.map (fun p => (p.1, p.2 * f)) }

/-! ## one composite level -/

structure Node (α : Type) where
  /-- `getSymmetryFactor()` of this object -/
  sym : Rat
  /-- `some v` when `getVolume()` is not "sum of the children / symmetry factor" (Assembly: first block's
  area × total height, computed by `assemblyVolume`) -/
  volCoded : Option Rat
  kids : List α
  deriving Repr

/-- `Assembly.getVolume()`: `self[0].getArea() * getTotalHeight()` (area 1.0 when there is no block) -/
def assemblyVolume (areas heights : List Rat) : Rat :=
  (match areas with | [] => 1 | a :: _ => a) * sumBy id heights

/-! ## the derived (left-over) shape of a block -/

/-- `hexagon.area(pitch)`: `SQRT3 / 2.0 * pitch**2` — `HexBlock.getMaxArea()` with the pitch of the
pitch-defining component -/
def hexMaxArea (sqrt3 pitch : Rat) : Rat := sqrt3 / 2 * (pitch * pitch)

/-- `DerivedShape._deriveVolumeAndArea`: `remainingVolume = parent.getMaxArea() * parent.getHeight() −
Σ sibling.getVolume()`; `ValueError` (`none`) when negative; the stored area is `remainingVolume / height`,
or, in a zero-height block, `getMaxArea() − Σ sibling.getArea()` (`ValueError` when that is zero).
Returns (volume, area).  The code's further precondition — no second `DerivedShape` among the siblings — is the
hypothesis `exactly one derived shape` of the theorems. -/
def deriveVolumeAndArea (maxArea height : Rat) (sibVols sibAreas : List Rat) : Option (Rat × Rat) :=
  let remainingVolume := maxArea * height - sumBy id sibVols
  let remainingArea := maxArea - sumBy id sibAreas
  if remainingVolume < 0 then none
  else if height = 0 then
    (if sumBy id sibAreas = 0 ∨ remainingArea = 0 then none else some (remainingVolume, remainingArea))
  else some (remainingVolume, remainingVolume / height)

/-- `DerivedShape.getComponentArea(cold=True)` / `(Tc=T)`: `parent.getMaxArea() − Σ sibling areas` at those
conditions -/
def derivedAreaAt (maxArea : Rat) (sibAreas : List Rat) : Rat := maxArea - sumBy id sibAreas

def dedup : List Nuc → List Nuc
  | [] => []
  | n :: l => if (dedup l).contains n then dedup l else n :: dedup l

section Level
variable {α : Type} (o : Ops α)

/-- `Block.getVolume` / `Composite.getVolume` (sym = 1) / the coded assembly volume -/
def Node.vol (p : Node α) : Rat :=
  match p.volCoded with
  | some v => v
  | none => sumBy o.vol p.kids / p.sym

def Node.nucs (p : Node α) : List Nuc := dedup (p.kids.flatMap o.nucs)

/-- the weights of `getNuclideNumberDensities`: `c.getVolume() / c.parent.getSymmetryFactor()` -/
def Node.weight (p : Node α) (c : α) : Rat := o.vol c / p.sym

/-- `getNuclideNumberDensities([n])[0]`: `volumes.dot(densities) / totalVol`, `0.0` when `totalVol == 0.0` -/
def Node.nd (p : Node α) (n : Nuc) : Rat :=
  let total := sumBy (fun c => p.weight o c) p.kids
  if total = 0 then 0 else sumBy (fun c => p.weight o c * o.nd c n) p.kids / total

/-- `getVolumeFractions()`: `child volume / Σ child volumes` (the zero-volume fallback to areas is outside the model) -/
def Node.volFrac (p : Node α) (c : α) : Rat := o.vol c / sumBy o.vol p.kids

/-- `Σ vf` over the children that hold `n` -/
def Node.activeFrac (p : Node α) (n : Nuc) : Rat :=
  sumBy (fun c => if o.has c n then p.volFrac o c else 0) p.kids

def Node.anyActive (p : Node α) (n : Nuc) : Bool := p.kids.any (fun c => o.has c n)

/-- `Composite.getMass(n)`: sum over the children -/
def Node.mass (p : Node α) (n : Nuc) : Rat := sumBy (fun c => o.mass c n) p.kids

/-- `setNumberDensity(n, v)`: children holding `n` get `v / activeVolumeFrac`; nothing happens when no child
holds it (and the value is 0, otherwise `ValueError`) -/
def Node.setND (p : Node α) (n : Nuc) (v : Rat) : Node α :=
  if p.anyActive o n then
    let deh := v / p.activeFrac o n
    { p with kids := p.kids.map (fun c => if o.has c n then o.setND c n deh else c) }
  else p

def Node.canSet (p : Node α) (n : Nuc) (v : Rat) : Bool :=
  if p.anyActive o n then
    sumBy o.vol p.kids ≠ 0 && p.activeFrac o n ≠ 0 &&
      p.kids.all (fun c => !o.has c n || o.canSet c n (v / p.activeFrac o n))
  else v = 0

/-- the per-child dict built by `updateNumberDensities`: for every `(nuc, dens)` of the request, in order:
children holding `nuc` get `dens / Σ their volume fractions`; if no child holds it and `dens ≠ 0` every child
gets `dens / Σ all volume fractions`; if no child holds it and `dens = 0` it is skipped -/
def Node.childUpdate (p : Node α) (d : NDens) (c : α) : NDens :=
  d.filterMap (fun q =>
    if p.anyActive o q.1 then
      if o.has c q.1 then some (q.1, q.2 / p.activeFrac o q.1) else none
    else if q.2 = 0 then none
    else some (q.1, q.2 / sumBy (p.volFrac o) p.kids))

/-- `updateNumberDensities(d)`: children with a non-empty dict get `child.updateNumberDensities(dict)` -/
def Node.upd (p : Node α) (d : NDens) : Node α :=
  { p with kids := p.kids.map (fun c =>
      let u := p.childUpdate o d c
      if u.isEmpty then c else o.upd c u) }

def Node.canUpd (p : Node α) (d : NDens) : Bool :=
  !p.kids.isEmpty && sumBy o.vol p.kids ≠ 0 &&
    d.all (fun q => !p.anyActive o q.1 || p.activeFrac o q.1 ≠ 0) &&
    p.kids.all (fun c => (p.childUpdate o d c).isEmpty || o.canUpd c (p.childUpdate o d c))

/-- the operations of a composite level, built from its children's -/
def nodeOps : Ops (Node α) where
  vol p := p.vol o
  evol p := sumBy o.evol p.kids
  nucs p := p.nucs o
  nd p n := p.nd o n
  mass p n := p.mass o n
  setND p n v := p.setND o n v
  canSet p n v := p.canSet o n v
  upd p d := p.upd o d
  canUpd p d := p.canUpd o d

end Level

/-! ## operations defined once for every level (they only use `Ops`) -/

section Generic
variable {α : Type} (o : Ops α) (ph : Phys)

/-- `setNumberDensities(d)`: every nuclide present but not listed is set to 0.0, then `updateNumberDensities` -/
def setNDs (a : α) (d : NDens) : α :=
  o.upd a (d ++ ((o.nucs a).filter (fun n => !d.has n)).map (fun n => (n, 0)))

def canSetNDs (a : α) (d : NDens) : Bool :=
  o.canUpd a (d ++ ((o.nucs a).filter (fun n => !d.has n)).map (fun n => (n, 0)))

/-- `ArmiObject.changeNDensByFactor(f)`: `setNumberDensities({nuc: val * f})` -/
def scale (a : α) (f : Rat) : α := setNDs o a ((o.nucs a).map (fun n => (n, o.nd a n * f)))
def canScale (a : α) (f : Rat) : Bool := canSetNDs o a ((o.nucs a).map (fun n => (n, o.nd a n * f)))

/-- `addMass(n, m)`: `setNumberDensity(n, getNumberDensity(n) + calculateNumberDensity(n, m, getVolume()))` -/
def addMass (a : α) (n : Nuc) (m : Rat) : α :=
  o.setND a n (o.nd a n + calculateNumberDensity ph n m (o.vol a))
def canAddMass (a : α) (n : Nuc) (m : Rat) : Bool :=
  canCalculateNumberDensity ph n m (o.vol a) &&
    o.canSet a n (o.nd a n + calculateNumberDensity ph n m (o.vol a))

/-- `removeMass(n, m) = addMass(n, -m)` -/
def removeMass (a : α) (n : Nuc) (m : Rat) : α := addMass o ph a n (-m)

/-- `setMass(n, m)`: `setNumberDensity(n, calculateNumberDensity(n, m, getVolume()))` -/
def setMass (a : α) (n : Nuc) (m : Rat) : α := o.setND a n (calculateNumberDensity ph n m (o.vol a))
def canSetMass (a : α) (n : Nuc) (m : Rat) : Bool :=
  canCalculateNumberDensity ph n m (o.vol a) && o.canSet a n (calculateNumberDensity ph n m (o.vol a))

/-- `getNumberDensities()` of a composite: `{n: getNumberDensity(n) for n in getNuclides()}` -/
def ndDict (a : α) : NDens := (o.nucs a).map (fun n => (n, o.nd a n))

/-- `density()`: `Σ_n N_n A_n / K` -/
def density (a : α) : Rat := sumBy (fun n => o.nd a n * ph.aw n / ph.K) (o.nucs a)

/-- `getMass()` with no nuclide given: all nuclides present -/
def massTotal (a : α) : Rat := sumBy (fun n => o.mass a n) (o.nucs a)

/-- `getMassFracs()` -/
def massFracs (a : α) : NDens := getMassFractions ph (ndDict o a)

/-- `getNumberOfAtoms(n)`: `N * V / CM2_PER_BARN` -/
def numberOfAtoms (a : α) (n : Nuc) : Rat := o.nd a n * o.vol a / ph.barn

/-- `setMassFracs(mf)`: the listed nuclides are set to `mf * rho * K / A`; the other nuclides share
`1 - Σ mf` in their old proportions (skipped when they had no mass); `rho` and the old fractions are read
once, before anything is changed -/
def setMassFracs (a : α) (mf : NDens) : α :=
  let rho := density o ph a
  let old := massFracs o ph a
  let a1 := mf.foldl (fun acc q => o.setND acc q.1 (q.2 * rho * ph.K / ph.aw q.1)) a
  let others := old.filter (fun q => !mf.has q.1)
  let totalSet := sumBy (fun q => q.2) mf
  let totalOther := sumBy (fun q => q.2) others
  if totalOther ≠ 0 then
    others.foldl (fun acc q =>
      o.setND acc q.1 ((1 - totalSet) * (q.2 / totalOther) * rho * ph.K / ph.aw q.1)) a1
  else a1

/-- `setMassFracs` raises for zero density, and wherever one of its `setNumberDensity` calls raises -/
def canSetMassFracs (a : α) (mf : NDens) : Bool :=
  let rho := density o ph a
  let old := massFracs o ph a
  let others := old.filter (fun q => !mf.has q.1)
  let totalSet := sumBy (fun q => q.2) mf
  let totalOther := sumBy (fun q => q.2) others
  let step := fun (acc : α × Bool) (q : Nuc × Rat) => (o.setND acc.1 q.1 q.2, acc.2 && o.canSet acc.1 q.1 q.2)
  let r1 := (mf.map (fun q => (q.1, q.2 * rho * ph.K / ph.aw q.1))).foldl step (a, true)
  let r2 := if totalOther ≠ 0 then
      (others.map (fun q => (q.1, (1 - totalSet) * (q.2 / totalOther) * rho * ph.K / ph.aw q.1))).foldl step r1
    else r1
  rho ≠ 0 && r2.2

/-- what a REFUSED `setMassFracs` leaves behind: the listed fractions are applied one by one, so the calls before
the first raising one have already been made (zero density raises before anything is changed; the
re-normalisation of the remaining nuclides is never reached) -/
def setMassFracsPrefix (a : α) (mf : NDens) : α :=
  let rho := density o ph a
  if rho = 0 then a else
  (mf.foldl (fun (acc : α × Bool) q =>
      let v := q.2 * rho * ph.K / ph.aw q.1
      if acc.2 && o.canSet acc.1 q.1 v then (o.setND acc.1 q.1 v, true) else (acc.1, false)) (a, true)).1

/-! ### `adjustMassFrac` -/

/-- `constantNuclides` / `adjustNuclides` / the remaining ones: `getNuclides()` intersected with the name lists -/
def constSet (nucs holdNames : List Nuc) : List Nuc := nucs.filter (fun n => holdNames.contains n)
def adjSet (nucs adjustNames : List Nuc) : List Nuc := nucs.filter (fun n => adjustNames.contains n)
def othersSet (nucs adjustNames holdNames : List Nuc) : List Nuc :=
  nucs.filter (fun n => !adjustNames.contains n && !holdNames.contains n)

/-- the new fractions of the adjusted nuclides: scaled by `val / A`, or `val / numNucs` each when they have no mass -/
def adjPart (nucs : List Nuc) (f : Nuc → Rat) (adjustNames : List Nuc) (val : Rat) : NDens :=
  (adjSet nucs adjustNames).map (fun n =>
    (n, if sumBy f (adjSet nucs adjustNames) = 0 then val / ((adjSet nucs adjustNames).length : Rat)
        else f n * (val / sumBy f (adjSet nucs adjustNames))))

/-- `factor2`: `1.0` when `othersSum` is zero, else `(1 - newA - constantSum) / othersSum` -/
def adjustFactor2 (nucs : List Nuc) (f : Nuc → Rat) (adjustNames holdNames : List Nuc) (val : Rat) : Rat :=
  if 1 - sumBy f (adjSet nucs adjustNames) - sumBy f (constSet nucs holdNames) = 0 then 1
  else (1 - sumBy (fun q => q.2) (adjPart nucs f adjustNames val) - sumBy f (constSet nucs holdNames))
        / (1 - sumBy f (adjSet nucs adjustNames) - sumBy f (constSet nucs holdNames))

def othersPart (nucs : List Nuc) (f : Nuc → Rat) (adjustNames holdNames : List Nuc) (val : Rat) : NDens :=
  (othersSet nucs adjustNames holdNames).map (fun n => (n, f n * adjustFactor2 nucs f adjustNames holdNames val))

/-- the `newMassFracs` dict `adjustMassFrac` hands to `setMassFracs` (`none` = it raises before).
`nucs` = `getNuclides()`, `f n` = `getMassFrac(n)`; `adjustNames` / `holdNames` are what
`nucDir.getNuclideNames(nucName, elementSymbol)` returns for the nuclide/element to adjust / to hold constant
(`holdNames = []` when nothing is held). Order: the adjusted nuclides, then the others (both in `getNuclides()`
order; the code iterates a `set` for the first group — `setMassFracs` reads density and old fractions once, up
front, so the order of its dict does not matter). -/
def adjustDictOf (nucs : List Nuc) (f : Nuc → Rat) (adjustNames holdNames : List Nuc) (val : Rat) : Option NDens :=
  if val > 1 ∨ val < 0 then none else
  -- `abs(newA - val) > 1e-10` -> RuntimeError
  if sumBy (fun q => q.2) (adjPart nucs f adjustNames val) - val > 1 / 10000000000 ∨
      val - sumBy (fun q => q.2) (adjPart nucs f adjustNames val) > 1 / 10000000000 then none else
  some (adjPart nucs f adjustNames val ++ othersPart nucs f adjustNames holdNames val)

def adjustDict (a : α) (adjustNames holdNames : List Nuc) (val : Rat) : Option NDens :=
  adjustDictOf (o.nucs a) (fun n => NDens.get (massFracs o ph a) n) adjustNames holdNames val

/-- `adjustMassFrac(...)`: the dict above through `setMassFracs` (`none` = some call raises) -/
def adjustMassFrac (a : α) (adjustNames holdNames : List Nuc) (val : Rat) : Option α :=
  match adjustDict o ph a adjustNames holdNames val with
  | none => none
  | some d => if canSetMassFracs o ph a d then some (setMassFracs o ph a d) else none

end Generic

/-! ## component-level overrides -/

/-- `Component.addMass(n, m)`: `Composite.addMass(n, m * parentSymmetryFactor)` — masses are those of the
symmetry-cut volume, as in `Component.getMass` -/
def Comp.addMass (ph : Phys) (c : Comp) (n : Nuc) (m : Rat) : Comp := _root_.ArmiVerif.Compo.addMass (compOps ph) ph c n (m * c.psym)
def Comp.canAddMass (ph : Phys) (c : Comp) (n : Nuc) (m : Rat) : Bool := _root_.ArmiVerif.Compo.canAddMass (compOps ph) ph c n (m * c.psym)

/-- `Component.setMass(n, m)`: `Composite.setMass(n, m * parentSymmetryFactor)` -/
def Comp.setMass (ph : Phys) (c : Comp) (n : Nuc) (m : Rat) : Comp := _root_.ArmiVerif.Compo.setMass (compOps ph) ph c n (m * c.psym)
def Comp.canSetMass (ph : Phys) (c : Comp) (n : Nuc) (m : Rat) : Bool := _root_.ArmiVerif.Compo.canSetMass (compOps ph) ph c n (m * c.psym)

/-- `Component.density()`: the composite density `Σ N A / K`; only a component with NO nuclides at all (and a
non-void material) reports its material's density instead (`matDensity`, a parameter) -/
def Comp.density (ph : Phys) (matDensity : Rat) (isVoid : Bool) (c : Comp) : Rat :=
  if c.nd.isEmpty && !isVoid then matDensity else _root_.ArmiVerif.Compo.density (compOps ph) ph c

/-! ## vector forms of the mass setters (`addMasses`, `setMasses`) -/

/-- fold of single-nuclide setter calls that stops at the first call that raises (the earlier calls stay applied,
as in the code): returns the state reached and whether every call was accepted -/
def foldCalls {α : Type} (can : α → Nuc → Rat → Bool) (f : α → Nuc → Rat → α) (a : α) (ms : NDens) : α × Bool :=
  ms.foldl (fun (acc : α × Bool) q =>
    if acc.2 && can acc.1 q.1 q.2 then (f acc.1 q.1 q.2, true) else (acc.1, false)) (a, true)

/-- `addMasses(masses)`: `for n, m in masses.items(): if m: self.addMass(n, m)` -/
def addMassesWith {α : Type} (can : α → Nuc → Rat → Bool) (add : α → Nuc → Rat → α) (a : α) (ms : NDens) : α × Bool :=
  foldCalls can add a (ms.filter (fun q => q.2 ≠ 0))

/-- `setMasses(masses)`: `clearNumberDensities()` (every nuclide present to `TRACE_NUMBER_DENSITY`) and then
`setMass` for every listed nuclide -/
def setMassesWith {α : Type} (clear : α → α) (can : α → Nuc → Rat → Bool) (set : α → Nuc → Rat → α)
    (a : α) (ms : NDens) : α × Bool :=
  foldCalls can set (clear a) ms

/-- `ArmiObject.clearNumberDensities()`: `setNumberDensities({n: TRACE_NUMBER_DENSITY for n in getNuclides()})` -/
def clearNDs {α : Type} (o : Ops α) (trace : Rat) (a : α) : α := setNDs o a ((o.nucs a).map (fun n => (n, trace)))
def Comp.clearNDs (trace : Rat) (c : Comp) : Comp := c.setNDs (c.nd.keys.map (fun n => (n, trace)))

/-! ## nuclide selections (`_getNuclidesFromSpecifier`): a nuclide name, an element symbol, or a list of them -/

/-- element table: `elem s = some isotopes` when `s` is an element symbol (`elements.bySymbol[s].nuclides` without
the natural-abundance pseudo nuclide), `none` otherwise (`KeyError`) — a parameter, read from the real tables -/
abbrev ElemTable := Nuc → Option (List Nuc)

/-- `_getNuclidesFromSpecifier(spec)` for a (flattened) list of names (`resolveOne` per name), resolved against
the nuclides present `here`: a name present here stays; otherwise an element symbol expands to all its isotopes; otherwise the name
stays (it will contribute nothing). The result is a SET (`sorted(set(...))`): duplicates count once. -/
def resolveOne (elem : ElemTable) (here : List Nuc) (s : Nuc) : List Nuc :=
  if here.contains s then [s] else match elem s with
    | some l => l
    | none => [s]

def resolveSpec (elem : ElemTable) (here : List Nuc) (spec : List Nuc) : List Nuc :=
  dedup (spec.flatMap (resolveOne elem here))

/-- `Component.getMass(spec)`: `calculateMassDensity({n: N_n for n in resolved}) * volume / parent symmetry factor`;
the specifier is resolved against THIS component's nuclides -/
def Comp.massSel (ph : Phys) (elem : ElemTable) (c : Comp) (spec : List Nuc) : Rat :=
  sumBy (fun n => c.nd.get n * ph.aw n / ph.K) (resolveSpec elem c.nd.keys spec) * (c.vol / c.psym)

/-- `Composite.getMass(spec)`: sum over the children (each child resolves the specifier for itself) -/
def Node.massSel {α : Type} (f : α → List Nuc → Rat) (p : Node α) (spec : List Nuc) : Rat :=
  sumBy (fun c => f c spec) p.kids

def blockMassSel (ph : Phys) (elem : ElemTable) : Node Comp → List Nuc → Rat := Node.massSel (Comp.massSel ph elem)
def assemMassSel (ph : Phys) (elem : ElemTable) : Node (Node Comp) → List Nuc → Rat :=
  Node.massSel (blockMassSel ph elem)
def coreMassSel (ph : Phys) (elem : ElemTable) : Node (Node (Node Comp)) → List Nuc → Rat :=
  Node.massSel (assemMassSel ph elem)

/-- `getMassFrac(spec)`: the specifier is resolved against THIS object's nuclides; the listed mass fractions are
summed -/
def massFracSel {α : Type} (o : Ops α) (ph : Phys) (elem : ElemTable) (a : α) (spec : List Nuc) : Rat :=
  let mf := massFracs o ph a
  sumBy (fun n => NDens.get mf n) (resolveSpec elem (o.nucs a) spec)

/-! ## the three concrete levels -/

abbrev Block := Node Comp
abbrev Assem := Node Block
abbrev Core := Node Assem

def blockOps (ph : Phys) : Ops Block := nodeOps (compOps ph)
def assemOps (ph : Phys) : Ops Assem := nodeOps (blockOps ph)
def coreOps (ph : Phys) : Ops Core := nodeOps (assemOps ph)

/-! ## uniform nesting of any depth: `Lvl d` = composites `d` levels above the components
(`Lvl 1` = block, `Lvl 2` = assembly, `Lvl 3` = core, `Lvl 4` = a composite of cores, …) with the generic level
operations applied `d` times -/

def Lvl : Nat → Type
  | 0 => Comp
  | d + 1 => Node (Lvl d)

def lvlOps (ph : Phys) : (d : Nat) → Ops (Lvl d)
  | 0 => compOps ph
  | d + 1 => nodeOps (lvlOps ph d)

/-! ## `HexBlock.getSymmetryFactor`, `HexGrid.overlapsWhichSymmetryLine`, `Assembly.getSymmetryFactor` -/

inductive SymLine where
  | center | deg0 | deg60 | deg120
  deriving DecidableEq, Repr

/-- `HexGrid.overlapsWhichSymmetryLine(indices)` (1/3-core view) -/
def overlapsWhichSymmetryLine (i j : Int) : Option SymLine :=
  if i = 0 ∧ j = 0 then some .center
  else if i > 0 ∧ i = -2 * j then some .deg0
  else if i = j ∧ i > 0 ∧ j > 0 then some .deg60
  else if j = -2 * i ∧ j > 0 then some .deg120
  else none

/-- `HexBlock.getSymmetryFactor()`: 1 when the parent has no located grid symmetry; in a third-core periodic grid 3 at
the centre, 2 on the 0- and 120-degree symmetry lines when the upper edge assemblies are modelled, else 1 -/
def hexBlockSymmetryFactor (hasGridSymmetry thirdPeriodic : Bool) (i j : Int) (upperEdgePresent : Bool) : Rat :=
  if !hasGridSymmetry then 1
  else if thirdPeriodic then
    if i = 0 ∧ j = 0 then 3
    else match overlapsWhichSymmetryLine i j with
      | some .deg0 => if upperEdgePresent then 2 else 1
      | some .deg120 => if upperEdgePresent then 2 else 1
      | _ => 1
  else 1

/-- `Assembly.getSymmetryFactor()`: `self[0].getSymmetryFactor()` -/
def assemblySymmetryFactor (blockFactors : List Rat) : Option Rat := blockFactors.head?

/-! ## composites of ARBITRARY depth (`composites.Composite` holding composites … holding components)

`Composite.getVolume` (`sum(child.getVolume())`, divided by the symmetry factor in `Block.getVolume`),
`ArmiObject.getNuclideNumberDensities` (children weighted by `c.getVolume() / c.parent.getSymmetryFactor()`),
`Composite.getMass` (`sum(c.getMass())`) on a tree of any shape. -/

inductive Tree where
  | leaf (c : Comp)
  | node (sym : Rat) (kids : List Tree)

mutual
/-- `getVolume()` -/
def Tree.vol : Tree → Rat
  | .leaf c => c.vol
  | .node sym kids => Tree.volList kids / sym
def Tree.volList : List Tree → Rat
  | [] => 0
  | t :: ts => t.vol + Tree.volList ts
end

/-- `volumes.sum()`: `Σ c.getVolume() / self.getSymmetryFactor()` -/
def Tree.wvolList (sym : Rat) : List Tree → Rat
  | [] => 0
  | t :: ts => t.vol / sym + Tree.wvolList sym ts

mutual
/-- `getNumberDensity(n)`: the component's own density; a composite: `volumes.dot(densities) / totalVol`
(0 when `totalVol == 0.0`) -/
def Tree.nd (n : Nuc) : Tree → Rat
  | .leaf c => c.nd.get n
  | .node sym kids => if Tree.wvolList sym kids = 0 then 0 else Tree.wndList n sym kids / Tree.wvolList sym kids
def Tree.wndList (n : Nuc) (sym : Rat) : List Tree → Rat
  | [] => 0
  | t :: ts => t.vol / sym * t.nd n + Tree.wndList n sym ts
end

mutual
/-- atoms (× barn) counted on the LEAVES: `Σ_c N_c V_c / Π (symmetry factors on the way up)` -/
def Tree.leafAtoms (n : Nuc) : Tree → Rat
  | .leaf c => c.vol * c.nd.get n
  | .node sym kids => Tree.leafAtomsList n kids / sym
def Tree.leafAtomsList (n : Nuc) : List Tree → Rat
  | [] => 0
  | t :: ts => t.leafAtoms n + Tree.leafAtomsList n ts
end

mutual
/-- `getMass(n)`: a component's own (`Comp.mass`), a composite's `sum(c.getMass(n))` -/
def Tree.mass (ph : Phys) (n : Nuc) : Tree → Rat
  | .leaf c => c.mass ph n
  | .node _ kids => Tree.massList ph n kids
def Tree.massList (ph : Phys) (n : Nuc) : List Tree → Rat
  | [] => 0
  | t :: ts => t.mass ph n + Tree.massList ph n ts
end

mutual
/-- every composite has a non-zero symmetry factor and a non-zero volume -/
def Tree.WF : Tree → Prop
  | .leaf _ => True
  | .node sym kids => sym ≠ 0 ∧ Tree.volList kids ≠ 0 ∧ Tree.WFList kids
def Tree.WFList : List Tree → Prop
  | [] => True
  | t :: ts => t.WF ∧ Tree.WFList ts
end

mutual
/-- every component carries the symmetry factor of the composite that holds it (`self.parent.getSymmetryFactor()`);
composites that hold composites have factor 1 (only blocks are cut) -/
def Tree.SymOK : Rat → Tree → Prop
  | psym, .leaf c => c.psym = psym
  | psym, .node sym kids => psym = 1 ∧ Tree.SymOKList sym kids
def Tree.SymOKList : Rat → List Tree → Prop
  | _, [] => True
  | sym, t :: ts => t.SymOK sym ∧ Tree.SymOKList sym ts
end

end ArmiVerif.Compo
