/-
Model of the generic grid layer: armi/reactor/grids/cartesian.py, structuredGrid.py, axial.py,
thetarz.py, locations.py (index level over `Int`, coordinates over exact `Rat`).
Core Lean only.  Each definition names the Python function it transcribes.
-/
namespace ArmiVerif.Grid

/-! ### CartesianGrid ring / position (half-integers as doubled integers) -/

/-- Python `int(x)` for x = I/2 (truncation toward zero) -/
def truncHalf (I : Int) : Int := if 0 ≤ I then I / 2 else -((-I) / 2)

def iabs (x : Int) : Int := if x < 0 then -x else x

/-- twice the centre of cell (i, j) in units of the pitch: `through` = `_isThroughCenter()`
(no offset): (2i, 2j); otherwise the cell centres sit at half-integers: (2i+1, 2j+1). -/
def cdbl (through : Bool) (c : Int × Int) : Int × Int :=
  if through then (2 * c.1, 2 * c.2) else (2 * c.1 + 1, 2 * c.2 + 1)

/-- `CartesianGrid.getRingPos`. `I`, `J`, `R`, `P` are the doubled values of the Python
variables `i`, `j`, `ring`, `pos` after the `+= 0.5` adjustments. -/
def cartRingPos (through : Bool) (i j : Int) : Int × Int :=
  let I := (cdbl through (i, j)).1
  let J := (cdbl through (i, j)).2
  let ring := max (iabs (truncHalf I)) (iabs (truncHalf J))
  let R := if through then 2 * ring else 2 * ring + 1
  let P :=
    if J = R then -I + R
    else if I = -R then 3 * R - J
    else if J = -R then 5 * R + I
    else 7 * R + J
  (truncHalf R + 1, truncHalf P + 1)

/-- `CartesianGrid.getPositionsInRing` -/
def cartPositionsInRing (through : Bool) (ring : Int) : Int :=
  if ring = 1 then (if through then 1 else 4)
  else (ring - 1) * 8 + (if through then 0 else 4)

/-- loop of `CartesianGrid.getMinimumRings` (`for ring in itertools.count(1)`), with fuel -/
def cartMinRingsGo (through : Bool) (n : Int) : Nat → Int → Int → Int
  | 0, ring, _ => ring
  | fuel + 1, ring, acc =>
    let acc' := acc + cartPositionsInRing through ring
    if acc' ≥ n then ring else cartMinRingsGo through n fuel (ring + 1) acc'

/-- `CartesianGrid.getMinimumRings(n)` -/
def cartMinRings (through : Bool) (n : Int) : Int :=
  cartMinRingsGo through n (n.toNat + 1) 1 0

/-- cells in rings 1..r -/
def cartTotal (through : Bool) (r : Int) : Int :=
  if through then (2 * r - 1) * (2 * r - 1) else (2 * r) * (2 * r)

/-! ### C08: quarter-core symmetry -/

/-- `CartesianGrid.getSymmetricEquivalents`. domain: 0 = full core, 1 = quarter core, other =
NotImplementedError (`none`); `rotational` = periodic boundary; `through` =
`symmetry.isThroughCenterAssembly`. -/
def cartEquivalents (domain : Nat) (rotational through : Bool) (i j : Int) :
    Option (List (Int × Int)) :=
  if domain = 0 then some []
  else if domain = 1 then
    if through then
      if i = 0 ∧ j = 0 then some []
      else if i = 0 then
        (if rotational then some [(j, i), (i, -j), (-j, i)] else some [(i, -j)])
      else if j = 0 then
        (if rotational then some [(j, i), (-i, j), (j, -i)] else some [(-i, j)])
      else if rotational then some [(-j, i), (-i, -j), (j, -i)]
      else some [(-i, j), (-i, -j), (i, -j)]
    else if rotational then some [(-j - 1, i), (-i - 1, -j - 1), (j, -i - 1)]
    else some [(-i - 1, j), (-i - 1, -j - 1), (i, -j - 1)]
  else none

/-- `CartesianGrid.getSymmetricEquivalents((i, j, k))`: `i, j = indices[0:2]` -/
def cartEquivalentsK (domain : Nat) (rotational through : Bool) (c : Int × Int × Int) :
    Option (List (Int × Int)) := cartEquivalents domain rotational through c.1 c.2.1

/-- `CartesianGrid.locatorInDomain` -/
def cartInDomain (quarter : Bool) (i j : Int) : Bool :=
  if quarter then decide (i ≥ 0 ∧ j ≥ 0) else true

/-- the 90° counter-clockwise rotation about the grid centre (centre of cell (0,0) when
`through`, the corner point shared by the four central cells otherwise), on indices -/
def rot90 (through : Bool) (c : Int × Int) : Int × Int :=
  if through then (-c.2, c.1) else (-c.2 - 1, c.1)

/-- reflections in the y axis / x axis through the grid centre -/
def flipX (through : Bool) (c : Int × Int) : Int × Int :=
  if through then (-c.1, c.2) else (-c.1 - 1, c.2)
def flipY (through : Bool) (c : Int × Int) : Int × Int :=
  if through then (c.1, -c.2) else (c.1, -c.2 - 1)

/-! ### StructuredGrid: unit steps, bounds, offset -/

/-- `_unitSteps` after the row selection `np.array(unitSteps)[self._stepDims]`:
1-D (e.g. the default `(0, 0, 0)`) or 2-D -/
inductive Steps where
  | flat (v : List Rat)
  | mat (rows : List (List Rat))
deriving DecidableEq, Repr

/-- one row of the `unitSteps` constructor argument: a tuple or a bare scalar -/
inductive Row where
  | vec (v : List Rat)
  | scalar (q : Rat)
deriving DecidableEq, Repr

/-- live state of a `StructuredGrid` (what the property can observe) -/
structure G where
  steps : Steps
  bounds : List (Option (List Rat))
  limits : List (Int × Int)
  offset : List Rat
  geom : String
  sym : String
deriving DecidableEq, Repr

/-- constructor arguments = `GridParameters` -/
structure Args where
  unitSteps : List Row
  bounds : List (Option (List Rat))
  limits : List (Int × Int)
  offset : Option (List Rat)
  geom : String
  sym : String
deriving DecidableEq, Repr

/-- `_stepDims[0]`: dimensions without bounds -/
def stepDims (bounds : List (Option (List Rat))) : List Nat :=
  (List.range bounds.length).filter (fun d => (bounds.getD d none).isNone)

def boundDims (bounds : List (Option (List Rat))) : List Nat :=
  (List.range bounds.length).filter (fun d => (bounds.getD d none).isSome)

def allScalars : List Row → Option (List Rat)
  | [] => some []
  | .scalar q :: rest => (allScalars rest).map (q :: ·)
  | .vec _ :: _ => none

def allVecs : List Row → Option (List (List Rat))
  | [] => some []
  | .vec v :: rest => (allVecs rest).map (v :: ·)
  | .scalar _ :: _ => none

/-- `np.array(unitSteps)`: all scalars → 1-D, all tuples of one length → 2-D, anything else is the
"inhomogeneous shape" ValueError (`none`). -/
def npArray (rows : List Row) : Option Steps :=
  match allScalars rows with
  | some v => some (.flat v)
  | none =>
    match allVecs rows with
    | some m =>
      (match m with
       | [] => some (.mat [])
       | r :: rest => if rest.all (fun x => x.length = r.length) then some (.mat m) else none)
    | none => none

def selectAt {α} (l : List α) (dims : List Nat) : Option (List α) :=
  dims.mapM (fun d => l[d]?)

/-- `StructuredGrid.__init__` (the part that determines coordinates and metadata) -/
def build (a : Args) : Option G := do
  let arr ← npArray a.unitSteps
  let sd := stepDims a.bounds
  let steps ← (match arr with
    | .flat v => (selectAt v sd).map Steps.flat
    | .mat m => (selectAt m sd).map Steps.mat)
  some { steps := steps, bounds := a.bounds, limits := a.limits,
         offset := a.offset.getD [0, 0, 0], geom := a.geom, sym := a.sym }

/-- the `unitSteps` loop of `reduce` (`for i in range(3)`): pop the compressed rows back into the
step dimensions, a bare `0` elsewhere; `none` = `pop` from an empty list -/
def expandRows (sd : List Nat) : List Nat → List Row → Option (List Row)
  | [], _ => some []
  | i :: is, comp =>
    if sd.contains i then
      match comp with
      | r :: rest => (expandRows sd is rest).map (r :: ·)
      | [] => none
    else (expandRows sd is comp).map (Row.scalar 0 :: ·)

/-- `StructuredGrid.reduce` -/
def reduce (g : G) : Option Args := do
  let comp : List Row := match g.steps with
    | .flat v => v.map Row.scalar
    | .mat m => m.map Row.vec
  let us ← expandRows (stepDims g.bounds) [0, 1, 2] comp
  some { unitSteps := us
         bounds := g.bounds
         limits := g.limits
         offset := if g.offset.all (· = 0) then none else some g.offset
         geom := g.geom
         sym := g.sym }

/-- Σ rowₘ·idxₘ -/
def dotv : List Rat → List Rat → Rat
  | a :: as, b :: bs => a * b + dotv as bs
  | _, _ => 0

/-- `np.dot` of two 1-D arrays; `none` = shape mismatch -/
def dot (row idx : List Rat) : Option Rat :=
  if row.length = idx.length then some (dotv row idx) else none

/-- `_centroidBySteps`: `np.dot(self._unitSteps, indices)`; a 1-D `_unitSteps` gives a scalar that
numpy broadcasts over the step dimensions -/
def centroidBySteps (s : Steps) (idx : List Rat) : Option (List Rat) :=
  match s with
  | .flat v => (dot v idx).map (fun q => List.replicate idx.length q)
  | .mat rows =>
    if rows.length = idx.length ∧ rows.all (fun r => r.length = idx.length) then
      some (rows.map (fun r => dotv r idx))
    else none

/-- `_meshBaseBySteps` -/
def meshBaseBySteps (s : Steps) (idx : List Rat) : Option (List Rat) := do
  let a ← centroidBySteps s (idx.map (· - 1))
  let b ← centroidBySteps s idx
  some (List.zipWith (fun x y => (x + y) / 2) a b)

/-- `_centroidByBounds`; `none` = IndexError -/
def centroidByBounds (index : Int) (b : List Rat) : Option Rat :=
  if index < 0 then none else do
    let hi ← b[(index + 1).toNat]?
    let lo ← b[index.toNat]?
    some ((hi + lo) / 2)

/-- `_meshBaseByBounds` -/
def meshBaseByBounds (index : Int) (b : List Rat) : Option Rat :=
  if index < 0 then none else b[index.toNat]?

/-- write `vals` at positions `dims` of `acc` (`result[dims] = vals`) -/
def scatter (acc : List Rat) : List Nat → List Rat → List Rat
  | d :: ds, v :: vs => scatter (acc.set d v) ds vs
  | _, _ => acc

/-- `_evaluateMesh(indices, stepOperator, boundsOperator)` -/
def evaluateMesh (g : G) (idx : List Int)
    (stepOp : Steps → List Rat → Option (List Rat)) (boundOp : Int → List Rat → Option Rat) :
    Option (List Rat) := do
  let bd := boundDims g.bounds
  let boundCoords ← bd.mapM (fun d => do
    let b ← (g.bounds.getD d none)
    let i ← idx[d]?
    boundOp i b)
  let sd := stepDims g.bounds
  let sidx ← selectAt idx sd
  let stepCoords ← stepOp g.steps (sidx.map (fun (z : Int) => (z : Rat)))
  if stepCoords.length ≠ sd.length then none else
  let r0 := List.replicate idx.length (0 : Rat)
  let r1 := scatter r0 sd stepCoords
  let r2 := scatter r1 bd boundCoords
  if r2.length ≠ g.offset.length then none else
  some (List.zipWith (· + ·) r2 g.offset)

/-- `getCoordinates` (native coordinates) -/
def getCoordinates (g : G) (idx : List Int) : Option (List Rat) :=
  evaluateMesh g idx centroidBySteps centroidByBounds
/-- `getCellBase` -/
def getCellBase (g : G) (idx : List Int) : Option (List Rat) :=
  evaluateMesh g idx meshBaseBySteps meshBaseByBounds
/-- `getCellTop`: the base operators at `indices + 1` -/
def getCellTop (g : G) (idx : List Int) : Option (List Rat) :=
  evaluateMesh g (idx.map (· + 1)) meshBaseBySteps meshBaseByBounds

/-- `ThetaRZGrid.getCoordinates(indices, nativeCoords)`: the mesh coordinates are (θ, r, z); `tau` is
`math.tau`, `cs` / `sn` stand for cos θ / sin θ of that θ (parameters: the model is exact in them).
`none` = IndexError, or the "Invalid theta value" ValueError when θ is outside [0, τ]. -/
def trzGetCoordinates (tau cs sn : Rat) (native : Bool) (g : G) (idx : List Int) : Option (List Rat) :=
  match getCoordinates g idx with
  | some [theta, r, z] =>
    if 0 ≤ theta ∧ theta ≤ tau then
      (if native then some [theta, r, z] else some [r * cs, r * sn, z])
    else none
  | _ => none

/-- `ThetaRZGrid.getRingPos` / `getIndicesFromRingAndPos` -/
def trzRingPos (i j : Int) : Int × Int := (j + 1, i + 1)
def trzFromRingPos (ring pos : Int) : Int × Int := (pos - 1, ring - 1)

/-- `getIndexBounds` -/
def indexBounds (g : G) : List (Int × Int) :=
  List.zipWith (fun (mm : Int × Int) (b : Option (List Rat)) =>
    match b with
    | none => mm
    | some l => (0, (l.length : Int))) g.limits g.bounds

/-- `_isAxialOnly`: `iLen == jLen == 1 and kLen > 1` on the second entries of `getIndexBounds` -/
def isAxialOnly (g : G) : Bool :=
  match indexBounds g with
  | [(_, iLen), (_, jLen), (_, kLen)] => decide (iLen = jLen ∧ jLen = 1 ∧ kLen > 1)
  | _ => false

/-- `locations.addingIsValid` -/
def addingIsValid (mine parent : G) : Bool := isAxialOnly mine && !(isAxialOnly parent)

/-! ### locators and nesting -/

/-- a spatial locator together with the grid it lives in (`none` = detached) -/
inductive Loc where
  | index (g : Option G) (i j k : Int)
  | coord (g : Option G) (x y z : Rat)
deriving DecidableEq, Repr

def Loc.grid : Loc → Option G
  | .index g _ _ _ => g
  | .coord g _ _ _ => g

/-- `loc.indices` (as rationals; a CoordinateLocation's "indices" are its coordinates) -/
def Loc.indices : Loc → List Rat
  | .index _ i j k => [(i : Rat), j, k]
  | .coord _ x y z => [x, y, z]

/-- `getLocalCoordinates`; `none` = ValueError (index locator without grid) or IndexError -/
def Loc.localCoords : Loc → Option (List Rat)
  | .index (some g) i j k => getCoordinates g [i, j, k]
  | .index none _ _ _ => none
  | .coord _ x y z => some [x, y, z]

def vadd (a b : List Rat) : List Rat := List.zipWith (· + ·) a b

/-- `getGlobalCoordinates` along the chain [self, parentLocation, its parentLocation, …]
(the chain ends where `parentLocation` is `None`) -/
def globalCoords : List Loc → Option (List Rat)
  | [] => none
  | [l] => l.localCoords
  | l :: rest => do
    let a ← l.localCoords
    let b ← globalCoords rest
    some (vadd a b)

/-- local `grid.getCellBase(indices)` / `getCellTop` of a locator -/
def Loc.localBase : Loc → Option (List Rat)
  | .index (some g) i j k => getCellBase g [i, j, k]
  | .index none _ _ _ => none
  | .coord _ x y z => some [x, y, z]
def Loc.localTop : Loc → Option (List Rat)
  | .index (some g) i j k => getCellTop g [i, j, k]
  | .index none _ _ _ => none
  | .coord _ x y z => some [x, y, z]

/-- `getGlobalCellBase` along the chain: `parent.getGlobalCellBase() + grid.getCellBase(indices)`;
a `CoordinateLocation` returns its coordinates and does NOT look further up. -/
def globalBase : List Loc → Option (List Rat)
  | [] => none
  | (.coord _ x y z) :: _ => some [x, y, z]
  | [l] => l.localBase
  | l :: rest => do
    let b ← globalBase rest
    let a ← l.localBase
    some (vadd b a)

/-- `getGlobalCellTop` -/
def globalTop : List Loc → Option (List Rat)
  | [] => none
  | (.coord _ x y z) :: _ => some [x, y, z]
  | [l] => l.localTop
  | l :: rest => do
    let b ← globalTop rest
    let a ← l.localTop
    some (vadd b a)

/-- `getCompleteIndices` of a locator given its `parentLocation` (if any): ONE level of
addition, only when `addingIsValid` -/
def completeIndices (self : Loc) (parent : Option Loc) : List Rat :=
  match self with
  | .coord _ _ _ _ => [0, 0, 0]
  | .index g _ _ _ =>
    match parent with
    | none => self.indices
    | some p =>
      match g, p.grid with
      | some mine, some pg => if addingIsValid mine pg then vadd self.indices p.indices else self.indices
      | _, _ => self.indices

/-- `getCompleteIndices` raises instead of returning when the addition is valid but the parent locator is a
`CoordinateLocation` inside a grid: its `indices` are float coordinates and numpy refuses the in-place
`int64 += float64` (`UFuncTypeError`, whatever the values). -/
def completeIndicesRaises (self : Loc) (parent : Option Loc) : Bool :=
  match self, parent with
  | .index (some mine) _ _ _, some (.coord (some pg) _ _ _) => addingIsValid mine pg
  | _, _ => false

/-- `getCompleteIndices` of the FIRST locator of a chain [self, parentLocation, grandparent, …]:
only `parentLocation` (the second element) is ever consulted — the recursion of the coordinates does
not exist for indices -/
def completeIndicesChain : List Loc → List Rat
  | [] => []
  | l :: rest => completeIndices l rest.head?

/-- a chain element: a plain locator, or an index locator living in a `ThetaRZGrid`, whose
`getLocalCoordinates()` goes through `ThetaRZGrid.getCoordinates(nativeCoords=False)`
(`tau`, cos θ, sin θ as parameters, see `trzGetCoordinates`) -/
inductive LocT where
  | plain (l : Loc)
  | trz (tau cs sn : Rat) (g : G) (i j k : Int)
deriving Repr

/-- forget the θ-R-Z conversion (`getCellBase` / `getCellTop` / `indices` do not use it) -/
def LocT.toLoc : LocT → Loc
  | .plain l => l
  | .trz _ _ _ g i j k => .index (some g) i j k

/-- `getLocalCoordinates` of a chain element -/
def LocT.localCoords : LocT → Option (List Rat)
  | .plain l => l.localCoords
  | .trz tau cs sn g i j k => trzGetCoordinates tau cs sn false g [i, j, k]

/-- `getGlobalCoordinates` along a chain that may pass through θ-R-Z grids -/
def globalCoordsT : List LocT → Option (List Rat)
  | [] => none
  | [l] => l.localCoords
  | l :: rest => do
    let a ← l.localCoords
    let b ← globalCoordsT rest
    some (vadd a b)

/-- `getLocalCoordinates(nativeCoords)` of a chain element: only a `ThetaRZGrid` looks at the flag
(`StructuredGrid.getCoordinates` and `CoordinateLocation.getLocalCoordinates` ignore it) -/
def LocT.localCoordsN (native : Bool) : LocT → Option (List Rat)
  | .plain l => l.localCoords
  | .trz tau cs sn g i j k => trzGetCoordinates tau cs sn native g [i, j, k]

/-- `getGlobalCoordinates(nativeCoords)`: the flag is handed to the local query AND on to the parent's
`getGlobalCoordinates`, at every level -/
def globalCoordsTN (native : Bool) : List LocT → Option (List Rat)
  | [] => none
  | [l] => l.localCoordsN native
  | l :: rest => do
    let a ← l.localCoordsN native
    let b ← globalCoordsTN native rest
    some (vadd a b)

/-! ### changing the pitch -/

/-- `HexGrid._getRawUnitSteps(pitch, cornersUp)`; `s3` stands for √3 (`hexagon.SQRT3`) -/
def hexRawUnitSteps (s3 pitch : Rat) (cornersUp : Bool) : List (List Rat) :=
  let side := pitch / s3
  if cornersUp then [[pitch / 2, -pitch / 2, 0], [3 / 2 * side, 3 / 2 * side, 0], [0, 0, 0]]
  else [[3 / 2 * side, 0, 0], [pitch / 2, pitch, 0], [0, 0, 0]]

/-- `HexGrid.cornersUp`: `_unitSteps[0][1] != 0` -/
def hexCornersUp (g : G) : Option Bool :=
  match g.steps with
  | .mat (r :: _) => (r[1]?).map (fun q => decide (q ≠ 0))
  | _ => none

/-- `HexGrid.changePitch` -/
def hexChangePitch (s3 newPitch : Rat) (g : G) : Option G := do
  let cu ← hexCornersUp g
  let rows ← selectAt (hexRawUnitSteps s3 newPitch cu) (stepDims g.bounds)
  some { g with steps := .mat rows }

/-- `CartesianGrid.changePitch(xw, yw)` (also rescales the offset and zeroes its z entry) -/
def cartChangePitch (xw yw : Rat) (g : G) : Option G :=
  match g.steps with
  | .mat (r0 :: r1 :: _) => do
    let xwOld ← r0[0]?
    let ywOld ← r1[1]?
    let rows ← selectAt [[xw, 0, 0], [0, yw, 0], [0, 0, 0]] (stepDims g.bounds)
    let ox ← g.offset[0]?
    let oy ← g.offset[1]?
    if xwOld = 0 ∨ ywOld = 0 then none else
    some { g with steps := .mat rows, offset := [ox * xw / xwOld, oy * yw / ywOld, 0] }
  | _ => none

/-- a sequence of pitch changes -/
def hexChangePitchSeq (s3 : Rat) : List Rat → G → Option G
  | [], g => some g
  | p :: ps, g => (hexChangePitch s3 p g).bind (hexChangePitchSeq s3 ps)

def cartChangePitchSeq : List (Rat × Rat) → G → Option G
  | [], g => some g
  | p :: ps, g => (cartChangePitch p.1 p.2 g).bind (cartChangePitchSeq ps)

/-! ### in-place mutation of a live grid (changePitch, offset setter, backUp / restoreBackup) -/

/-- the mutators of a live `StructuredGrid` that the property's round-trip clause must survive -/
inductive Mut where
  | hexPitch (s3 p : Rat)        -- HexGrid.changePitch
  | cartPitch (xw yw : Rat)      -- CartesianGrid.changePitch
  | setOffset (o : List Rat)     -- `grid.offset = ...`
  | backUp                       -- StructuredGrid.backUp (chains the previous backup)
  | restore                      -- StructuredGrid.restoreBackup
deriving Repr

/-- live grid + the chain of backups (`_backup = (unitSteps, bounds, offset, previous _backup)`) -/
structure GS where
  g : G
  backups : List (Steps × List (Option (List Rat)) × List Rat)

/-- one mutation; `none` = the call raises (e.g. `restoreBackup` without a backup: unpacking `None`) -/
def applyMut (gs : GS) : Mut → Option GS
  | .hexPitch s3 p => (hexChangePitch s3 p gs.g).map (fun g' => { gs with g := g' })
  | .cartPitch xw yw => (cartChangePitch xw yw gs.g).map (fun g' => { gs with g := g' })
  | .setOffset o => some { gs with g := { gs.g with offset := o } }
  | .backUp => some { gs with backups := (gs.g.steps, gs.g.bounds, gs.g.offset) :: gs.backups }
  | .restore =>
    match gs.backups with
    | [] => none
    | (st, bd, off) :: rest => some { g := { gs.g with steps := st, bounds := bd, offset := off }, backups := rest }

def applyMuts : GS → List Mut → Option GS
  | gs, [] => some gs
  | gs, m :: ms => (applyMut gs m).bind (fun gs' => applyMuts gs' ms)

/-! ### location labels: `Grid.getLabel` (grid.py) and `locatorLabelToIndices` (grids/__init__.py)

A label is a string over the alphabet {'-', '0'…'9', anything else}. -/

/-- one character of a label -/
inductive Sym where
  | dash
  | dig (d : Nat)
  | other
deriving DecidableEq, Repr

/-- decimal digits of `n`, least significant first (`fuel` > n suffices) -/
def natDigitsLE : Nat → Nat → List Nat
  | 0, _ => []
  | f + 1, n => if n < 10 then [n] else (n % 10) :: natDigitsLE f (n / 10)

/-- Python `str(n)` for n ≥ 0, as digit values, most significant first -/
def render (n : Nat) : List Nat := (natDigitsLE (n + 1) n).reverse

/-- zero-pad to width `w` (never truncates) -/
def pad0 (w : Nat) (ds : List Nat) : List Sym :=
  (List.replicate (w - ds.length) (Sym.dig 0)) ++ ds.map Sym.dig

/-- Python `f"{n:03d}"`: the sign counts towards the width of 3 -/
def fmt03 (n : Int) : List Sym :=
  if n < 0 then Sym.dash :: pad0 2 (render n.natAbs) else pad0 3 (render n.toNat)

/-- `Grid.getLabel(indices)`: `i, j = indices[:2]` (ValueError for fewer than two = `none`), the third index
only when there are exactly three -/
def getLabel (idx : List Int) : Option (List Sym) :=
  match idx with
  | [] => none
  | [_] => none
  | [i, j, k] => some (fmt03 i ++ Sym.dash :: fmt03 j ++ Sym.dash :: fmt03 k)
  | i :: j :: _ => some (fmt03 i ++ Sym.dash :: fmt03 j)

/-- scanner state of the label grammar `(-?\d+)(?:-(-?\d+))*`: at the start of a number (start of the label or
right after a separator), after a sign, or inside the digits of a number (sign, value so far) -/
inductive LState where
  | start
  | signed
  | num (neg : Bool) (v : Nat)
deriving DecidableEq, Repr

def signedVal (neg : Bool) (v : Nat) : Int := if neg then -(v : Int) else (v : Int)

/-- the numbers of a label: `re.fullmatch(r"(-?\d+)(?:-(-?\d+))*", label)` (no match = ValueError = `none`) followed by
`re.findall(r"(?:^|(?<=\d)-)(-?\d+)", label)` and `int` — on a label that matches the grammar the greedy digit runs
make `findall` return exactly the numbers of the grammar: a dash that opens the label or directly follows a separator
is a sign, a dash after a digit is a separator.  Domain of the tie: labels over digits and '-'. -/
def labelScan : List Sym → LState → Option (List Int)
  | [], .num neg v => some [signedVal neg v]
  | [], _ => none
  | Sym.dash :: r, .start => labelScan r .signed
  | Sym.dig d :: r, .start => labelScan r (.num false d)
  | Sym.dig d :: r, .signed => labelScan r (.num true d)
  | Sym.dash :: _, .signed => none
  | Sym.dig d :: r, .num neg v => labelScan r (.num neg (v * 10 + d))
  | Sym.dash :: r, .num neg v => (labelScan r .start).map (signedVal neg v :: ·)
  | Sym.other :: _, _ => none

def parseDigits (ds : List Nat) : Nat := ds.foldl (fun acc d => acc * 10 + d) 0

/-- `locatorLabelToIndices(label)` (as repaired by 9ee1acd): exactly two values get a trailing `None`; any other
count is returned as is -/
def labelToIndices (label : List Sym) : Option (List (Option Int)) :=
  match labelScan label .start with
  | none => none
  | some [a, b] => some [some a, some b, none]
  | some vals => some (vals.map some)

end ArmiVerif.Grid
