/-
Model of armi/reactor/grids/hexagonal.py + armi/utils/hexagon.py (index level).
Core Lean only (no Mathlib) so that the driver starts fast.

Each definition names the Python function it transcribes.  `Int` = Python int.
-/
namespace ArmiVerif.Hex

/-- `HexGrid.indicesToRingPos`: the (edge, ring, offset) triple of the if-ladder. -/
def ero (i j : Int) : Int × Int × Int :=
  if i > 0 ∧ j ≥ 0 then (0, i + j + 1, j)
  else if i ≤ 0 ∧ j > -i then (1, j + 1, -i)
  else if i < 0 ∧ j > 0 then (2, -i + 1, -j - i)
  else if i < 0 then (3, -i - j + 1, -j)
  else if i ≥ 0 ∧ j < -i then (4, -j + 1, i)
  else (5, i + 1, i + j)

/-- `HexGrid.indicesToRingPos(i, j)` -/
def toRingPos (i j : Int) : Int × Int :=
  let e := ero i j
  (e.2.1, 1 + e.1 * (e.2.1 - 1) + e.2.2)

/-- edge ladder of `_indicesAndEdgeFromRingAndPos` (ring already decremented) -/
def ijOfEdge (edge r offset : Int) : Option (Int × Int) :=
  if edge = 0 then some (r - offset, offset)
  else if edge = 1 then some (-offset, r)
  else if edge = 2 then some (-r, r - offset)
  else if edge = 3 then some (offset - r, -offset)
  else if edge = 4 then some (offset, -r)
  else if edge = 5 then some (r, offset - r)
  else none

/-- `HexGrid._indicesAndEdgeFromRingAndPos` / `getIndicesFromRingAndPos`;
`none` = ValueError.  Python `divmod` on ints is floor division; for the
positive divisor used here on the accepted domain it agrees with `Int.ediv/emod`
(`Int.fdiv`/`Int.fmod` are used so that negative rings also agree). -/
def fromRingPos (ring position : Int) : Option (Int × Int) :=
  let r := ring - 1
  let pos := position - 1
  if r = 0 then (if pos ≠ 0 then none else some (0, 0))
  else ijOfEdge (Int.fdiv pos r) r (Int.fmod pos r)

/-- `hexagon.numPositionsInRing` -/
def positionsInRing (ring : Int) : Int := if ring ≠ 1 then (ring - 1) * 6 else 1

/-- `hexagon.totalPositionsUpToRing` -/
def totalUpTo (r : Nat) : Nat := 1 + 3 * r * (r - 1)

/-- ceil(0.5*(1+sqrt x)) with the exact integer square root -/
def halfCeil (x : Nat) : Nat :=
  let s := Nat.sqrt x
  if s * s = x then (s + 2) / 2 else (s + 1) / 2 + 1

/-- `hexagon.numRingsToHoldNumCells`; the float `sqrt` is modelled by the exact
integer square root (tie: harness, exhaustive + boundaries). Python parses
`1 + 4 * (n - 1) // 3` as `1 + ((4*(n-1)) // 3)`. -/
def numRings (n : Nat) : Nat :=
  if n = 0 then 0 else halfCeil (1 + (4 * (n - 1)) / 3)

/-- `HexGrid.getNeighboringCellIndices` (i, j part) -/
def neighbours (i j : Int) : List (Int × Int) :=
  [(i + 1, j), (i, j + 1), (i - 1, j + 1), (i - 1, j), (i, j - 1), (i + 1, j - 1)]

/-- `HexGrid.getNeighboringCellIndices(i, j, k)`: the six in-plane neighbours, each at the same axial index -/
def neighbours3 (i j k : Int) : List (Int × Int × Int) :=
  [(i + 1, j, k), (i, j + 1, k), (i - 1, j + 1, k), (i - 1, j, k), (i, j - 1, k), (i + 1, j - 1, k)]

/-- Integer coefficients of a cell centre.
flats up:   x = a·(√3/2)·p, y = b·(p/2)   with (a, b) = (i, i + 2j)
corners up: x = a·(p/2),    y = b·(√3/2)·p with (a, b) = (i − j, i + j)
(transcribes `_getRawUnitSteps` + `getCoordinates` for a pure step grid). -/
def coef (cornersUp : Bool) (i j : Int) : Int × Int :=
  if cornersUp then (i - j, i + j) else (i, i + 2 * j)

/-- 4·|v|²/p² for a coefficient vector -/
def sq4 (cornersUp : Bool) (ab : Int × Int) : Int :=
  if cornersUp then ab.1 * ab.1 + 3 * ab.2 * ab.2 else 3 * ab.1 * ab.1 + ab.2 * ab.2

/-- 4·(u×v)/(p²·√3) -/
def cross4 (_cornersUp : Bool) (u v : Int × Int) : Int := u.1 * v.2 - u.2 * v.1
/-- 4·(u·v)/p² -/
def dot4 (cornersUp : Bool) (u v : Int × Int) : Int :=
  if cornersUp then u.1 * v.1 + 3 * u.2 * v.2 else 3 * u.1 * v.1 + u.2 * v.2

/-! ### C08: rotation and symmetry -/

/-- one 60° CCW step on indices -/
def rot1 (c : Int × Int) : Int × Int := (-c.2, c.1 + c.2)

/-- `HexGrid.rotateIndex`: `deque((i,j,-(i+j))).rotate(-k)`, take first two, negate if k odd.
deque.rotate(-k) moves element at index (m + k) mod 3 to index m. -/
def rotateIndex (k : Int) (c : Int × Int) : Int × Int :=
  let q := c.1; let r := c.2; let s := -(c.1 + c.2)
  let m := k % 3
  let (a, b) := if m = 0 then (q, r) else if m = 1 then (r, s) else (s, q)
  if k % 2 ≠ 0 then (-a, -b) else (a, b)

/-- `_getSymmetricIdenticalsThird` -/
def sym3 (c : Int × Int) : List (Int × Int) :=
  if c.1 = 0 ∧ c.2 = 0 then [] else [(-c.1 - c.2, c.1), (c.2, -c.1 - c.2)]

/-- `overlapsWhichSymmetryLine`: 0 = None, 1 = 0°, 2 = 60°, 3 = 120°, 4 = centre.
(constants.py: BOUNDARY_0_DEGREES=1, BOUNDARY_60_DEGREES=2, BOUNDARY_120_DEGREES=3, BOUNDARY_CENTER=4) -/
def lineOf (c : Int × Int) : Nat :=
  let i := c.1; let j := c.2
  if i = 0 ∧ j = 0 then 4
  else if i > 0 ∧ i = -2 * j then 1
  else if i = j ∧ i > 0 ∧ j > 0 then 2
  else if j = -2 * i ∧ j > 0 then 3
  else 0

/-- `isInFirstThird(locator, includeTopEdge)`; Python `//` and `%` on positive ring. -/
def inFirstThird (top : Bool) (c : Int × Int) : Bool :=
  let rp := toRingPos c.1 c.2
  let ring := rp.1; let pos := rp.2
  if ring = 1 then true else
  let maxPosTotal := positionsInRing ring
  let maxPos1 := ring + ring / 2 - 1
  let maxPos2 := maxPosTotal - ring / 2 + 1
  let maxPos1' := if ring % 2 ≠ 0 then (if top then maxPos1 + 1 else maxPos1) else maxPos1
  let maxPos2' := if ring % 2 ≠ 0 then maxPos2 else maxPos2 + 1
  decide (pos ≤ maxPos1' ∨ pos ≥ maxPos2')

/-- `hexagon.getIndexOfRotatedCell`; `none` = ValueError. Cell index is the running
count (1-based) over rings. -/
def rotatedCell (cell : Int) (orient : Int) : Option Int :=
  if orient < 0 ∨ orient > 5 then none
  else if cell > 1 then
    if orient = 0 then some cell else
    let ring : Int := numRings cell.toNat
    let tot : Int := totalUpTo ring.toNat
    let n := cell + (ring - 1) * orient
    if n > tot then some (n - (ring - 1) * 6) else some n
  else if cell = 1 then some cell
  else none

/-- running 1-based cell number of (ring,pos) -/
def cellNumber (ring pos : Int) : Int :=
  if ring ≤ 1 then pos else (totalUpTo (ring - 1).toNat : Int) + pos

/-- twice the rotation by +60° (counter-clockwise) acting on the integer coefficient vector of
`coef`: flats up  (a,b) ↦ ((a−b)/2, (3a+b)/2);  corners up (a,b) ↦ ((a−3b)/2, (a+b)/2).
(From x' = x/2 − (√3/2)y, y' = (√3/2)x + y/2 in the basis stated at `coef`.) -/
def R60x2 (cornersUp : Bool) (ab : Int × Int) : Int × Int :=
  if cornersUp then (ab.1 - 3 * ab.2, ab.1 + ab.2) else (ab.1 - ab.2, 3 * ab.1 + ab.2)

/-- `HexGrid.locatorInDomain(locator, symmetryOverlap)`; `third` = the grid's symmetry domain is
THIRD_CORE. -/
def hexInDomain (third : Bool) (overlap : Bool) (c : Int × Int) : Bool :=
  if third then inFirstThird overlap c else true

/-- `HexGrid.getSymmetricEquivalents`: 0 = full core, 1 = third core periodic, anything else
raises NotImplementedError (`none`). -/
def hexEquivalents (sym : Nat) (c : Int × Int) : Option (List (Int × Int)) :=
  if sym = 1 then some (sym3 c) else if sym = 0 then some [] else none

/-! ### `utils/iterables.py` pivot (Python slice semantics) -/

/-- `items[p:]` -/
def pyFrom {α} (l : List α) (p : Int) : List α :=
  if p ≥ 0 then l.drop p.toNat else l.drop ((l.length : Int) + p).toNat
/-- `items[:p]` -/
def pyTo {α} (l : List α) (p : Int) : List α :=
  if p ≥ 0 then l.take p.toNat else l.take ((l.length : Int) + p).toNat
/-- `iterables.pivot(items, position)` = `items[position:] + items[:position]` -/
def pivot {α} (l : List α) (p : Int) : List α := pyFrom l p ++ pyTo l p

/-! ### `HexBlock.rotate` (blocks.py)

Numbers of the form `re + ir·√3` with rational `re`, `ir` (closed under rotation by multiples
of 60°, so the model of the coordinate / displacement rotation is exact). -/
structure Q3 where
  re : Rat
  ir : Rat
deriving DecidableEq, Repr

namespace Q3
def ofRat (q : Rat) : Q3 := ⟨q, 0⟩
def add (a b : Q3) : Q3 := ⟨a.re + b.re, a.ir + b.ir⟩
def sub (a b : Q3) : Q3 := ⟨a.re - b.re, a.ir - b.ir⟩
def mul (a b : Q3) : Q3 := ⟨a.re * b.re + 3 * a.ir * b.ir, a.re * b.ir + a.ir * b.re⟩
/-- x/2 -/
def half (a : Q3) : Q3 := ⟨a.re / 2, a.ir / 2⟩
/-- x·√3/2 -/
def halfSqrt3 (a : Q3) : Q3 := ⟨3 * a.ir / 2, a.re / 2⟩
end Q3

/-- one rotation by +60°: (x, y) ↦ (x/2 − (√3/2)y, (√3/2)x + y/2) -/
def rot60xy (p : Q3 × Q3) : Q3 × Q3 :=
  (Q3.sub (Q3.half p.1) (Q3.halfSqrt3 p.2), Q3.add (Q3.halfSqrt3 p.1) (Q3.half p.2))

def iter {α} (f : α → α) : Nat → α → α
  | 0, a => a
  | n + 1, a => iter f n (f a)

/-- rotation by k·60° for k ≥ 0 (the rotation matrix of `_rotateChildLocations` /
`_rotateDisplacement` at `rad = k·π/3`) -/
def rotXY (k : Nat) (p : Q3 × Q3) : Q3 × Q3 := iter rot60xy k p

/-- a child's `spatialLocator`, in the order `_rotateChildLocations` tests the kinds -/
inductive ChildLoc where
  | multi (cells : List (Int × Int × Int))
  | coord (x y : Q3) (z : Rat)
  | index (i j k : Int)
  | none
deriving DecidableEq, Repr

/-- state of a HexBlock that `rotate` touches -/
structure Block where
  hasGrid : Bool
  children : List ChildLoc
  /-- `p.orientation[2]` (degrees) -/
  orientation : Rat
  /-- values of the CORNERS/EDGES parameters that are lists / arrays -/
  boundary : List (List Rat)
  /-- (`p.displacementX`, `p.displacementY`) when both are set -/
  disp : Option (Q3 × Q3)
deriving DecidableEq, Repr

def rotCell (rotNum : Int) (c : Int × Int × Int) : Int × Int × Int :=
  let r := rotateIndex rotNum (c.1, c.2.1)
  (r.1, r.2, c.2.2)

/-- `_rotateChildLocations` for one child -/
def rotChild (rotNum : Int) : ChildLoc → ChildLoc
  | .multi cells => .multi (cells.map (rotCell rotNum))
  | .coord x y z => let p := rotXY rotNum.toNat (x, y); .coord p.1 p.2 z
  | .index i j k => let r := rotCell rotNum (i, j, k); .index r.1 r.2.1 r.2.2
  | .none => .none

/-- `_rotateBoundaryParameters` for one list-valued parameter: only length-6 values move -/
def rotBoundary (rotNum : Int) (v : List Rat) : List Rat :=
  if v.length = 6 then pivot v (-rotNum) else v

/-- `HexBlock.rotate(rad)` with `rotNum = round((rad mod 2π)/60°)` given (0 ≤ rotNum ≤ 6) and
`rad` = rotNum·60° exactly. -/
def rotateBlock (rotNum : Int) (b : Block) : Block :=
  { hasGrid := b.hasGrid
    children := if b.hasGrid then b.children.map (rotChild rotNum) else b.children
    orientation := b.orientation + rotNum * 60
    boundary := b.boundary.map (rotBoundary rotNum)
    disp := b.disp.map (rotXY rotNum.toNat) }

/-! ### the same functions on THREE-index arguments `(i, j, k)`

Every symmetry function starts with `i, j = indices[:2]` (or reads `locator.indices` / `loc[:3]`): the axial index
never takes part in a symmetry decision, and `rotateIndex` hands it through. -/

/-- `_getSymmetricIdenticalsThird((i, j, k))`: `i, j = indices[:2]` -/
def sym3K (c : Int × Int × Int) : List (Int × Int) := sym3 (c.1, c.2.1)

/-- `HexGrid.getSymmetricEquivalents((i, j, k))` -/
def hexEquivalentsK (sym : Nat) (c : Int × Int × Int) : Option (List (Int × Int)) :=
  hexEquivalents sym (c.1, c.2.1)

/-- `overlapsWhichSymmetryLine((i, j, k))`: `i, j = indices[:2]` -/
def lineOfK (c : Int × Int × Int) : Nat := lineOf (c.1, c.2.1)

/-- `isInFirstThird(locator)`: `getRingPos(locator.indices)` uses i, j only -/
def inFirstThirdK (top : Bool) (c : Int × Int × Int) : Bool := inFirstThird top (c.1, c.2.1)

/-- `HexGrid.locatorInDomain(locator, symmetryOverlap)` for a locator at any k -/
def hexInDomainK (third overlap : Bool) (c : Int × Int × Int) : Bool := hexInDomain third overlap (c.1, c.2.1)

/-- `HexGrid.rotateIndex(loc, rotations)` on the whole location: `i, j, k = loc[:3]`, the new location is
`IndexLocation(newI, newJ, k, loc.grid)` -/
def rotateLoc (rotations : Int) (c : Int × Int × Int) : Int × Int × Int := rotCell rotations c

/-- centre of cell (i, j, k) of a 3-D hex grid (unit steps with a z row (0, 0, dz)): integer coefficients of x, y as
in `coef`, z = k·dz -/
def coef3 (cornersUp : Bool) (c : Int × Int × Int) : Int × Int × Int :=
  ((coef cornersUp c.1 c.2.1).1, (coef cornersUp c.1 c.2.1).2, c.2.2)

/-- `Assembly.rotate(rad)`: `for b in self: b.rotate(rad)` -/
def rotateAssembly (rotNum : Int) (blocks : List Block) : List Block := blocks.map (rotateBlock rotNum)

/-- the guard of `HexAssembly.rotate`: `remainder = rad % (math.pi / 3)` (a parameter: float modulo) is accepted
when `min(remainder, math.pi / 3 - remainder) <= 1e-12` -/
def hexAssemblyAccepts (third remainder tol : Rat) : Bool :=
  decide (min remainder (third - remainder) ≤ tol)

/-- `HexAssembly.rotate(rad)`; `none` = ValueError (nothing is rotated) -/
def rotateHexAssembly (third remainder tol : Rat) (rotNum : Int) (blocks : List Block) : Option (List Block) :=
  if hexAssemblyAccepts third remainder tol then some (rotateAssembly rotNum blocks) else none

end ArmiVerif.Hex
