/-
Model of the interface-stack construction rules of armi/operators/operator.py
(`getInterface`, `addInterface`, `removeInterface`, `createInterfaces`) and of
`interfaces.getActiveInterfaceInfo` (stable sort by the ORDER of the exposing module).  Core Lean only.
-/
namespace ArmiVerif.IfaceStack

/-- an interface object: `uid` = object identity, `name`, `function` (None or a function name),
`klass` = its class, and the three flags the stack keeps on it -/
structure SI where
  uid : Nat
  name : Nat
  function : Option Nat
  klass : Nat
  enabled : Bool
  bolForce : Bool
  reverseAtEOL : Bool
  deriving DecidableEq, Repr, Inhabited

/-- result of a `getInterface` call: the RuntimeError for several candidates, or the candidate / None -/
inductive Found
  | multiple
  | one (i : SI)
  | none
  deriving DecidableEq, Repr

/-- `Operator.getInterface(name=None, function=None)`:
candidates are those with `(name and i.name == name) or (function and i.function == function)` -/
def getInterface (s : List SI) (name function : Option Nat) : Found :=
  match s.filter (fun i => (name == some i.name) || (function.isSome && i.function == function)) with
  | [] => .none
  | [x] => .one x
  | _ => .multiple

/-- Python `list.insert(index, x)`: negative indices count from the end, out-of-range ones clamp -/
def pyIndex (n : Nat) (idx : Int) : Nat :=
  if idx < 0 then (idx + n).toNat else min idx.toNat n

def pyInsert (l : List SI) (idx : Int) (a : SI) : List SI :=
  l.take (pyIndex l.length idx) ++ a :: l.drop (pyIndex l.length idx)

inductive Res
  | raised                 -- RuntimeError
  | ignored                -- "Ignoring Interface … because existing interface … already more specific"
  | ok (s : List SI)
  deriving DecidableEq, Repr

/-- the flags as `addInterface` leaves them on the object: `if reverseAtEOL: i.reverseAtEOL = True`,
`if not enabled: i.enabled(False)`, `i.bolForce(bolForce)` -/
def withFlags (i : SI) (rev en bf : Bool) : SI :=
  { i with reverseAtEOL := rev || i.reverseAtEOL, enabled := en && i.enabled, bolForce := bf }

def place (base : List SI) (i : SI) (index : Option Int) : List SI :=
  match index with
  | none => base ++ [i]
  | some k => pyInsert base k i

/-- `Operator.addInterface(interface, index, reverseAtEOL, enabled, bolForce)`;
`sub a b` = `issubclass(a, b)` -/
def addInterface (sub : Nat → Nat → Bool) (s : List SI) (i : SI) (index : Option Int)
    (rev en bf : Bool) : Res :=
  match getInterface s (some i.name) none with
  | .multiple => .raised
  | .one _ => .raised            -- "An interface with name … is already attached."
  | .none =>
    match getInterface s none i.function with
    | .multiple => .raised
    | .none => .ok (place s (withFlags i rev en bf) index)
    | .one f =>
      if sub f.klass i.klass then .ignored
      else if sub i.klass f.klass then .ok (place (s.erase f) (withFlags i rev en bf) index)
      else .raised               -- "Multiple interfaces of the same function is not supported."

/-- `Operator.removeInterface(interfaceName=name)`: (stack, success) or the RuntimeError of getInterface -/
def removeByName (s : List SI) (name : Nat) : Option (List SI × Bool) :=
  match getInterface s (some name) none with
  | .multiple => none
  | .one x => some (s.erase x, true)
  | .none => some (s, false)

/-- `Operator.removeInterface(interface=obj)`: `obj in self.interfaces` is identity -/
def removeByUid (s : List SI) (uid : Nat) : List SI × Bool :=
  match s.find? (fun i => i.uid == uid) with
  | some x => (s.erase x, true)
  | none => (s, false)

/-- one `InterfaceInfo(order, interfaceCls, kwargs)` exposed by a plugin, with the object its
class constructs -/
structure Info where
  order : Rat
  iface : SI
  index : Option Int
  rev : Bool
  en : Bool
  bf : Bool

/-- insertion into a list sorted by order, before the first entry whose order is not smaller
(so that equal orders keep their registration order) -/
def insByOrder (a : Info) : List Info → List Info
  | [] => [a]
  | b :: l => if a.order ≤ b.order then a :: b :: l else b :: insByOrder a l

/-- `sorted(interfaceInfo, key=lambda x: x.order)` (stable) -/
def sortByOrder : List Info → List Info
  | [] => []
  | a :: l => insByOrder a (sortByOrder l)

/-- the loop of `createInterfaces`: `None` = an addInterface call raised -/
def addAll (sub : Nat → Nat → Bool) : List Info → List SI → Option (List SI)
  | [], s => some s
  | a :: rest, s =>
    match addInterface sub s a.iface a.index a.rev a.en a.bf with
    | .raised => none
    | .ignored => addAll sub rest s
    | .ok s' => addAll sub rest s'

/-- `Operator.createInterfaces()` on the current stack -/
def createInterfaces (sub : Nat → Nat → Bool) (infos : List Info) (s : List SI) : Option (List SI) :=
  addAll sub (sortByOrder infos) s

end ArmiVerif.IfaceStack
