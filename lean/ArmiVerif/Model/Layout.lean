/-
C04 — executable model of the database layout logic (core Lean only).

Transcribes `Layout._createLayout` (depth-first flattening; the harness passes children in the order
`sorted(list(comp))` returns — the sort key is a parameter), `indexInData`, grid de-duplication
(`_seenGridParams` / `gridParams` / `gridIndex`), `_packLocationsV3` / `_unpackLocationsV2`,
`Database._compose` (consume `numChildren` recursively) and `Layout.computeAncestors`.
-/
namespace ArmiVerif.Layout

/-- spatial locator as the layout stores it. Index components are integers (stored as float64 and cast
back with `int()`: exact below 2^53); coordinate components are opaque codes of the float64 values. -/
inductive Loc
  | none
  | coord (x y z : Int)
  | index (i j k : Int)
  | multi (l : List (Int × Int × Int))
  deriving DecidableEq, Repr, Inhabited

/-- what one layout row says about an object (besides its number of children) -/
structure Label where
  ty : Nat                 -- class (index into the list of class names)
  serial : Nat
  loc : Loc
  grid : Option Nat        -- key of (grid class, `reduce()`): equal keys ⇔ equal grid parameters
  deriving DecidableEq, Repr, Inhabited

mutual
inductive Tree | node (lab : Label) (kids : Forest)
inductive Forest | nil | cons (t : Tree) (f : Forest)
end

abbrev Row := Label × Nat

mutual
def Forest.length : Forest → Nat
  | .nil => 0
  | .cons _ f => f.length + 1
end

mutual
/-- `Layout._createLayout`: the object's row, then its children depth-first -/
def flattenT : Tree → List Row
  | .node lab kids => (lab, kids.length) :: flattenF kids
def flattenF : Forest → List Row
  | .nil => []
  | .cons t f => flattenT t ++ flattenF f
end

mutual
/-- `Database._compose`: take one row, then compose `numChildren` children from what follows
(`fuel` bounds the recursion; `compose` supplies enough) -/
def parseT : Nat → List Row → Option (Tree × List Row)
  | 0, _ => none
  | _ + 1, [] => none
  | fuel + 1, (lab, n) :: rest =>
    match parseF fuel n rest with
    | none => none
    | some (kids, rest') => some (.node lab kids, rest')
def parseF : Nat → Nat → List Row → Option (Forest × List Row)
  | 0, _, _ => none
  | _ + 1, 0, rows => some (.nil, rows)
  | fuel + 1, n + 1, rows =>
    match parseT fuel rows with
    | none => none
    | some (t, r1) =>
      match parseF fuel n r1 with
      | none => none
      | some (f, r2) => some (.cons t f, r2)
end

/-- rebuild the tree from the rows; `none` when the rows are not a complete layout -/
def compose (rows : List Row) : Option Tree :=
  match parseT (2 * rows.length + 2) rows with
  | some (t, []) => some t
  | _ => none

/-- `indexInData`: how many earlier rows have the same class -/
def indexInDataGo (seen : List Nat) : List Nat → List Nat
  | [] => []
  | t :: r => seen.count t :: indexInDataGo (t :: seen) r

def indexInData (tys : List Nat) : List Nat := indexInDataGo [] tys

/-- grid de-duplication: distinct keys in first-seen order -/
def gridTable : List (Option Nat) → List Nat → List Nat
  | [], acc => acc
  | none :: r, acc => gridTable r acc
  | some g :: r, acc => if acc.contains g then gridTable r acc else gridTable r (acc ++ [g])

def idxOf (l : List Nat) (g : Nat) : Option Nat :=
  match l with
  | [] => none
  | h :: t => if h = g then some 0 else (idxOf t g).map (· + 1)

/-- `gridIndex` column: position of the object's grid parameters in the table, `none` without grid -/
def gridIndex (keys : List (Option Nat)) : List (Option Nat) :=
  let tab := gridTable keys []
  keys.map (fun k => k.bind (idxOf tab))

/-! ## locations -/

inductive Lbl | N | C | I | M (n : Nat)
  deriving DecidableEq, Repr, Inhabited

/-- `_packLocationsV3` -/
def packLocs : List Loc → List Lbl × List (Int × Int × Int)
  | [] => ([], [])
  | l :: r =>
    let (ls, ds) := packLocs r
    match l with
    | .none => (.N :: ls, (0, 0, 0) :: ds)
    | .coord x y z => (.C :: ls, (x, y, z) :: ds)
    | .index i j k => (.I :: ls, (i, j, k) :: ds)
    | .multi m => (.M m.length :: ls, m ++ ds)

/-- `_unpackLocationsV2`; `none` = StopIteration (data exhausted) -/
def unpackLocs : List Lbl → List (Int × Int × Int) → Option (List Loc)
  | [], _ => some []
  | .N :: ls, _ :: ds => (unpackLocs ls ds).map (Loc.none :: ·)
  | .C :: ls, (x, y, z) :: ds => (unpackLocs ls ds).map (Loc.coord x y z :: ·)
  | .I :: ls, (i, j, k) :: ds => (unpackLocs ls ds).map (Loc.index i j k :: ·)
  | .M n :: ls, ds => if n ≤ ds.length then (unpackLocs ls (ds.drop n)).map (Loc.multi (ds.take n) :: ·) else none
  | _ :: _, [] => none

/-! ## child order -/

/-- `ArmiObject.__lt__`: compare `tuple(reversed(spatialLocator.getCompleteIndices()))`, i.e. (k, j, i)
lexicographically; a CoordinateLocation reports complete indices (0, 0, 0). (Components override `__lt__` with their
bounding-circle order; objects without locator / multi-index locators cannot be compared — parameters.) -/
def locKey : Loc → Int × Int × Int
  | .index i j k => (k, j, i)
  | _ => (0, 0, 0)

def lexLt (a b : Int × Int × Int) : Bool :=
  decide (a.1 < b.1) || (decide (a.1 = b.1) && (decide (a.2.1 < b.2.1) || (decide (a.2.1 = b.2.1) && decide (a.2.2 < b.2.2))))

def armiLt (a b : Label) : Bool := lexLt (locKey a.loc) (locKey b.loc)

/-- stable insertion sort of positions by key: the order `sorted(children)` puts the children in -/
def insIdx (keys : List (Int × Int × Int)) (x : Nat) : List Nat → List Nat
  | [] => [x]
  | y :: r => if lexLt (keys.getD y (0, 0, 0)) (keys.getD x (0, 0, 0)) then y :: insIdx keys x r else x :: y :: r

def sortIdx (keys : List (Int × Int × Int)) : List Nat :=
  (List.range keys.length).foldr (insIdx keys) []

/-- `Layout.computeAncestors(serialNum, numChildren, depth=1)`: the parent's serial number of every row -/
def ancestorsGo : List (Nat × Nat) → List (Nat × Nat) → List (Option Nat)
  | [], _ => []
  | (sn, nc) :: rest, stack =>
    -- stack: (serial, remaining children) of the open ancestors, innermost first
    let parent := stack.head?.map (·.1)
    let stack1 := match stack with
      | [] => []
      | (s, c) :: t => (s, c - 1) :: t
    let stack2 := if nc > 0 then (sn, nc) :: stack1 else stack1
    let stack3 := stack2.dropWhile (fun p => p.2 = 0)
    parent :: ancestorsGo rest stack3

def ancestors (rows : List (Nat × Nat)) : List (Option Nat) := ancestorsGo rows []

end ArmiVerif.Layout
