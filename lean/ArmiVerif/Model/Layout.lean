/-
C04 — executable model of the database layout logic (core Lean only).

Transcribes `Layout._createLayout` (depth-first flattening; the harness passes children in the order
`sorted(list(comp))` returns — the sort key is a parameter), `indexInData`, grid de-duplication
(`_seenGridParams` / `gridParams` / `gridIndex`), `_packLocationsV3` / `_unpackLocationsV2`,
`Database._compose` (consume `numChildren` recursively), `Layout.computeAncestors`, the columns `Layout.writeToDB`
stores and `_readLayout`/`_initComps` read (`Cols`), `Component.__lt__`, `getH5GroupName`, one HDF5 file as a map from
group name to statepoint (`Database.writeToDB` into an existing / new group, `Database.load`), and the order in which
`Database.load` assigns parameters (`_initComps` → `_readParams` → `_assignBlueprintsParams`).
-/
namespace ArmiVerif.Layout

/-- spatial locator as the layout stores it. Index components are integers (stored as float64 and cast
back with `int()`: exact below 2^53); coordinate components are opaque codes of the float64 values. -/
inductive Loc
  | none
  | coord (x y z : Int)
  | index (i j k : Int)
  | multi (l : List (Int × Int × Int))
  deriving DecidableEq, Repr, Inhabited

/-- what one layout row says about an object (besides its number of children) -/
structure Label where
  ty : Nat                 -- class (index into the list of class names)
  serial : Nat
  loc : Loc
  grid : Option Nat        -- key of (grid class, `reduce()`): equal keys ⇔ equal grid parameters
  deriving DecidableEq, Repr, Inhabited

mutual
inductive Tree | node (lab : Label) (kids : Forest)
inductive Forest | nil | cons (t : Tree) (f : Forest)
end

abbrev Row := Label × Nat

mutual
def Forest.length : Forest → Nat
  | .nil => 0
  | .cons _ f => f.length + 1
end

mutual
/-- `Layout._createLayout`: the object's row, then its children depth-first -/
def flattenT : Tree → List Row
  | .node lab kids => (lab, kids.length) :: flattenF kids
def flattenF : Forest → List Row
  | .nil => []
  | .cons t f => flattenT t ++ flattenF f
end

mutual
/-- `Database._compose`: take one row, then compose `numChildren` children from what follows
(`fuel` bounds the recursion; `compose` supplies enough) -/
def parseT : Nat → List Row → Option (Tree × List Row)
  | 0, _ => none
  | _ + 1, [] => none
  | fuel + 1, (lab, n) :: rest =>
    match parseF fuel n rest with
    | none => none
    | some (kids, rest') => some (.node lab kids, rest')
def parseF : Nat → Nat → List Row → Option (Forest × List Row)
  | 0, _, _ => none
  | _ + 1, 0, rows => some (.nil, rows)
  | fuel + 1, n + 1, rows =>
    match parseT fuel rows with
    | none => none
    | some (t, r1) =>
      match parseF fuel n r1 with
      | none => none
      | some (f, r2) => some (.cons t f, r2)
end

/-- rebuild the tree from the rows; `none` when the rows are not a complete layout -/
def compose (rows : List Row) : Option Tree :=
  match parseT (2 * rows.length + 2) rows with
  | some (t, []) => some t
  | _ => none

/-- `indexInData`: how many earlier rows have the same class -/
def indexInDataGo (seen : List Nat) : List Nat → List Nat
  | [] => []
  | t :: r => seen.count t :: indexInDataGo (t :: seen) r

def indexInData (tys : List Nat) : List Nat := indexInDataGo [] tys

/-- grid de-duplication: distinct keys in first-seen order -/
def gridTable : List (Option Nat) → List Nat → List Nat
  | [], acc => acc
  | none :: r, acc => gridTable r acc
  | some g :: r, acc => if acc.contains g then gridTable r acc else gridTable r (acc ++ [g])

def idxOf (l : List Nat) (g : Nat) : Option Nat :=
  match l with
  | [] => none
  | h :: t => if h = g then some 0 else (idxOf t g).map (· + 1)

/-- `gridIndex` column: position of the object's grid parameters in the table, `none` without grid -/
def gridIndex (keys : List (Option Nat)) : List (Option Nat) :=
  let tab := gridTable keys []
  keys.map (fun k => k.bind (idxOf tab))

/-! ## locations -/

inductive Lbl | N | C | I | M (n : Nat)
  deriving DecidableEq, Repr, Inhabited

/-- `_packLocationsV3` -/
def packLocs : List Loc → List Lbl × List (Int × Int × Int)
  | [] => ([], [])
  | l :: r =>
    let (ls, ds) := packLocs r
    match l with
    | .none => (.N :: ls, (0, 0, 0) :: ds)
    | .coord x y z => (.C :: ls, (x, y, z) :: ds)
    | .index i j k => (.I :: ls, (i, j, k) :: ds)
    | .multi m => (.M m.length :: ls, m ++ ds)

/-- `next(locsIter)` n times: the n triples and what is left; `none` = StopIteration -/
def takeExact {α : Type} : Nat → List α → Option (List α × List α)
  | 0, ds => some ([], ds)
  | _ + 1, [] => none
  | n + 1, d :: ds => (takeExact n ds).map (fun p => (d :: p.1, p.2))

/-- `_unpackLocationsV2`; `none` = StopIteration (data exhausted) -/
def unpackLocs : List Lbl → List (Int × Int × Int) → Option (List Loc)
  | [], _ => some []
  | .N :: ls, _ :: ds => (unpackLocs ls ds).map (Loc.none :: ·)
  | .C :: ls, (x, y, z) :: ds => (unpackLocs ls ds).map (Loc.coord x y z :: ·)
  | .I :: ls, (i, j, k) :: ds => (unpackLocs ls ds).map (Loc.index i j k :: ·)
  | .M n :: ls, ds => match takeExact n ds with
    | none => none
    | some (m, rest) => (unpackLocs ls rest).map (Loc.multi m :: ·)
  | _ :: _, [] => none

/-! ## child order -/

/-- `ArmiObject.__lt__`: compare `tuple(reversed(spatialLocator.getCompleteIndices()))`, i.e. (k, j, i)
lexicographically; a CoordinateLocation reports complete indices (0, 0, 0). (Components override `__lt__` with their
bounding-circle order; objects without locator / multi-index locators cannot be compared — parameters.) -/
def locKey : Loc → Int × Int × Int
  | .index i j k => (k, j, i)
  | _ => (0, 0, 0)

def lexLt (a b : Int × Int × Int) : Bool :=
  decide (a.1 < b.1) || (decide (a.1 = b.1) && (decide (a.2.1 < b.2.1) || (decide (a.2.1 = b.2.1) && decide (a.2.2 < b.2.2))))

def armiLt (a b : Label) : Bool := lexLt (locKey a.loc) (locKey b.loc)

/-- stable insertion sort of positions by key: the order `sorted(children)` puts the children in -/
def insIdx (keys : List (Int × Int × Int)) (x : Nat) : List Nat → List Nat
  | [] => [x]
  | y :: r => if lexLt (keys.getD y (0, 0, 0)) (keys.getD x (0, 0, 0)) then y :: insIdx keys x r else x :: y :: r

def sortIdx (keys : List (Int × Int × Int)) : List Nat :=
  (List.range keys.length).foldr (insIdx keys) []

/-- `Layout.computeAncestors(serialNum, numChildren, depth=1)`: the parent's serial number of every row -/
def ancestorsGo : List (Nat × Nat) → List (Nat × Nat) → List (Option Nat)
  | [], _ => []
  | (sn, nc) :: rest, stack =>
    -- stack: (serial, remaining children) of the open ancestors, innermost first
    let parent := stack.head?.map (·.1)
    let stack1 := match stack with
      | [] => []
      | (s, c) :: t => (s, c - 1) :: t
    let stack2 := if nc > 0 then (sn, nc) :: stack1 else stack1
    let stack3 := stack2.dropWhile (fun p => p.2 = 0)
    parent :: ancestorsGo rest stack3

def ancestors (rows : List (Nat × Nat)) : List (Option Nat) := ancestorsGo rows []

/-! ## one database file holding several statepoints -/

/-- `"{:0>2}".format(n)`: at least two digits -/
def pad2 (n : Nat) : String := if n < 10 then "0" ++ toString n else toString n

/-- `getH5GroupName(cycle, timeNode, statePointName)`: `"c{:0>2}n{:0>2}{}".format(cycle, timeNode, statePointName or "")` -/
def groupName (cycle node : Nat) (label : String) : String := "c" ++ pad2 cycle ++ "n" ++ pad2 node ++ label

/-- layout-borne per-row data that are not part of the tree shape: `layout/material` (class-name key) and
`layout/temperatures` (codes of Tinput, Thot) -/
abbrev Extra := Nat × Int × Int

/-- what one statepoint group `cXXnYY[label]` holds: the layout datasets (rows incl. locators and grid keys, extras)
and the per-class parameter groups (`P`: whatever `_writeParams` produced, C05's subject) -/
structure Snap (P : Type) where
  rows : List Row
  extras : List Extra
  params : P

/-- the HDF5 file as a map from group name to statepoint (insertion order kept) -/
abbrev File (P : Type) := List (String × Snap P)

/-- `h5db[name]` (`none` = KeyError) -/
def File.get {P : Type} (f : File P) (name : String) : Option (Snap P) :=
  match f with
  | [] => none
  | (k, s) :: r => if k = name then some s else File.get r name

/-- `Database.writeToDB` at group `name`: `getH5Group` creates the group when it is absent and everything is written;
when the group is there already `Layout.writeToDB` returns early ("already written the layout") and `_writeParams`
raises ValueError at its first dataset ("This time node should have been empty") — `none`, the file is unchanged. -/
def File.write {P : Type} (f : File P) (name : String) (s : Snap P) : Option (File P) :=
  match f.get name with
  | some _ => none
  | none => some (f ++ [(name, s)])

/-- a history of writes; a refused write ends the history (`none`) -/
def File.writeAll {P : Type} (f : File P) : List (String × Snap P) → Option (File P)
  | [] => some f
  | (k, s) :: r => match f.write k s with
    | none => none
    | some f' => File.writeAll f' r

/-- a history in which refused writes are skipped (what a run that catches the ValueError is left with) -/
def File.writeSkip {P : Type} (f : File P) : List (String × Snap P) → File P
  | [] => f
  | (k, s) :: r => match f.write k s with
    | none => File.writeSkip f r
    | some f' => File.writeSkip f' r

/-- `del db[(cycle, node, label)]` = `del h5db[name]`: the group goes, nothing else; `none` = KeyError (no such group) -/
def File.delete {P : Type} (f : File P) (name : String) : Option (File P) :=
  match f.get name with
  | none => none
  | some _ => some (f.filter (fun p => p.1 ≠ name))

/-- what a program does to one open database file -/
inductive FOp (P : Type)
  | write (name : String) (s : Snap P)
  | delete (name : String)

/-- one operation; a refused one (occupied address: ValueError; absent group: KeyError) leaves the file as it was -/
def File.step {P : Type} (f : File P) : FOp P → File P
  | .write k s => (f.write k s).getD f
  | .delete k => (f.delete k).getD f

/-- any interleaving of writes, deletes and re-writes (loads do not change the file: `Database.load` only reads) -/
def File.run {P : Type} (f : File P) (ops : List (FOp P)) : File P := ops.foldl File.step f

/-! ## parameters on load: `_initComps` → `_readParams` → `_assignBlueprintsParams` -/

/-- key of the `groupedComps` dictionary: `_initComps` files every object under its class NAME (the string stored in
`layout/type`); `_assignBlueprintsParams` asks for the class OBJECTS `Block` and `Assembly` -/
inductive GKey
  | name (ty : Nat)
  | cls (c : Nat)
  deriving DecidableEq, Repr

/-- `groupedComps[compType].append(comp)` over the rows, in layout order (positions of the objects) -/
def groupAppend (g : List (GKey × List Nat)) (k : GKey) (i : Nat) : List (GKey × List Nat) :=
  match g with
  | [] => [(k, [i])]
  | (k', l) :: r => if k' = k then (k', l ++ [i]) :: r else (k', l) :: groupAppend r k i

def initGroupsGo (g : List (GKey × List Nat)) (i : Nat) : List Nat → List (GKey × List Nat)
  | [] => g
  | t :: r => initGroupsGo (groupAppend g (.name t) i) (i + 1) r

/-- the `groupedComps` that `Layout._initComps` returns -/
def initGroups (tys : List Nat) : List (GKey × List Nat) := initGroupsGo [] 0 tys

/-- `groupedComps[key]` on a `defaultdict(list)`: a missing key gives the empty list -/
def lookupD (g : List (GKey × List Nat)) (k : GKey) : List Nat :=
  match g with
  | [] => []
  | (k', l) :: r => if k' = k then l else lookupD r k

/-- `_assignBlueprintsParams` for one parameter: for compType in (Block, Assembly): for comp in groupedComps[compType]:
`val = getattr(design, pName)`; `if val is not None: comp.p[pName] = val` — `vals[i]` is object i's value, `bp i` its
design's value -/
def assignBlueprints {V : Type} (g : List (GKey × List Nat)) (classes : List Nat) (bp : Nat → Option V) (vals : List V) : List V :=
  classes.foldl (fun vs c => (lookupD g (.cls c)).foldl (fun vs i => match bp i with
    | some b => vs.set i b
    | none => vs) vs) vals

/-- one object's value of one parameter through `Database.load`: the constructor default, overwritten by
`_readParams` when the class group holds a dataset for the parameter -/
def readParam {V : Type} (dflt : V) (stored : Option V) : V := stored.getD dflt

/-! ## the layout as the COLUMNS the file holds -/

/-- the datasets of one `layout` group -/
structure Cols where
  ty : List Nat
  serial : List Nat
  nKids : List Nat
  idx : List Nat
  gridIndex : List (Option Nat)
  gridTab : List Nat
  lbls : List Lbl
  locData : List (Int × Int × Int)
  deriving Repr, DecidableEq

/-- `Layout.__init__(comp=...)` + `Layout.writeToDB`: the columns written for a list of rows -/
def colsOfRows (rows : List Row) : Cols :=
  let labs := rows.map (·.1)
  let keys := labs.map (·.grid)
  let pk := packLocs (labs.map (·.loc))
  { ty := labs.map (·.ty), serial := labs.map (·.serial), nKids := rows.map (·.2), idx := indexInData (labs.map (·.ty)),
    gridIndex := gridIndex keys, gridTab := gridTable keys [], lbls := pk.1, locData := pk.2 }

/-- `zip` of the columns back into rows (`_initComps` zips type, serialNum, numChildren, location, gridIndex;
`zip` stops at the shortest column) -/
def zipRows : List Nat → List Nat → List Nat → List Loc → List (Option Nat) → List Row
  | t :: ts, s :: ss, n :: ns, l :: ls, g :: gs => (⟨t, s, l, g⟩, n) :: zipRows ts ss ns ls gs
  | _, _, _, _, _ => []

/-- `self.gridParams[gridIndex]` for every row; `none` = IndexError -/
def lookupGrids (tab : List Nat) : List (Option Nat) → Option (List (Option Nat))
  | [] => some []
  | none :: r => (lookupGrids tab r).map (none :: ·)
  | some i :: r => match tab[i]? with
    | none => none
    | some g => (lookupGrids tab r).map (some g :: ·)

/-- `Layout._readLayout` + `_initComps`: unpack the locations, give every object the grid parameters its `gridIndex`
points at; `none` = exception (location data exhausted, grid index outside the table) -/
def rowsOfCols (c : Cols) : Option (List Row) :=
  match unpackLocs c.lbls c.locData with
  | none => none
  | some locs =>
    match lookupGrids c.gridTab c.gridIndex with
    | none => none
    | some grids => some (zipRows c.ty c.serial c.nKids locs grids)

/-! ## `Component.__lt__` -/

/-- `Component.__lt__`: bounding-circle outer diameter, ties broken by the inner diameter (cold dimensions; the two
getters are parameters, their values enter as the exact rationals of the doubles) -/
def compLt (a b : Rat × Rat) : Bool := if a.1 = b.1 then decide (a.2 < b.2) else decide (a.1 < b.1)

def insBy (lt : Nat → Nat → Bool) (x : Nat) : List Nat → List Nat
  | [] => [x]
  | y :: r => if lt y x then y :: insBy lt x r else x :: y :: r

/-- the order `sorted(components)` puts the components of a block in (stable), as positions -/
def sortIdxComp (keys : List (Rat × Rat)) : List Nat :=
  (List.range keys.length).foldr (insBy (fun y x => compLt (keys.getD y (0, 0)) (keys.getD x (0, 0)))) []

end ArmiVerif.Layout
