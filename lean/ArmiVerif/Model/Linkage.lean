/-
C12 — executable model (core Lean only) of
  * `areAxiallyLinked`                               (assemblyAxialLinkage.py)
  * `AssemblyAxialLinkage._findComponentLinkedTo` / `_getLinkedComponents` for two adjacent blocks
  * `ExpansionData._setTargetComponents` / `determineTargetComponent` / `_isFuelLocked` (expansionData.py)
The geometry of a component enters as the values the code reads: class of the shape (a tag),
`getDimension("mult")`, `getCircleInnerDiameter(cold=True)`, `getBoundingCircleOuterDiameter(cold=True)`,
`containsSolidMaterial()`, and whether it is an `UnshapedComponent`.
-/
namespace ArmiVerif.Linkage

structure Geo where
  solid    : Bool     -- containsSolidMaterial()
  unshaped : Bool     -- isinstance(c, UnshapedComponent)
  ty       : Nat      -- tag of type(c)
  mult     : Rat
  idc      : Rat      -- getCircleInnerDiameter(cold=True)
  odc      : Rat      -- getBoundingCircleOuterDiameter(cold=True)
  deriving DecidableEq, Repr

def rmin (a b : Rat) : Rat := if a ≤ b then a else b
def rmax (a b : Rat) : Rat := if a ≤ b then b else a

/-- `areAxiallyLinked(componentA, componentB)` -/
def linked (a b : Geo) : Bool :=
  if (a.solid && b.solid) && (a.ty == b.ty) && decide (a.mult = b.mult) then
    if a.unshaped then false
    else decide (rmax a.idc b.idc < rmin a.odc b.odc)
  else false

/-- indices of the solid components of `other` that are linked to `c`
(`filter(areLinked, iterSolidComponents(otherBlock))`) -/
def candidates (c : Geo) (other : List Geo) : List Nat :=
  (List.range other.length).filter (fun j => match other[j]? with
    | some d => linked c d
    | none => false)

/-- `_findComponentLinkedTo(c, otherBlock)`; `none` = RuntimeError (multiple linkages) -/
def findLinked (c : Geo) (other : Option (List Geo)) : Option (Option Nat) :=
  match other with
  | none => some none
  | some o =>
    match candidates c o with
    | [] => some none
    | [j] => some (some j)
    | _ => none

/-- `_getLinkedComponents` for every solid component of block `mid` with the solids of the blocks below and
above: list of (lower, upper); `none` = RuntimeError -/
def linkBlock (below : Option (List Geo)) (mid : List Geo) (above : Option (List Geo)) :
    Option (List (Option Nat × Option Nat)) :=
  mid.mapM (fun c => do
    let lo ← findLinked c below
    let up ← findLinked c above
    pure (lo, up))

/-- the linkage of a whole assembly (`_determineAxialLinkage`), bottom-up -/
def linkAssembly : Option (List Geo) → List (List Geo) → Option (List (List (Option Nat × Option Nat)))
  | _, [] => some []
  | below, b :: rest => do
    let l ← linkBlock below b rest.head?
    let ls ← linkAssembly (some b) rest
    pure (l :: ls)

/-! ### target components -/

/-- what target selection reads from a component (ALL children of the block, fluids included) -/
structure TComp where
  flags : Nat        -- c.p.flags as a bit set
  solid : Bool       -- not isinstance(c.material, Fluid)
  deriving DecidableEq, Repr

/-- `c.hasFlags(f)` (non-exact): every bit of `f` is set -/
def hasFlags (flags f : Nat) : Bool := (flags &&& f) == f

/-- `c.p.flags in b.p.flags` = `bool(other & self)` -/
def flagsIn (c b : Nat) : Bool := (c &&& b) != 0

def idxWhere (cs : List TComp) (p : TComp → Bool) : List Nat :=
  (List.range cs.length).filter (fun i => match cs[i]? with
    | some c => p c
    | none => false)

/-- first non-empty `getChildrenWithFlags(targetFlag)` over TARGET_FLAGS_IN_PREFERRED_ORDER -/
def firstPreferred (cs : List TComp) : List Nat → List Nat
  | [] => []
  | f :: fs => match idxWhere cs (fun c => hasFlags c.flags f) with
    | [] => firstPreferred cs fs
    | l => l

/-- the only element of a one-element list -/
def single? : List Nat → Option Nat
  | [i] => some i
  | _ => none

/-- the candidates by flags: the flag of interest, or the first preferred flag carried by a child, or the
children sharing a flag with the block -/
def cand0 (preferred : List Nat) (bflags : Nat) (cs : List TComp) (flagOfInterest : Option Nat) : List Nat :=
  match flagOfInterest with
  | none => (match firstPreferred cs preferred with
    | [] => idxWhere cs (fun c => flagsIn c.flags bflags)
    | l => l)
  | some f => idxWhere cs (fun c => hasFlags c.flags f)

/-- ... and "if only 1 solid, be smart enough to snag it" when there is none -/
def candList (preferred : List Nat) (bflags : Nat) (cs : List TComp) (flagOfInterest : Option Nat) : List Nat :=
  match cand0 preferred bflags cs flagOfInterest with
  | [] => (single? (idxWhere cs (fun c => c.solid))).toList
  | l => l

/-- `determineTargetComponent(b, flagOfInterest)`; `none` = RuntimeError (none / several candidates) -/
def determineTarget (preferred : List Nat) (bflags : Nat) (cs : List TComp) (flagOfInterest : Option Nat) : Option Nat :=
  single? (candList preferred bflags cs flagOfInterest)

inductive TargetRes where
  | noTarget                -- dummy block: nothing is set
  | target (i : Nat)        -- index among all children of the block
  | error                   -- RuntimeError / ValueError / AttributeError
  deriving DecidableEq, Repr

structure TBlock where
  flags : Nat
  explicit : Option (Option Nat)   -- b.p.axialExpTargetComponent: not set / name not found (or ambiguous) / child index
  comps : List TComp
  deriving Repr

structure FlagSet where     -- the Flags constants the code tests
  plenum : Nat
  aclp : Nat
  dummy : Nat
  fuel : Nat
  clad : Nat
  preferred : List Nat

/-- one iteration of `_setTargetComponents(setFuel)` -/
def setTarget (F : FlagSet) (setFuel : Bool) (b : TBlock) : TargetRes :=
  match b.explicit with
  | some (some i) => .target i
  | some none => .error
  | none =>
    if hasFlags b.flags F.plenum || hasFlags b.flags F.aclp then
      (match determineTarget F.preferred b.flags b.comps (some F.clad) with
       | some i => .target i
       | none => .error)
    else if hasFlags b.flags F.dummy then .noTarget
    else if setFuel && hasFlags b.flags F.fuel then
      (match single? (idxWhere b.comps (fun c => hasFlags c.flags F.fuel)) with   -- b.getComponent(Flags.FUEL)
       | some i => .target i
       | none => .error)
    else
      (match determineTarget F.preferred b.flags b.comps none with
       | some i => .target i
       | none => .error)

/-- `ExpansionData._setTargetComponents` for a whole assembly: the target of every block, computed by a NEW
`ExpansionData` from the blocks as they are now (the instance starts with an empty
`_componentDeterminesBlockHeight`; nothing else enters) -/
def setTargets (F : FlagSet) (setFuel : Bool) (a : List TBlock) : List TargetRes := a.map (setTarget F setFuel)

/-- `Block.setAxialExpTargetComp(c)` / assignment of `b.p.axialExpTargetComponent`: child `i` is designated -/
def designate (b : TBlock) (i : Nat) : TBlock := { b with explicit := some (some i) }

/-- `isTargetComponent` on a new `ExpansionData`: child `i` of block `ib` is a target iff it is the block's choice -/
def isTarget (F : FlagSet) (setFuel : Bool) (a : List TBlock) (ib i : Nat) : Bool :=
  match (setTargets F setFuel a)[ib]? with
  | some (.target j) => i == j
  | _ => false

/-! ### the linkage hypothesis of target-mass conservation, on the modelled linkage -/

/-- index (among the lower block's solids) of the lower link of solid `ic` of block `ib`; `none` when there is
no link (first block, no candidate) — and also when the construction would raise -/
def modelLower (geo : List (List Geo)) (ib ic : Nat) : Option Nat :=
  if ib = 0 then none else
  match geo[ib - 1]?, geo[ib]? with
  | some lo, some mid => (match mid[ic]? with
    | some c => (findLinked c (some lo)).getD none
    | none => none)
  | _, _ => none

/-- block `i`'s target (solid index `targets i`) sits on the block below: first block, or no lower link, or the
lower link is the lower block's target (and that is one of its `shape[i-1]` solids) -/
def alignedB (geo : List (List Geo)) (targets : Nat → Option Nat) (shape : List Nat) (i : Nat) : Bool :=
  match targets i with
  | none => false
  | some k =>
    i == 0 || (match modelLower geo i k with
      | none => true
      | some j => targets (i - 1) == some j && decide (j < shape.getD (i - 1) 0))

end ArmiVerif.Linkage
