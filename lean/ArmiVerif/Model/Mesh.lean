/-
C11 — executable model (core Lean only, exact `Rat`) of armi's axial re-meshing:

  * `blocksBetween`      = `Assembly.getBlocksBetweenElevations`  (assemblies.py)
  * `blockAtElevation`   = `Assembly.getBlockAtElevation`         (assemblies.py)
  * `setND`              = `setNumberDensitiesFromOverlaps`       (uniformMesh.py), one nuclide
  * `mapParam`/`remap`   = `UniformMeshGeometryConverter.setAssemblyStateFromOverlaps`
                           (integrated / averaged / peak location kinds, `None` values skipped)
  * `filterMesh`         = `UniformMeshGenerator._filterMesh`
  * `average1D`          = `mathematics.average1DWithinTolerance`
  * `resample`           = `mathematics.resampleStepwise` (list input, Python slice semantics)

The model transcribes what the code does, statement by statement; where the real code raises,
the model returns `none` / an error constructor.
-/
namespace ArmiVerif.Mesh

/-- Python `min(a, b)` / `max(a, b)` / `abs` on exact rationals -/
def rmin (a b : Rat) : Rat := if a ≤ b then a else b
def rmax (a b : Rat) : Rat := if a ≤ b then b else a
def rabs (a : Rat) : Rat := if 0 ≤ a then a else -a

/-- `EPS = 1e-10` of getBlocksBetweenElevations; the height check uses `1e-5` -/
def EPS : Rat := 1 / 10000000000
def TOL : Rat := 1 / 100000

/-- a block as the re-meshing code sees it: `p.zbottom`, `p.ztop`, `getHeight()` and a payload -/
structure Blk (α : Type) where
  zb : Rat
  zt : Rat
  h  : Rat
  v  : α

variable {α : Type}

/-- `b.p.ztop >= zLower and b.p.zbottom <= zUpper` -/
def marked (zl zu : Rat) (b : Blk α) : Bool := decide (zl ≤ b.zt) && decide (b.zb ≤ zu)

/-- `heightHere = min(ztop, zUpper) - max(zbottom, zLower)` -/
def heightHere (zl zu : Rat) (b : Blk α) : Rat := rmin b.zt zu - rmax b.zb zl

/-- block is appended to `blocksHere`: overlaps the window and `heightHere / b.getHeight() > EPS` -/
def kept (zl zu : Rat) (b : Blk α) : Bool :=
  marked zl zu b && decide (EPS < heightHere zl zu b / b.h)

/-- `Assembly.getBlocksBetweenElevations(zLower, zUpper)`; `none` where the code raises
(IndexError on an empty point set, ValueError of the height check). -/
def blocksBetween (bs : List (Blk α)) (zl zu : Rat) : Option (List (α × Rat)) :=
  let here := (bs.filter (kept zl zu)).map (fun b => (b.v, heightHere zl zu b))
  let pts := (bs.filter (marked zl zu)).flatMap (fun b => [b.zb, b.zt])
  match pts with
  | [] => none
  | p :: ps =>
    let lo := ps.foldl rmin p
    let hi := ps.foldl rmax p
    let expected := rmin (hi - lo) (zu - zl)
    let total := (here.map (·.2)).sum
    if TOL < rabs (total - expected) then none else some here

/-- result of `getBlockAtElevation` -/
inductive AtElev (α : Type) where
  | found (v : α)
  | notFound
  | divZero
  deriving Repr

/-- `Assembly.getBlockAtElevation(elevation)`; walks cumulative heights from 0.0. -/
def blockAtElevationFrom (e : Rat) : Rat → List (Blk α) → AtElev α
  | _, [] => .notFound
  | bottom, b :: t =>
    let top := bottom + b.h
    if e < top then
      (if bottom < e then .found b.v else blockAtElevationFrom e top t)
    else if e = 0 then .divZero
    else if rabs (top - e) / e < EPS then
      (if bottom < e then .found b.v else blockAtElevationFrom e top t)
    else blockAtElevationFrom e top t

def blockAtElevation (bs : List (Blk α)) (e : Rat) : AtElev α := blockAtElevationFrom e 0 bs

/-- `setNumberDensitiesFromOverlaps` for one nuclide: Σ N_i · (h_i / H) -/
def setND (H : Rat) (ov : List (Rat × Rat)) : Rat :=
  (ov.map (fun x => x.1 * (x.2 / H))).sum

/-- parameter location kinds that setAssemblyStateFromOverlaps distinguishes -/
inductive Kind where
  | integrated   -- ParamLocation.VOLUME_INTEGRATED : denominator = source block height
  | averaged     -- everything else                 : denominator = destination block height
  | peak         -- ParamLocation.MAX               : running max, starting from defaultdict's 0.0
  deriving DecidableEq, Repr

/-- one pass of the inner loop body for one parameter; payload = (source block height, value or None);
`acc = none` means the key is not yet in `updatedDestVals`. -/
def accum (k : Kind) (Hd : Rat) (acc : Option Rat) (x : (Rat × Option Rat) × Rat) : Option Rat :=
  match x.1.2 with
  | none => acc
  | some v =>
    let cur := acc.getD 0
    match k with
    | .peak => some (rmax cur v)
    | .integrated => some (cur + v * (x.2 / x.1.1))
    | .averaged => some (cur + v * (x.2 / Hd))

/-- value written to the destination block for one parameter (`none` = not written) -/
def mapParam (k : Kind) (Hd : Rat) (ov : List ((Rat × Option Rat) × Rat)) : Option Rat :=
  ov.foldl (accum k Hd) none

/-- outcome for one destination block -/
inductive DestVal where
  | unchanged            -- `continue` (thin block without overlaps) or all sources None
  | set (v : Rat)
  deriving Repr, DecidableEq

/-- `setAssemblyStateFromOverlaps` restricted to one scalar parameter of kind `k`
(source payload = value or None); `none` where the code raises. -/
def remapParam (k : Kind) (src : List (Blk (Option Rat))) (dst : List (Blk Unit)) : Option (List DestVal) :=
  dst.mapM (fun d =>
    match blocksBetween (src.map (fun b => { b with v := (b.h, b.v) })) d.zb d.zt with
    | none => none
    | some [] => if rabs (d.zt - d.zb) < 1 / 1000000 then some .unchanged else none
    | some ov => match mapParam k d.h ov with
        | none => some .unchanged
        | some v => some (.set v))

/-- number densities of one nuclide mapped onto the destination mesh -/
def remapND (src : List (Blk Rat)) (dst : List (Blk Unit)) : Option (List DestVal) :=
  dst.mapM (fun d =>
    match blocksBetween src d.zb d.zt with
    | none => none
    | some [] => if rabs (d.zt - d.zb) < 1 / 1000000 then some .unchanged else none
    | some ov => some (.set (setND d.h ov)))

/-! ### `_filterMesh` -/

/-- insert into a strictly increasing list, dropping duplicates (`sorted(list(set(...)))`) -/
def insertU (x : Rat) : List Rat → List Rat
  | [] => [x]
  | a :: t => if x < a then x :: a :: t else if x = a then a :: t else a :: insertU x t

def sortU (l : List Rat) : List Rat := l.foldr insertU []

inductive Step where
  | clean                    -- the `for` loop ran to its `else`: no pair closer than the minimum
  | removed (l : List Rat)   -- one point popped
  | anchors                  -- ValueError: two anchor points closer than the minimum
  deriving Repr, DecidableEq

/-- one run of the `for i in range(len(meshList) - 1)` loop up to its first `break` -/
def filterStep (m : Rat) (anch : List Rat) : List Rat → Step
  | a :: b :: t =>
    if rabs (b - a) < m then
      if a ∈ anch ∧ b ∈ anch then .anchors
      else if b ∈ anch then .removed (b :: t)
      else .removed (a :: t)
    else match filterStep m anch (b :: t) with
      | .clean => .clean
      | .removed l => .removed (a :: l)
      | .anchors => .anchors
  | _ => .clean

inductive FM where
  | ok (l : List Rat)
  | anchors
  | fuel
  deriving Repr, DecidableEq

/-- the `while True` loop; `fuel` bounds the number of passes (each pass pops one point) -/
def filterLoop (m : Rat) (anch : List Rat) : Nat → List Rat → FM
  | 0, _ => .fuel
  | n + 1, l => match filterStep m anch l with
    | .clean => .ok l
    | .removed l' => filterLoop m anch n l'
    | .anchors => .anchors

/-- `_filterMesh(meshList, minimumMeshSize, anchorPoints, preference)`; `top = true` is
preference "top" (list processed in descending order); the final `sorted(meshList)` of a
strictly monotone list is the list itself or its reverse. -/
def filterMesh (pts : List Rat) (m : Rat) (anch : List Rat) (top : Bool) : FM :=
  let l := if top then (sortU pts).reverse else sortU pts
  match filterLoop m anch (l.length + 1) l with
  | .ok r => .ok (if top then r.reverse else r)
  | e => e

/-! ### `average1DWithinTolerance` -/

def colMeans (rows : List (List Rat)) : List Rat :=
  match rows with
  | [] => []
  | r :: _ => (List.range r.length).map (fun j => (rows.map (fun row => row.getD j 0)).sum / rows.length)

/-- row is kept: no entry with `abs(v - avg) / avg > tolerance` -/
def rowOK (tol : Rat) (avg row : List Rat) : Bool :=
  (List.zip row avg).all (fun p => !decide (tol < rabs (p.1 - p.2) / p.2))

def avgLoop (tol : Rat) : Nat → List (List Rat) → Option (List Rat)
  | 0, _ => none
  | n + 1, rows =>
    let avg := colMeans rows
    let keep := rows.filter (rowOK tol avg)
    if keep.length = rows.length then
      (if rows.isEmpty then none                       -- "Nothing was near the mean"
       else if avg.any (fun a => decide (a ≤ 0)) then none  -- non-physical value
       else some avg)
    else avgLoop tol n keep

/-- `average1DWithinTolerance(vals, tolerance)` on a rectangular list of rows -/
def average1D (rows : List (List Rat)) (tol : Rat) : Option (List Rat) :=
  avgLoop tol (rows.length + 1) rows

/-- `UniformMeshGenerator._computeAverageAxialMesh`: the meshes (without their first point) of the assemblies
that have as many mesh points as the reference assembly, averaged by `average1DWithinTolerance` with its
default tolerance 0.2 -/
def averageAxialMesh (refN : Nat) (meshes : List (List Rat)) : Option (List Rat) :=
  average1D (meshes.filter (fun m => m.length == refN)) (1 / 5)

/-! ### `resampleStepwise` -/

/-- Python `l[a:b]` for integer (possibly negative) bounds -/
def pySlice {β : Type} (l : List β) (a b : Int) : List β :=
  let n : Int := l.length
  let norm := fun (i : Int) => if i < 0 then (if i + n < 0 then 0 else i + n) else (if n < i then n else i)
  let a' := (norm a).toNat
  let b' := (norm b).toNat
  (l.drop a').take (b' - a')

/-- Python `l[i]` (negative indices wrap; `none` = IndexError) -/
def pyIndex {β : Type} (l : List β) (i : Int) : Option β :=
  let n : Int := l.length
  if i < 0 then (if i + n < 0 then none else l[(i + n).toNat]?) else l[i.toNat]?

/-- `np.digitize(x, bins=xin)` for increasing `xin`: number of entries `≤ x` -/
def digitize (xin : List Rat) (x : Rat) : Int := ((xin.filter (fun a => decide (a ≤ x))).length : Nat)

def diffs : List Rat → List Rat
  | a :: b :: t => (b - a) :: diffs (b :: t)
  | _ => []

/-- `l[-1] *= f` (`none` = IndexError on an empty list) -/
def scaleLast (l : List Rat) (f : Rat) : Option (List Rat) :=
  match l.reverse with
  | [] => none
  | a :: t => some ((a * f :: t).reverse)

def scaleFirst (l : List Rat) (f : Rat) : Option (List Rat) :=
  match l with
  | [] => none
  | a :: t => some (a * f :: t)

/-- body of the loop of `resampleStepwise` for one output cell `[xo0, xo1]` with
`start = bins[i-1]`, `end = bins[i]`; `none` = the code raises. Follows the code after the F25 repair
(`rightFraction`, `start == end` branch). -/
def resampleBody (xin yin : List Rat) (avg : Bool) (xo0 xo1 : Rat) (start end_ : Int) : Option Rat := do
  let chunk := pySlice yin (start - 1) end_
  let length := diffs (pySlice xin (start - 1) (end_ + 1))
  if chunk.isEmpty then return 0
  let n : Int := xin.length
  -- trim any partial right-side bins
  let xr ← pyIndex xin (if end_ ≤ n - 1 then end_ else n - 1)
  let (chunk, length, rightFraction) ←
    if xo1 < xr then do
      let xe1 ← pyIndex xin (end_ - 1)
      let xe ← pyIndex xin end_
      let fraction := (xo1 - xe1) / (xe - xe1)
      if xe - xe1 = 0 then none
      else if fraction = 0 then pure (chunk.dropLast, length.dropLast, (1 : Rat))
      else if avg then do
        let l' ← scaleLast length fraction
        pure (chunk, l', (1 : Rat))
      else do
        let c' ← scaleLast chunk fraction
        pure (c', length, fraction)
    else pure (chunk, length, (1 : Rat))
  -- trim any partial left-side bins
  let xl ← pyIndex xin (start - 1)
  let (chunk, length) ←
    if xl < xo0 then do
      let xs ← pyIndex xin start
      let fraction := (xs - xo0) / (xs - xl)
      if xs - xl = 0 then none
      else if fraction = 0 then pure (chunk.drop 1, length.drop 1)
      else if avg then do
        let l' ← scaleFirst length fraction
        pure (chunk, l')
      else if start = end_ then do
        -- the output bin lies within one input bin: covered share is fr + fl - 1
        let c' ← scaleFirst chunk ((rightFraction + fraction - 1) / rightFraction)
        pure (c', length)
      else do
        let c' ← scaleFirst chunk fraction
        pure (c', length)
    else pure (chunk, length)
  if avg then
    let ws := ((List.zip chunk length).map (fun p => p.1 * p.2)).sum
    if length.sum = 0 then none else pure (ws / length.sum)
  else pure chunk.sum

/-- one output cell: `start`/`end` are the `np.digitize` bins of its two boundaries -/
def resampleCell (xin yin : List Rat) (avg : Bool) (xo0 xo1 : Rat) : Option Rat :=
  resampleBody xin yin avg xo0 xo1 (digitize xin xo0) (digitize xin xo1)

def cellsOf : List Rat → List (Rat × Rat)
  | a :: b :: t => (a, b) :: cellsOf (b :: t)
  | _ => []

/-- `resampleStepwise(xin, yin, xout, avg)`; `none` = assertion/exception -/
def resample (xin yin xout : List Rat) (avg : Bool) : Option (List Rat) :=
  if xin.length ≠ yin.length + 1 then none
  else (cellsOf xout).mapM (fun c => resampleCell xin yin avg c.1 c.2)

/-! ### the decusping pipeline (`UniformMeshGenerator._decuspAxialMesh`) -/

def lmin : List Rat → Option Rat
  | [] => none
  | a :: t => some (t.foldl rmin a)

def lmax : List Rat → Option Rat
  | [] => none
  | a :: t => some (t.foldl rmax a)

/-- `_getFilteredMeshTopAndBottom(flags, bottoms, tops)` for one side: the assemblies' boundaries of that kind, joined
with the anchors handed in (or anchored at their own extreme when none are handed in); `none` = the code raises -/
def filteredBounds (m : Rat) (bounds : List Rat) (given : Option (List Rat)) (top : Bool) : Option (List Rat) :=
  let all := (given.getD []) ++ bounds
  let anchors? := match given with
    | some g => some g
    | none => (if top then lmax all else lmin all).map (fun x => [x])     -- min()/max() of an empty set raises
  match anchors? with
  | none => none
  | some anch => match filterMesh all m anch top with
    | .ok l => some l
    | _ => none

/-- `_decuspAxialMesh`: fuel bottoms/tops, then control bottoms/tops anchored at the fuel ones, the material anchors,
the common mesh joined with bottoms (preference bottom) and tops (preference top), and the final combination with the
material anchors (preference top). NOTE: the top of the common mesh is NOT among the anchors. -/
def decusp (m : Rat) (common fuelB fuelT ctrlB ctrlT : List Rat) : Option (List Rat) := do
  let fb ← filteredBounds m fuelB none false
  let ft ← filteredBounds m fuelT none true
  let mb ← filteredBounds m ctrlB (some fb) false
  let mt ← filteredBounds m ctrlT (some ft) true
  let anchors ← (match filterMesh (mb ++ mt) m (fb ++ ft) false with | .ok l => some l | _ => none)
  let wb ← (match filterMesh (common ++ mb) m mb false with | .ok l => some l | _ => none)
  let wt ← (match filterMesh (common ++ mt) m mt true with | .ok l => some l | _ => none)
  match filterMesh (wb ++ wt) m anchors true with
  | .ok l => some l
  | _ => none

/-! ### mass-conserving block mesh change (`Block.setHeight` / `adjustDensity`, `Assembly.setBlockMesh`) -/

/-- `UniformMeshGenerator.generateCommonMesh`: the average mesh, de-cusped when a minimum size is given -/
def generateCommonMesh (m : Option Rat) (refN : Nat) (meshes : List (List Rat)) (fuelB fuelT ctrlB ctrlT : List Rat) :
    Option (List Rat) := do
  let avg ← averageAxialMesh refN meshes
  match m with
  | none => some avg
  | some m => decusp m avg fuelB fuelT ctrlB ctrlT

/-- `units.TRACE_NUMBER_DENSITY`: "add a little so components remember" -/
def TRACE : Rat := 1 / 100000000000000000000000000000000000000000000000000

/-- `Block.adjustDensity(frac, adjustList)` on the block's nuclide → density table: every listed nuclide with a
non-zero density becomes `dens * frac + TRACE`; zeros and unlisted nuclides are left alone -/
def adjustDensity (frac : Rat) (adjust : List Nat) (nd : List (Nat × Rat)) : List (Nat × Rat) :=
  nd.map (fun x => if x.1 ∈ adjust ∧ x.2 ≠ 0 then (x.1, x.2 * frac + TRACE) else x)

/-- `Block.setHeight(modifiedHeight, conserveMass, adjustList)`: new height and densities; `none` where the code
raises (negative height; mass conservation without nuclides; division by a zero height) -/
def setHeight (hOld hNew : Rat) (conserve : Bool) (adjust : List Nat) (nd : List (Nat × Rat)) :
    Option (Rat × List (Nat × Rat)) :=
  if hNew < 0 then none
  else if conserve && decide (hOld ≠ hNew) then
    (if adjust.isEmpty then none
     else if hNew = 0 then none
     else some (hNew, adjustDensity (hOld / hNew) adjust nd))
  else some (hNew, nd)

/-! ### the same height change component by component, with the component volume caches

`Block.adjustDensity` reads block-level densities (`getNuclideNumberDensities`: volume-weighted over the
components) and writes them back through `Composite.setNumberDensity` (every component holding the nuclide gets
`val / (their share of the volume)`). Both read `c.getVolume()`, which answers from the component's cache when
there is one. One listed nuclide at a time (a nuclide's update touches no other nuclide and no volume). -/

/-- a component for ONE nuclide -/
structure VComp where
  area : Rat              -- cross-section (does not change with the height)
  nd : Option Rat         -- density of the nuclide; `none` = the component does not hold it
  cache : Option Rat      -- cached volume, if any
  deriving Repr, DecidableEq

/-- `c.getVolume()`: the cached value if there is one, else area × block height -/
def vol (h : Rat) (c : VComp) : Rat := c.cache.getD (c.area * h)

/-- `Block.clearCache()`: every component's cached volume is dropped -/
def clearCache (cs : List VComp) : List VComp := cs.map (fun c => { c with cache := none })

def totalVol (h : Rat) (cs : List VComp) : Rat := (cs.map (vol h)).sum

/-- `getNuclideNumberDensities([nuc])`: Σ N_c V_c / Σ V_c -/
def blockND (h : Rat) (cs : List VComp) : Rat :=
  (cs.map (fun c => c.nd.getD 0 * vol h c)).sum / totalVol h cs

/-- `Composite.setNumberDensity(nuc, val)`: the components holding the nuclide all get `val / activeVolumeFrac` -/
def setBlockND (h : Rat) (cs : List VComp) (val : Rat) : List VComp :=
  let frac := totalVol h (cs.filter (fun c => c.nd.isSome)) / totalVol h cs
  cs.map (fun c => if c.nd.isSome then { c with nd := some (val / frac) } else c)

/-- `adjustDensity(frac, [nuc])` for the one nuclide ("don't modify zeros") -/
def adjustOne (h frac : Rat) (cs : List VComp) : List VComp :=
  let d := blockND h cs
  if d = 0 then cs else setBlockND h cs (d * frac + TRACE)

/-- `Block.setHeight(hNew, conserveMass=True, adjustList=[nuc])`, `hOld ≠ hNew`: the height is set, the block's
cache is CLEARED, and only then the densities are adjusted -/
def setHeightOne (hOld hNew : Rat) (cs : List VComp) : List VComp :=
  adjustOne hNew (hOld / hNew) (clearCache cs)

/-- atoms of the nuclide in the block (per unit of the constant factors): Σ N_c · area_c · height -/
def atomsOf (h : Rat) (cs : List VComp) : Rat := (cs.map (fun c => c.nd.getD 0 * c.area * h)).sum

/-- a component as `setBlockMesh` sees it: FUEL flag?, fluid material?, its densities -/
structure MComp where
  fuel : Bool
  fluid : Bool
  nd : List Rat
  deriving Repr, DecidableEq

/-- conserveMassFlag: False / True / "auto" -/
inductive CMode where
  | off | all | auto
  deriving Repr, DecidableEq

/-- `_shouldMassBeConserved` + the `conserveMassFlag` switch: is the mass of this component conserved? -/
def conserves (m : CMode) (assemFuel blockFuel belowFuel : Bool) (c : MComp) : Bool :=
  match m with
  | .off => false
  | .all => true
  | .auto => if blockFuel then c.fuel else if assemFuel then (belowFuel && !c.fluid) else false

/-- one block of `setBlockMesh`: new height `newTop − zBottom`, listed components scaled by old/new height
(`changeNDensByFactor(heightRatio)`); `none` = negative height / division by zero -/
def meshBlock (m : CMode) (assemFuel blockFuel belowFuel : Bool) (hOld hNew : Rat) (cs : List MComp) :
    Option (List MComp) :=
  let conserveMass := match m with
    | .off => false
    | .all => true
    | .auto => blockFuel || (assemFuel && belowFuel)
  if hNew < 0 then none
  else if conserveMass && decide (hNew = 0) then none      -- heightRatio = oldBlockHeight / b.getHeight()
  else some (cs.map (fun c => if conserves m assemFuel blockFuel belowFuel c
      then { c with nd := c.nd.map (fun d => d * (hOld / hNew)) } else c))

/-- the loop of `setBlockMesh(blockMesh, conserveMassFlag)` over blocks `(isFuel, oldHeight, newTop, components)` -/
def setBlockMesh (m : CMode) (assemFuel : Bool) : Bool → Rat → List (Bool × Rat × Rat × List MComp) →
    Option (List (Rat × List MComp))
  | _, _, [] => some []
  | below, zb, (bf, hOld, top, cs) :: rest =>
    let below' := if bf then false else below
    match meshBlock m assemFuel bf below' hOld (top - zb) cs with
    | none => none
    | some cs' => (setBlockMesh m assemFuel below' top rest).map (fun r => (top - zb, cs') :: r)

end ArmiVerif.Mesh
