/-
C19 — nuclide directory: structured identifiers and the table check (core Lean only).

Transcribes armi/nucDirectory/nuclideBases.py:
  NuclideBase._createName (+ updateNuclideBasesForSpecialCases: AM242 ground state is named AM242G),
  NuclideBase._createLabel, NuclideBase.getMcnpId (Am-242 swap), NuclideBase.getAAAZZZSId,
  INuclide.getDatabaseName, NaturalNuclideBase.getMcnpId,
and the data layout of armi/resources/nuclides.dat (one row per nuclide: Z N A S El mass abundance …),
elements.dat, burn-chain.yaml and mcc-nuclides.yaml as emitted by harness/c19.py `regenerate`.

Element symbols are coded as naturals: letters A..Z = 1..26, code = 27·first + second (second = 0 for a
one-letter symbol). Strings are rendered only in the driver (for the correspondence with Python).
-/
namespace ArmiVerif.Nuclide

/-- one line of nuclides.dat inside its element group -/
structure Iso where
  a : Nat
  s : Nat
  n : Nat
  /-- natural abundance × 10^17 (exact: the file gives 12 significant digits, exponents ≥ −17) -/
  abund : Nat
deriving DecidableEq, Repr

/-- all lines of nuclides.dat with the same Z (what `elements.byZ[z].nuclides` holds) -/
structure Group where
  z : Nat
  sym : Nat
  /-- smallest mass number of the group (emitted by the translator, checked by `isoOk`) -/
  a0 : Nat
  isos : List Iso
deriving DecidableEq, Repr

structure Row where
  z : Nat
  sym : Nat
  a : Nat
  s : Nat
  n : Nat
  abund : Nat
deriving DecidableEq, Repr

structure Elem where
  z : Nat
  sym : Nat
deriving DecidableEq, Repr

def Group.rows (g : Group) : List Row :=
  g.isos.map (fun i => ⟨g.z, g.sym, i.a, i.s, i.n, i.abund⟩)

def allRows (gs : List Group) : List Row := gs.flatMap Group.rows

/-- number of letters of a coded symbol -/
def symLen (sym : Nat) : Nat := if sym % 27 = 0 then 1 else 2

/-! ### identifiers (structured) -/

/-- `_createName`: metaChar index = state, except that the factory renames the Am-242 ground state
to `AM242G` (suffix code 4). Suffix codes: 0 "", 1 "M", 2 "M2", 3 "M3", 4 "G". -/
def nameSuffix (z a s : Nat) : Nat := if z = 95 ∧ a = 242 ∧ s = 0 then 4 else s

def nameId (r : Row) : Nat × Nat × Nat := (r.sym, r.a, nameSuffix r.z r.a r.s)

/-- `_createLabel`: (symbol, (a mod 10^(4-len symbol)) div 10, index of the last character) -/
def labelId (r : Row) : Nat × Nat × Nat :=
  (r.sym, (r.a % 10 ^ (4 - symLen r.sym)) / 10, r.a % 10 + r.s * 10)

/-- the `a` part of `getMcnpId` -/
def mcnpA (z a s : Nat) : Nat :=
  if z = 95 ∧ a = 242 then
    (if s ≠ 1 then a + (300 + 100 * max s 1) else a)
  else if s > 0 then a + (300 + 100 * s)
  else a

/-- `getMcnpId` = "{z}{a:03d}" read as a decimal number (exact when `mcnpA < 1000`) -/
def mcnpId (r : Row) : Nat := r.z * 1000 + mcnpA r.z r.a r.s

/-- `NaturalNuclideBase.getMcnpId` = "{z}000" -/
def mcnpNatural (z : Nat) : Nat := z * 1000

/-- `getAAAZZZSId` = f"{a}{z:>03d}{state}" read as a decimal number -/
def aaazzzsId (r : Row) : Nat := r.a * 10000 + r.z * 10 + r.s

/-- decoders (what "the identifiers encode z, a and the state" means) -/
def aaazzzsDecode (id : Nat) : Nat × Nat × Nat := (id / 10 % 1000, id / 10000, id % 10)

/-- from a label: (symbol, a mod 10^(4-len), state) -/
def labelDecode (l : Nat × Nat × Nat) : Nat × Nat × Nat := (l.1, l.2.1 * 10 + l.2.2 % 10, l.2.2 / 10)

/-- decoder of the MCNP id for an element whose isotopes lie in the mass window [a0, a0+100) (what `isoOk` checks for
every element of nuclides.dat): z = id div 1000; the mass number is the value congruent to the low part modulo 100
inside the window; the offset (0, 400, 500, 600) gives the isomeric state, with the Am-242 ground/first-isomer swap. -/
def mcnpDecode (a0 : Nat) (id : Nat) : Nat × Nat × Nat :=
  let z := id / 1000
  let m := id % 1000
  let a := a0 + (m + 100 - a0 % 100) % 100
  let off := m - a
  let s0 := if off = 0 then 0 else off / 100 - 3
  let s := if z = 95 ∧ a = 242 ∧ s0 ≤ 1 then 1 - s0 else s0
  (z, a, s)

/-- total order key of a nuclide -/
def fullKey (z a s : Nat) : Nat := (z * 1000 + a) * 10 + s

def Row.key (r : Row) : Nat := fullKey r.z r.a r.s

/-! ### linear table passes -/

/-- strictly increasing and every entry > p -/
def sortedFrom (p : Nat) : List Nat → Bool
  | [] => true
  | x :: xs => decide (p < x) && sortedFrom x xs

/-- xs ⊆ ys for increasing lists, one merge walk (structural in `ys`) -/
def subsetSorted : List Nat → List Nat → Bool
  | [], _ => true
  | _ :: _, [] => false
  | x :: xs, y :: ys => if x = y then subsetSorted xs ys else subsetSorted (x :: xs) ys

def isoKey (i : Iso) : Nat := i.a * 10 + i.s

def isoOk (g : Group) (i : Iso) : Bool :=
  decide (1 ≤ i.a) && decide (i.a < 400) && decide (i.s ≤ 3) && decide (g.z + i.n = i.a)
    && decide (g.a0 ≤ i.a) && decide (i.a < g.a0 + 100)

/-- 10^17 -/
def abundScale : Nat := 100000000000000000
/-- data precision of the abundance column summed over n isotopes: n · 10^-5 -/
def abundTol (n : Nat) : Nat := n * 1000000000000

def abundSum (g : Group) : Nat := (g.isos.map (·.abund)).sum
def abundCount (g : Group) : Nat := (g.isos.filter (fun i => decide (0 < i.abund))).length

/-- natural abundances of an element sum to one within the data precision, or the element has none -/
def abundOk (g : Group) : Bool :=
  decide (abundCount g = 0) ||
    (decide (abundScale ≤ abundSum g + abundTol (abundCount g)) &&
     decide (abundSum g ≤ abundScale + abundTol (abundCount g)))

def groupOk (g : Group) : Bool :=
  decide (1 ≤ g.z) && decide (g.z < 1000) && g.isos.all (isoOk g) && sortedFrom 0 (g.isos.map isoKey)

def elemOf (es : List Elem) (g : Group) : Bool := es.any (fun e => decide (e.z = g.z) && decide (e.sym = g.sym))

/-- a coded symbol stands for one or two capital letters -/
def symValid (sym : Nat) : Bool := decide (1 ≤ sym / 27) && decide (sym / 27 ≤ 26) && decide (sym % 27 ≤ 26)

/-- pairwise distinct (quadratic; used on the 118 atomic numbers only) -/
def allDistinct : List Nat → Bool
  | [] => true
  | x :: xs => !(xs.contains x) && allDistinct xs

/-- the whole nuclide table check; `es` is elements.dat sorted by symbol code -/
def checkTable (es : List Elem) (gs : List Group) : Bool :=
  sortedFrom 0 (es.map (·.sym)) && sortedFrom 0 (gs.map (·.z)) && gs.all groupOk && gs.all abundOk
    && gs.all (elemOf es)

/-- elements.dat: symbols are one or two capital letters, pairwise distinct (sorted), atomic numbers pairwise distinct -/
def checkElements (es : List Elem) : Bool :=
  es.all (fun e => symValid e.sym) && sortedFrom 0 (es.map (·.sym)) && allDistinct (es.map (·.z))

/-- `Element.getNaturalIsotopics`: nuclides with abundance > 0 and a > 0 — ground states AND isomers (Ta-180m) -/
def naturalIsotopics (g : Group) : List Iso := g.isos.filter (fun i => decide (0 < i.abund) && decide (0 < i.a))

/-- the regenerated `naturals` table (what the loaded implementation reports per element, as (z, [a·10+s]))
against the transcription evaluated on the data -/
def naturalsMatch : List Group → List (Nat × List Nat) → Bool
  | [], [] => true
  | g :: gs, n :: ns => decide (g.z = n.1) && decide ((naturalIsotopics g).map isoKey = n.2) && naturalsMatch gs ns
  | _, _ => false

def naturalSumOk (g : Group) : Bool :=
  let n := naturalIsotopics g
  n.isEmpty ||
    (decide (abundScale ≤ (n.map (·.abund)).sum + abundTol n.length) &&
     decide ((n.map (·.abund)).sum ≤ abundScale + abundTol n.length))

def checkNaturals (gs : List Group) (ns : List (Nat × List Nat)) : Bool :=
  naturalsMatch gs ns && gs.all naturalSumOk

/-! ### burn chain and MC² ids -/

structure Trans where
  /-- `fullKey` of the parent nuclide -/
  parent : Nat
  /-- `fullKey`s of the products that are nuclides (lumped / dummy pseudo-nuclides are defined in code, not in
  the table; the harness checks those on the implementation) -/
  products : List Nat
  /-- branching fraction as the exact value of the parsed double: num / den -/
  bnum : Int
  bden : Nat
deriving Repr

def transOk (known : List Nat) (t : Trans) : Bool :=
  known.contains t.parent && t.products.all (known.contains ·) && decide (0 ≤ t.bnum) &&
    decide (t.bnum ≤ (t.bden : Int)) && decide (0 < t.bden)

/-- `known` = sorted distinct nuclide keys used by the burn chain -/
def checkChain (gs : List Group) (known : List Nat) (chain : List Trans) : Bool :=
  subsetSorted known ((allRows gs).map Row.key) && chain.all (transOk known)

/-- one library column of mcc-nuclides.yaml: (id code, nuclide key or 0 for an elemental entry), sorted by id -/
def checkMccColumn (col : List (Nat × Nat)) : Bool := sortedFrom 0 (col.map (·.1))

/-- `mccKeys` = sorted distinct non-zero nuclide keys named in mcc-nuclides.yaml -/
def checkMccNames (gs : List Group) (mccKeys : List Nat) : Bool :=
  subsetSorted mccKeys ((allRows gs).map Row.key)

/-! ### string rendering: the identifiers as the character sequences Python produces -/

/-- `str(n)` / `"{:d}".format(n)` -/
def digits (n : Nat) : List Char := Nat.toDigits 10 n

/-- `"{:03d}".format(n)` -/
def pad3 (n : Nat) : List Char :=
  if n < 1000 then [Nat.digitChar (n / 100), Nat.digitChar (n / 10 % 10), Nat.digitChar (n % 10)]
  else digits n

def letter (c : Nat) : List Char := if c = 0 then [] else [Char.ofNat (64 + c)]
def symChars (sym : Nat) : List Char := letter (sym / 27) ++ letter (sym % 27)

def suffixChars (k : Nat) : List Char :=
  match k with
  | 0 => [] | 1 => ['M'] | 2 => ['M', '2'] | 3 => ['M', '3'] | 4 => ['G'] | _ => ['?']

/-- `"{}{}{}".format(element.symbol, a, metaChar[state])` (AM242 ground state: "AM242G") -/
def nameChars (r : Row) : List Char :=
  symChars (nameId r).1 ++ digits (nameId r).2.1 ++ suffixChars (nameId r).2.2

def labelAlphabet : List Char := "0123456789ABCDEFGHIJKLMNOPQRSTUVWXYZabcd".toList

/-- `"{}{}{}".format(element.symbol, firstTwoDigits, lastDigit)`; none = IndexError in `_createLabel` -/
def labelCharsOf (r : Row) : Option (List Char) :=
  match labelAlphabet[(labelId r).2.2]? with
  | none => none
  | some c => some (symChars (labelId r).1 ++ digits (labelId r).2.1 ++ [c])

/-- `"{z:d}{a:03d}"` -/
def mcnpChars (r : Row) : List Char := digits r.z ++ pad3 (mcnpA r.z r.a r.s)
/-- `f"{a}{z:>03d}{state}"` -/
def aaazzzsChars (r : Row) : List Char := digits r.a ++ pad3 r.z ++ digits r.s

/-- `"n" + name.capitalize()` -/
def dbNameChars (r : Row) : List Char :=
  match nameChars r with
  | [] => ['n']
  | c :: cs => 'n' :: c.toUpper :: cs.map Char.toLower

def symStr (sym : Nat) : String := String.ofList (symChars sym)
def nameStr (r : Row) : String := String.ofList (nameChars r)
def labelStr (r : Row) : Option String := (labelCharsOf r).map String.ofList
def mcnpStr (r : Row) : String := String.ofList (mcnpChars r)
def aaazzzsStr (r : Row) : String := String.ofList (aaazzzsChars r)
def dbNameStr (r : Row) : String := String.ofList (dbNameChars r)

def parseSym (s : String) : Option Nat :=
  match s.toList with
  | [c] => if c.isUpper then some ((c.toNat - 64) * 27) else none
  | [c, d] => if c.isUpper ∧ d.isUpper then some ((c.toNat - 64) * 27 + (d.toNat - 64)) else none
  | _ => none


/-! ### material library: the base-class density formulas of armi/materials/material.py (exact `Rat`) -/

/-- `Material.density`: refDens / (1 + dLL/100)³ (mass-conserving 3-D expansion) -/
def matDensity (refDens dLL : Rat) : Rat := refDens / (1 + dLL / 100) ^ 3

/-- `Material.pseudoDensity`: refDens / (1 + dLL/100)² (2-D expansion; what components use for number densities) -/
def matPseudoDensity (refDens dLL : Rat) : Rat := refDens / (1 + dLL / 100) ^ 2

/-- `checkTempRange`: the value is inside the stated range -/
def tempInRange (minT maxT v : Rat) : Bool := decide (minT ≤ v) && decide (v ≤ maxT)


/-! ### material library: piecewise-polynomial correlations regenerated from the source (Gen/MaterialTable.lean) -/

/-- Horner evaluation: `cs = [c0, c1, …]` is c0 + c1·x + c2·x² + … -/
def polyEval (cs : List Rat) (x : Rat) : Rat := cs.foldr (fun c acc => c + x * acc) 0

def rmin (a b : Rat) : Rat := if a ≤ b then a else b
def rmax (a b : Rat) : Rat := if a ≤ b then b else a

/-- interval product [a,b]·[l,h] -/
def imul (a b l h : Rat) : Rat × Rat :=
  (rmin (rmin (a * l) (a * h)) (rmin (b * l) (b * h)), rmax (rmax (a * l) (a * h)) (rmax (b * l) (b * h)))

/-- interval Horner: an enclosure of `polyEval cs x` for all x in [a, b] -/
def polyRange (cs : List Rat) (a b : Rat) : Rat × Rat :=
  cs.foldr (fun c acc => let m := imul a b acc.1 acc.2; (c + m.1, c + m.2)) (0, 0)

/-- k consecutive sub-intervals of width w starting at a: on each the enclosure lies strictly inside (lb, ub) -/
def checkSub (cs : List Rat) (lb ub : Rat) (a w : Rat) : Nat → Bool
  | 0 => true
  | k + 1 =>
    let r := polyRange cs a (a + w)
    decide (lb < r.1) && decide (r.2 < ub) && checkSub cs lb ub (a + w) w k

/-- one polynomial piece of a material correlation, with the bounds claimed for it on [lo, hi] -/
structure Piece where
  material : String
  fn : String
  lo : Rat
  hi : Rat
  cs : List Rat
  lb : Rat
  ub : Rat
  /-- number of sub-intervals used by the check -/
  n : Nat
  /-- reference density when the piece is an expansion feeding the base-class density formulas, else 0 -/
  refDens : Rat

def checkPiece (p : Piece) : Bool :=
  decide (0 < p.n) && decide (p.lo ≤ p.hi) && checkSub p.cs p.lb p.ub p.lo ((p.hi - p.lo) / p.n) p.n

/-- an expansion piece that feeds `Material.density` / `pseudoDensity`: expansion above −100 %, reference density positive -/
def checkDensityPiece (p : Piece) : Bool := checkPiece p && decide (-100 ≤ p.lb) && decide (0 < p.refDens)

end ArmiVerif.Nuclide
