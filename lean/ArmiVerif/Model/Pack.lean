/-
C05 — executable model of the database parameter encoding (core Lean only).

Transcribes, for one parameter and its list of per-object values:
  * `Database._writeParams` strategy choice (`_getArrayShape`, the `jagged` test, `np.array(temp)`),
  * `JaggedArray.__init__` / `JaggedArray.unpack`,
  * `packSpecialData` / `unpackSpecialData` (all-None skip, dict strategy, jagged attrs, None sentinels),
  * `replaceNonesWithNonsense` / `replaceNonsenseWithNones` with `NONE_MAP` (regenerated: Gen/PackConsts),
  * `Database._readParams` (`tolist`, length check),
  * `Flag.to_bytes/from_bytes/sortedFields/extend/_resolveAutos`, `FlagSerializer._packImpl/_remapBits/_unpackImpl`.
numpy is a *parameter*: `promote` (dtype promotion table), "inhomogeneous shape → ValueError",
"h5py has no conversion path for unicode arrays" are assumptions validated by the harness against the real libraries.
-/
import ArmiVerif.Gen.PackConsts

namespace ArmiVerif.Pack
open ArmiVerif.Gen

/-! ## value universe -/

/-- numpy dtypes in scope (`str` = unicode `U`); Python `int`/`float`/`bool`/`str` are `i64`/`f64`/`b`/`str`. -/
inductive DT | b | i8 | i16 | i32 | i64 | u8 | u16 | u32 | u64 | f32 | f64 | str
  deriving DecidableEq, Repr, Inhabited

/-- scalar payloads: integers exactly; floats as an opaque code (`none` = NaN); booleans; strings -/
inductive SV | i (v : Int) | f (x : Option Int) | b (v : Bool) | s (v : String)
  deriving DecidableEq, Repr, Inhabited

def DT.isSigned : DT → Bool
  | .i8 | .i16 | .i32 | .i64 => true
  | _ => false
def DT.isUnsigned : DT → Bool
  | .u8 | .u16 | .u32 | .u64 => true
  | _ => false
def DT.isFloat : DT → Bool
  | .f32 | .f64 => true
  | _ => false
def DT.isInt (d : DT) : Bool := d.isSigned || d.isUnsigned
def DT.bits : DT → Nat
  | .b => 8 | .i8 => 8 | .u8 => 8 | .i16 => 16 | .u16 => 16 | .i32 => 32 | .u32 => 32
  | .i64 => 64 | .u64 => 64 | .f32 => 32 | .f64 => 64 | .str => 0

def signedOfBits : Nat → DT
  | 16 => .i16 | 32 => .i32 | 64 => .i64 | _ => .f64

/-- numpy promotion of two dtypes as `np.array([a, b]).dtype` does it (PARAMETER, validated exhaustively). -/
def promote (a c : DT) : DT :=
  if a = c then a
  else if a = .str || c = .str then .str
  else if a = .b then c
  else if c = .b then a
  else if a.isFloat || c.isFloat then
    let small := fun (d : DT) => d = .f32 || (d.isInt && d.bits ≤ 16)
    if small a && small c then .f32 else .f64
  else if a.isSigned = c.isSigned then (if a.bits ≥ c.bits then a else c)
  else
    let s := if a.isSigned then a else c
    let u := if a.isSigned then c else a
    if u.bits < s.bits then s else signedOfBits (2 * u.bits)

/-- dtype of `np.array(list of scalars)`; the empty list gives float64 -/
def promoteAll : List DT → DT
  | [] => .f64
  | d :: ds => ds.foldl promote d

/-- one per-object value -/
inductive Entry
  | none
  | scal (np : Bool) (dt : DT) (v : SV)                   -- Python (`np = false`) or numpy scalar
  | arr (dt : DT) (shape : List Nat) (data : List SV)      -- np.ndarray (0-d: shape [])
  | list (tup : Bool) (dt : DT) (xs : List SV)             -- flat Python list / tuple of scalars
  | list2 (tup : Bool) (dt : DT) (rows : List (List SV))   -- Python list of lists (tuple of tuples)
  | dict (kv : List (String × Option Int))                 -- dict[str, float]; value `none` = NaN
  deriving Repr, Inhabited, DecidableEq

def prod : List Nat → Nat
  | [] => 1
  | n :: r => n * prod r

/-! ## `_writeParams`: strategy choice -/

/-- `Database._getArrayShape`: a shape tuple, or the integer 1 for anything else -/
inductive AShape | tup (s : List Nat) | one
  deriving DecidableEq, Repr

def getArrayShape : Entry → AShape
  | .arr _ sh _ => .tup sh
  | .list _ _ xs => .tup [xs.length]
  | .list2 _ _ rows => .tup [rows.length]
  | _ => .one

/-- `isinstance(x, (np.ndarray, list))` -/
def isNdOrList : Entry → Bool
  | .arr .. => true
  | .list tup .. => !tup
  | .list2 tup .. => !tup
  | _ => false

/-- the `jagged` flag of `_writeParams` -/
def jaggedTest (xs : List Entry) : Bool :=
  if xs.any isNdOrList then
    match xs with
    | [] => false
    | x :: r => r.any (fun y => getArrayShape y ≠ getArrayShape x)
  else false

def rectangular (rows : List (List SV)) : Option Nat :=
  match rows with
  | [] => some 0
  | r :: rs => if rs.all (fun q => q.length = r.length) then some r.length else none

/-- shape of `np.array(entry)` for array-likes; `none` when numpy raises (ragged nesting) -/
def fullShape : Entry → Option (List Nat)
  | .arr _ sh _ => some sh
  | .list _ _ xs => some [xs.length]
  | .list2 _ _ rows => (rectangular rows).map (fun m => [rows.length, m])
  | _ => none

def isArrayLike : Entry → Bool
  | .arr .. | .list .. | .list2 .. => true
  | _ => false

def entryData : Entry → List SV
  | .arr _ _ d => d
  | .list _ _ xs => xs
  | .list2 _ _ rows => rows.flatten
  | .scal _ _ v => [v]
  | _ => []

def entryDT : Entry → Option DT
  | .arr dt _ _ => some dt
  | .list _ dt _ => some dt
  | .list2 _ dt _ => some dt
  | .scal _ dt _ => some dt
  | _ => none

def isScal : Entry → Bool
  | .scal .. => true
  | _ => false
def isNone : Entry → Bool
  | .none => true
  | _ => false
def isDict : Entry → Bool
  | .dict .. => true
  | _ => false

/-- what is written: dataset + attrs -/
inductive Shapes | nd (l : List (List Nat)) | ints (l : List Nat)
  deriving Repr, DecidableEq

inductive Stored
  | plain (dt : DT) (shape : List Nat) (data : List SV)
  | sentinel (dt : DT) (data : List SV)
  | jagged (dt : DT) (flat : List SV) (offsets : List Nat) (shapes : Shapes) (nones : List Nat)
  | dict (keys : List String) (rows : List (List (Option Int)))
  deriving Repr, DecidableEq

/-- `reject` = exception at write time; `skip` = nothing written (all unset); `ood` = outside the modelled domain -/
inductive WriteRes | reject | skip | ood | ok (s : Stored)
  deriving Repr, DecidableEq

/-! ### None sentinels (`NONE_MAP`, regenerated) -/

def typeKey (np : Bool) : DT → String
  | .b => if np then "npbool" else "pybool"
  | .i8 => "i8" | .i16 => "i16" | .i32 => "i32"
  | .i64 => if np then "i64" else "pyint"
  | .u8 => "u8" | .u16 => "u16" | .u32 => "u32" | .u64 => "u64"
  | .f32 => "f32"
  | .f64 => if np then "f64" else "pyfloat"
  | .str => if np then "npstr" else "pystr"

/-- `NONE_MAP[realType]`; `none` = KeyError -/
def noneMap (np : Bool) (dt : DT) : Option SV :=
  let k := typeKey np dt
  match PackConsts.noneMapInt.lookup k with
  | some v => some (.i v)
  | none =>
    if PackConsts.noneMapNaN.contains k then some (.f none)
    else (PackConsts.noneMapStr.lookup k).map .s

/-- the test `replaceNonsenseWithNones` applies, by stored dtype -/
def readIsNone (dt : DT) (v : SV) : Bool :=
  if dt.isFloat then (match v with | .f none => true | _ => false)
  else if dt.isUnsigned then v = .i ((2 : Int) ^ dt.bits - 1 - 2)
  else if dt.isSigned then v = .i (-(2 : Int) ^ (dt.bits - 1) + 2)
  else if dt = .str then v = .s "<!None!>"
  else false

/-- `replaceNonesWithNonsense` on a 1-D object array of scalars and Nones (all non-None of one type):
returns the typed array, or `none` for the TypeError/ValueError paths. Since fix 045c8d0 the code converts to the
common type of all values when that type has a sentinel (and the first value is not a Python bool); for a column of ONE
type that is the type itself (Python int/float become np.int64/np.float64, which carry the same sentinel), so this
transcription is unchanged; mixed-type columns are outside the modelled domain (directed behaviour table in c05.py). -/
def replaceNones (xs : List Entry) : Option (DT × List SV) :=
  match xs.find? (fun e => !isNone e) with
  | some (.scal np dt _) =>
    match noneMap np dt with
    | none => none
    | some sent => some (dt, xs.map (fun e => match e with | .scal _ _ v => v | _ => sent))
  | _ => some (.f64, xs.map (fun _ => SV.f none))

/-! ### dict strategy -/

def insKey (k : String) : List String → List String
  | [] => [k]
  | h :: t => if k < h then k :: h :: t else if k = h then h :: t else h :: insKey k t

/-- `sorted({k for d in data for k in d})` -/
def keyUnion (ds : List (List (String × Option Int))) : List String :=
  ds.foldl (fun acc d => d.foldl (fun a kv => insKey kv.1 a) acc) []

/-- `d.get(k, nan)` (a Python dict: the last binding of a key wins; generated dicts have distinct keys) -/
def dictGet (d : List (String × Option Int)) (k : String) : Option Int :=
  match d.lookup k with
  | some v => v
  | none => none

def dictRows (keys : List String) (ds : List (List (String × Option Int))) : List (List (Option Int)) :=
  ds.map (fun d => keys.map (dictGet d))

def dictOf : Entry → List (String × Option Int)
  | .dict kv => kv
  | _ => []

/-! ### JaggedArray.__init__ -/

/-- `int` = a bare integer in `shapes`: no longer produced by the writer since fix 49d3d18; kept so that the reader side
(`Shapes.ints`: a file written by the old code raises on `sum(x)`) stays modelled -/
inductive JShape | nd (s : List Nat) | int (n : Nat)
  deriving Repr, DecidableEq

inductive JItem | none | data (sh : JShape) (dt : DT) (vals : List SV) | err
  deriving Repr, DecidableEq

/-- one iteration of the constructor loop -/
def classifyJ : Entry → JItem
  | .none => .none
  | .arr _ [] _ => .err                                     -- len() of unsized object
  | .arr dt (n :: r) d => if n = 0 then .none else .data (.nd (n :: r)) dt d
  | .list _ dt xs => if xs.length = 0 then .none else .data (.nd [xs.length]) dt xs
  | .list2 _ dt rows =>
      if rows.length = 0 then .none else
      match rectangular rows with
      | some m => .data (.nd [rows.length, m]) dt rows.flatten
      | none => .err     -- np.array(arr) raises: a nested ragged entry is refused (fix 49d3d18; before: flattened, int in `shapes`)
  | .scal np dt v =>
      -- int / float / np.integer / np.floating (a Python bool is an int); anything else: TypeError (fix 8558ef4)
      if dt.isInt || dt.isFloat || (dt = .b && !np) then .data (.nd [1]) dt [v] else .err
  | .dict _ => .err

structure JPacked where
  flat : List SV
  dts : List DT
  offsets : List Nat
  shapes : List JShape
  nones : List Nat
  deriving Repr, DecidableEq

/-- the constructor loop from position `i` with running `offset` -/
def packJGo : List JItem → Nat → Nat → Option JPacked
  | [], _, _ => some ⟨[], [], [], [], []⟩
  | .err :: _, _, _ => Option.none
  | .none :: r, i, off => (packJGo r (i + 1) off).map (fun p => { p with nones := i :: p.nones })
  | .data sh dt vals :: r, i, off =>
      (packJGo r (i + 1) (off + vals.length)).map (fun p =>
        { flat := vals ++ p.flat, dts := (if vals.isEmpty then p.dts else dt :: p.dts),
          offsets := off :: p.offsets, shapes := sh :: p.shapes, nones := p.nones })

def JShape.ndOf : JShape → Option (List Nat)
  | .nd t => some t
  | .int _ => Option.none
def JShape.intOf : JShape → Option Nat
  | .int n => some n
  | .nd _ => Option.none

/-- `np.array(shapes)`: same number of dimensions everywhere, or all plain ints -/
def shapesArray (l : List JShape) : Option Shapes :=
  match l with
  | [] => some (.nd [])
  | .nd s :: r =>
      if r.all (fun x => x.ndOf.map List.length == some s.length) then some (.nd (l.filterMap JShape.ndOf))
      else Option.none
  | .int _ :: r =>
      if r.all (fun x => x.intOf.isSome) then some (.ints (l.filterMap JShape.intOf)) else Option.none

/-! ### the writer -/

def writeJagged (xs : List Entry) : WriteRes :=
  match packJGo (xs.map classifyJ) 0 0 with
  | Option.none => .reject
  | some p =>
    match shapesArray p.shapes with
    | Option.none => .reject
    | some shapes =>
      if p.flat.isEmpty then .skip                      -- packSpecialData: "everything is None"
      else
        let dt := promoteAll p.dts
        if dt = .str then .reject                       -- h5py: no conversion path for dtype <U
        else .ok (.jagged dt p.flat p.offsets shapes p.nones)

def writeObject (xs : List Entry) : WriteRes :=
  if xs.all isNone then .skip
  else if xs.any isDict then
    if xs.all isDict then
      let ds := xs.map dictOf
      let keys := keyUnion ds
      .ok (.dict keys (dictRows keys ds))
    else .reject
  else if xs.all (fun e => isNone e || isScal e) then
    match replaceNones xs with
    | Option.none => .reject
    | some (dt, data) => if dt = .str then .reject else .ok (.sentinel dt data)
  else .ood

/-- `_writeParams` for one parameter without serializer -/
def writeParam (xs : List Entry) : WriteRes :=
  if xs.isEmpty then .ood
  else if jaggedTest xs then writeJagged xs
  else if xs.all isScal then
    .ok (.plain (promoteAll (xs.filterMap entryDT)) [xs.length] (xs.flatMap entryData))
  else if xs.all isArrayLike then
    match xs with
    | [] => .ood
    | x :: r =>
      match fullShape x with
      | Option.none => .reject
      | some sh =>
        if r.all (fun y => fullShape y = some sh) then
          .ok (.plain (promoteAll (xs.filterMap entryDT)) (xs.length :: sh) (xs.flatMap entryData))
        else .reject
  else if xs.any isArrayLike then .reject              -- inhomogeneous np.array(temp)
  else writeObject xs

/-! ## the reader -/

inductive ROut | none | scal (dt : DT) (v : SV) | arr (dt : DT) (shape : List Nat) (data : List SV)
  | dict (kv : List (String × Int))
  deriving Repr, DecidableEq

def chunks (n : Nat) : Nat → List SV → List (List SV)
  | 0, _ => []
  | k + 1, l => l.take n :: chunks n k (l.drop n)

/-- `np.ndarray(shape, dtype, buffer=flat[offset:])`; `none` when the buffer is too small -/
def mkArr (dt : DT) (flat : List SV) (off : Nat) (sh : List Nat) : Option ROut :=
  if off + prod sh ≤ flat.length then some (.arr dt sh ((flat.drop off).take (prod sh))) else Option.none

/-- `JaggedArray.unpack` loop: `fuel` = numElements − i -/
def unpackGo (dt : DT) (flat : List SV) (nones : List Nat) :
    Nat → Nat → List (Nat × List Nat) → Option (List ROut)
  | 0, _, _ => some []
  | fuel + 1, i, items =>
    if nones.contains i then (unpackGo dt flat nones fuel (i + 1) items).map (ROut.none :: ·)
    else match items with
      | [] => Option.none
      | (off, sh) :: rest =>
        match mkArr dt flat off sh with
        | Option.none => Option.none
        | some a => (unpackGo dt flat nones fuel (i + 1) rest).map (a :: ·)

def sum : List Nat → Nat
  | [] => 0
  | n :: r => n + sum r

def unpackJ (dt : DT) (flat : List SV) (offsets : List Nat) (shapes : List (List Nat)) (nones : List Nat) :
    Option (List ROut) :=
  let items := (offsets.zip shapes).filter (fun p => sum p.2 ≠ 0)
  -- offsets and shapes are indexed by the same k; shapeIndices keeps the k with sum(shape) != 0
  unpackGo dt flat nones (items.length + nones.length) 0 items

def readDictRow (keys : List String) (row : List (Option Int)) : List (String × Int) :=
  (keys.zip row).filterMap (fun p => p.2.map (fun v => (p.1, v)))

/-- `_readParams` for one dataset and `n` objects; `none` = exception while reading -/
def readParam (n : Nat) : Stored → Option (List ROut)
  | .plain dt shape data =>
    match shape with
    | [] => Option.none
    | n0 :: rest =>
      if n0 ≠ n then Option.none
      else if rest = [] then some (data.map (ROut.scal dt))
      else some ((chunks (prod rest) n0 data).map (ROut.arr dt rest))
  | .sentinel dt data =>
    if data.length ≠ n then Option.none
    else some (data.map (fun v => if readIsNone dt v then ROut.none else ROut.scal dt v))
  | .jagged dt flat offsets shapes nones =>
    match shapes with
    | .ints [] => Option.none
    | .ints _ => Option.none                                  -- `sum(x)` of a numpy integer: TypeError
    | .nd shs =>
      match unpackJ dt flat offsets shs nones with
      | Option.none => Option.none
      | some out => if out.length ≠ n then Option.none else some out
  | .dict keys rows =>
    if rows.length ≠ n then Option.none
    else some (rows.map (fun r => ROut.dict (readDictRow keys r)))

/-- what the property promises for an accepted entry: the documented normalisations -/
def normalise (jag : Bool) : Entry → ROut
  | .none => .none
  | .scal _ dt v => if jag then .arr dt [1] [v] else .scal dt v
  | .arr dt sh d =>
      if jag && sh.head? = some 0 then .none
      else match sh, d with
        | [], [v] => .scal dt v          -- a 0-d array comes back as the scalar it holds
        | _, _ => .arr dt sh d
  | .list _ dt xs => if jag && xs.isEmpty then .none else .arr dt [xs.length] xs
  | .list2 _ dt rows =>
      if jag && rows.isEmpty then .none
      else match rectangular rows with
        | some m => .arr dt [rows.length, m] rows.flatten
        | Option.none => .arr dt [rows.flatten.length] rows.flatten
  | .dict kv => .dict (kv.filterMap (fun p => p.2.map (fun v => (p.1, v))))

/-! ## `packSpecialData` called directly on fixed-shape arrays with None between them
(the array branch of `replaceNonesWithNonsense`, the `ndim > 1` branch of `replaceNonsenseWithNones`;
`_writeParams` itself sends such lists to `JaggedArray`) -/

/-- every None becomes an array filled with the sentinel of the element type (`type(next(val.flat))`, a numpy
scalar type); `none` = KeyError → TypeError (no sentinel for that type) -/
def replaceNonesArr (dt : DT) (size : Nat) (xs : List (Option (List SV))) : Option (List (List SV)) :=
  match noneMap true dt with
  | Option.none => Option.none
  | some sent => some (xs.map (fun x => x.getD (List.replicate size sent)))

inductive RowOut | none | full (row : List SV) | part (row : List (Option SV))
  deriving Repr, DecidableEq

/-- one row of the `data.ndim > 1` branch of `replaceNonsenseWithNones` -/
def readRowArr (dt : DT) (row : List SV) : RowOut :=
  if row.all (readIsNone dt) then .none
  else if row.any (readIsNone dt) then .part (row.map (fun v => if readIsNone dt v then Option.none else some v))
  else .full row

/-! ## Flags -/

structure FlagCls where
  fields : List (String × Nat)      -- `_nameToValue` in definition order
  autoAt : Nat
  deriving Repr, DecidableEq

def FlagCls.width (c : FlagCls) : Nat := (c.fields.length + 7) / 8

def insByVal (x : String × Nat) : List (String × Nat) → List (String × Nat)
  | [] => [x]
  | h :: t => if x.2 < h.2 then x :: h :: t else h :: insByVal x t

/-- `sorted(items, key=value)` (stable) -/
def sortByVal (l : List (String × Nat)) : List (String × Nat) := l.foldr insByVal []

def FlagCls.sortedFields (c : FlagCls) : List String := (sortByVal c.fields).map (·.1)

/-- `int.to_bytes(width, "little")`; `none` = OverflowError -/
def toBytes : Nat → Nat → Option (List Nat)
  | v, 0 => if v = 0 then some [] else Option.none
  | v, w + 1 => (toBytes (v / 256) w).map (fun r => v % 256 :: r)

def fromBytes : List Nat → Nat
  | [] => 0
  | b :: r => b + 256 * fromBytes r

/-- `FlagSerializer._remapBits`; `none` = KeyError -/
def remapBits (inp : Nat) (m : Nat → Option Nat) : Option Nat :=
  (List.range (inp.log2 + 1)).foldl (fun acc bit =>
    match acc with
    | Option.none => Option.none
    | some f => if inp.testBit bit then (m bit).map (fun t => f ||| (1 <<< t)) else some f) (some 0)

/-- `_resolveAutos` + `_registerField` for one auto field; fuel bounds the `while` loop -/
def nextAuto (taken : List Nat) : Nat → Nat → Nat
  | 0, a => a
  | fuel + 1, a => if taken.contains a then nextAuto taken fuel (a * 2) else a

def FlagCls.extendAuto (c : FlagCls) : List String → FlagCls
  | [] => c
  | n :: r =>
    let a := nextAuto (c.fields.map (·.2)) (c.fields.length + 1) c.autoAt
    FlagCls.extendAuto { fields := c.fields ++ [(n, a)], autoAt := a * 2 } r

def indexOf (l : List String) (s : String) : Option Nat :=
  match l with
  | [] => Option.none
  | h :: t => if h = s then some 0 else (indexOf t s).map (· + 1)

/-- `FlagSerializer._packImpl`: rows of bytes + the writer's field order -/
def flagsPack (w : FlagCls) (vals : List Nat) : Option (List (List Nat)) :=
  vals.mapM (fun v => toBytes v w.width)

/-- one row of `_unpackImpl`: read directly when the stored field order is a prefix of the current one
(`all(i == j for i, j in zip(passed, now))`), otherwise move every bit to the ordinal its name has now -/
def unpackVal (order now : List String) (v : Nat) : Option Nat :=
  if (order.zip now).all (fun p => p.1 = p.2) then some v
  else remapBits v (fun i => (order[i]?).bind (indexOf now))

/-- `FlagSerializer._unpackImpl` (flags unknown to the reader are added with `auto()` values; Python iterates a
set there, so the order in which they are added is a parameter — here: the writer's order) -/
def flagsUnpack (order : List String) (r : FlagCls) (rows : List (List Nat)) : Option (FlagCls × List Nat) :=
  let names := r.fields.map (·.1)
  let missing := (order.filter (fun n => !names.contains n)).eraseDups
  let r' := if missing.isEmpty then r else r.extendAuto missing
  let now := r'.sortedFields
  (rows.mapM (fun row => unpackVal order now (fromBytes row))).map (fun vs => (r', vs))

/-- `Flag._flagsOn` -/
def flagsOn (c : FlagCls) (v : Nat) : List String :=
  (c.fields.filter (fun f => v &&& f.2 ≠ 0)).map (·.1)

/-! ## the modelled domain of the main theorem as decidable predicates (evaluated by the harness on every value list) -/

/-- `Props.C05.EntryWF` as a Boolean function: every leaf has dtype `d` (scalars of flavour `np`), arrays carry as many
elements as their shape says, no dict -/
def entryWFB (np : Bool) (d : DT) : Entry → Bool
  | .none => true
  | .scal np' dt _ => decide (np' = np) && decide (dt = d)
  | .arr dt sh data => decide (dt = d) && decide (data.length = prod sh)
  | .list _ dt _ => decide (dt = d)
  | .list2 _ dt _ => decide (dt = d)
  | .dict _ => false

/-- flavour of the first scalar (Python when there is none) -/
def npOf (xs : List Entry) : Bool :=
  match xs.find? isScal with
  | some (.scal np _ _) => np
  | _ => false

/-- dtype of the first entry that has one (float64 when all are unset) -/
def dtOf (xs : List Entry) : DT := (xs.findSome? entryDT).getD .f64

/-- the (flavour, dtype) a value list is well-formed for; `none` = outside the modelled domain (mixed dtypes or scalar
flavours, an array whose data do not fit its shape, a dict) -/
def domainOf (xs : List Entry) : Option (Bool × DT) :=
  if xs.all (entryWFB (npOf xs) (dtOf xs)) then some (npOf xs, dtOf xs) else Option.none

/-- `Props.C05.NoSentinel` as a Boolean function: with a None present, no scalar is what the reader takes for None -/
def noSentinelB (d : DT) (xs : List Entry) : Bool :=
  !xs.any isNone || xs.all (fun e => match e with
    | .scal _ _ v => !readIsNone d v
    | _ => true)

end ArmiVerif.Pack
