/-
C16 model: parameter collections with their back-up STACK, retain-state scopes, caches, grid back-up
stack, definition-level `assigned` flags, serial numbers, the read-only switch.

Transcribes armi/reactor/parameters/parameterCollections.py (ParameterCollection.__init__/backUp/
restoreBackup/__deepcopy__/__reduce__/__setattr__), parameterDefinitions.py (Parameter setter,
backUp/restoreBackup), composites.py (Composite.backUp/restoreBackup, StateRetainer), grids/
structuredGrid.py (StructuredGrid.backUp/restoreBackup -- a chain since the F16 fix),
reactorParameters.makeParametersReadOnly.

Objects, parameter definitions and values are numbered: object ids in creation order, a parameter
definition by the identity of its `Parameter` object, a value by a code (equal codes <=> equal
values; what pickle/deepcopy do to a leaf value is a parameter of the model).  Core Lean only.
-/
namespace ArmiVerif.Params

def SINCE_BACKUP : Nat := 16
def SINCE_ANYTHING : Nat := 29   -- 1 | 4 | 8 | 16
def NEVER : Nat := 32

/-- the pickled state of a collection: every value, and `assigned` (the outer `_backup` is the rest
of the stack) -/
structure Frame where
  vals : Nat → Nat
  assigned : Nat

/-- grid state that `StructuredGrid.backUp` saves: codes of (unitSteps, bounds, offset) -/
abbrev GridVal := Nat × Nat × Nat

structure St where
  /-- object → parameter → value code -/
  vals : Nat → Nat → Nat
  /-- `ParameterCollection.assigned` -/
  assigned : Nat → Nat
  /-- `ParameterCollection._backup`, innermost first -/
  backup : Nat → List Frame
  /-- `ArmiObject.cached` -/
  cache : Nat → Nat → Option Nat
  /-- `ArmiObject._backupCache` chain -/
  cacheBk : Nat → List (Nat → Option Nat)
  /-- `spatialGrid` (none: the object has no grid) -/
  grid : Nat → Option GridVal
  /-- `StructuredGrid._backup` chain -/
  gridBk : Nat → List GridVal
  /-- `Parameter.assigned` (per definition, shared by all objects of the class) -/
  dassigned : Nat → Nat
  /-- `Parameter._backup` chain -/
  dbackup : Nat → List Nat
  /-- the parameter definitions of the object's collection class -/
  defs : Nat → List Nat
  readOnly : Nat → Bool
  /-- `p.serialNum` -/
  serial : Nat → Nat
  /-- the serial number the next new collection gets (`GLOBAL_SERIAL_NUM + 1`) -/
  counter : Nat
  /-- number of objects created -/
  next : Nat

def St.empty : St :=
  { vals := fun _ _ => 0, assigned := fun _ => NEVER, backup := fun _ => [], cache := fun _ _ => none,
    cacheBk := fun _ => [], grid := fun _ => none, gridBk := fun _ => [], dassigned := fun _ => NEVER,
    dbackup := fun _ => [], defs := fun _ => [], readOnly := fun _ => false, serial := fun _ => 0,
    counter := 0, next := 0 }

def upd {α} (f : Nat → α) (k : Nat) (v : α) : Nat → α := fun x => if x = k then v else f x

/-- a new object: `ParameterCollection.__init__()` -- defaults (code 0), the next serial.
`__init__` sets `assigned = NEVER` and then assigns `self.serialNum = …` THROUGH the parameter setter,
which marks the collection `SINCE_ANYTHING`; so that is what a new collection carries.  (The
`serialNum` definition itself is kept out of `defs`: its value is the `serial` field.) -/
def create (s : St) (defs : List Nat) (grid : Option GridVal) : St :=
  let o := s.next
  { s with
    vals := upd s.vals o (fun _ => 0)
    assigned := upd s.assigned o SINCE_ANYTHING
    backup := upd s.backup o []
    cache := upd s.cache o (fun _ => none)
    cacheBk := upd s.cacheBk o []
    grid := upd s.grid o grid
    gridBk := upd s.gridBk o []
    defs := upd s.defs o defs
    readOnly := upd s.readOnly o false
    serial := upd s.serial o s.counter
    counter := s.counter + 1
    next := o + 1 }

/-- `obj.p[name] = value` through the default setter: refused on a read-only collection
(`__setattr__` raises before anything changes); marks definition and collection -/
def setP (s : St) (o x v : Nat) : St × Bool :=
  if s.readOnly o then (s, false)
  else ({ s with
          vals := upd s.vals o (upd (s.vals o) x v)
          assigned := upd s.assigned o SINCE_ANYTHING
          dassigned := upd s.dassigned x SINCE_ANYTHING }, true)

/-- `obj.p[name] = value` for a parameter with a CUSTOM setter: `paramSetter` first marks definition and
collection `SINCE_ANYTHING`, then calls the user function `g`, which sees the collection's current values and
the new value and either refuses (raises: `none`, the flags stay marked) or leaves the collection with new
values -- any of its own parameters, so transformations of the value and fan-out to sibling parameters are
covered; sibling parameters assigned through THEIR setters get their definitions marked too (second
component).  On a read-only collection `__setattr__` refuses before any of this. -/
def setC (s : St) (g : (Nat → Nat) → Nat → Option ((Nat → Nat) × List Nat)) (o x v : Nat) : St × Bool :=
  if s.readOnly o then (s, false)
  else
    match g (s.vals o) v with
    | none =>
      ({ s with assigned := upd s.assigned o SINCE_ANYTHING, dassigned := upd s.dassigned x SINCE_ANYTHING }, false)
    | some (row, marked) =>
      ({ s with vals := upd s.vals o row, assigned := upd s.assigned o SINCE_ANYTHING,
                dassigned := fun d => if d = x ∨ d ∈ marked then SINCE_ANYTHING else s.dassigned d }, true)

/-- an IN-PLACE change of the (mutable) value a parameter holds (`obj.p.x[0] += 1`, a nested array of a
ragged value, `dict.update`): no setter runs, no flag changes; the value is simply a different one.
(Not part of `Prog`: the keep-set logic of `restoreBackup` only sees assignments through setters.) -/
def pokeP (s : St) (o x v : Nat) : St := { s with vals := upd s.vals o (upd (s.vals o) x v) }

/-- `obj._setCache(k, v)` -/
def setCache (s : St) (o k v : Nat) : St := { s with cache := upd s.cache o (upd (s.cache o) k (some v)) }

/-- a change of the grid's pitch / bounds / offset -/
def setGrid (s : St) (o : Nat) (g : GridVal) : St :=
  match s.grid o with
  | none => s
  | some _ => { s with grid := upd s.grid o (some g) }

/-- `Composite.backUp` of one object: cache chain, `p.backUp()` (pickle, then clear SINCE_BACKUP), grid -/
def backUpObj (s : St) (o : Nat) : St :=
  { s with
    cacheBk := upd s.cacheBk o (s.cache o :: s.cacheBk o)
    cache := upd s.cache o (fun _ => none)
    backup := upd s.backup o ({ vals := s.vals o, assigned := s.assigned o } :: s.backup o)
    assigned := upd s.assigned o (s.assigned o &&& (255 - SINCE_BACKUP))
    gridBk := match s.grid o with
      | none => s.gridBk
      | some g => upd s.gridBk o (g :: s.gridBk o) }

/-- `Parameter.backUp` -/
def backUpDef (s : St) (d : Nat) : St := { s with dbackup := upd s.dbackup d (s.dassigned d :: s.dbackup d) }

/-- the kept parameters whose current value differs from the backed-up one
(`ParameterCollection.restoreBackup`: only looked at if the collection was assigned SINCE_BACKUP) -/
def keptChanged (s : St) (keep : List Nat) (o : Nat) (fr : Frame) : List Nat :=
  if s.assigned o &&& SINCE_BACKUP ≠ 0 then
    (keep.filter (fun x => decide (x ∈ s.defs o))).filter (fun x => fr.vals x ≠ s.vals o x)
  else []

/-- `Composite.restoreBackup(paramsToApply)` of one object -/
def restoreObj (keep : List Nat) (s : St) (o : Nat) : St :=
  match s.backup o with
  | [] => s     -- never reached in a bracketed scope (the real code would fail to unpickle None)
  | fr :: rest =>
    let ch := keptChanged s keep o fr
    { s with
      vals := upd s.vals o (fun x => if x ∈ ch then s.vals o x else fr.vals x)
      assigned := upd s.assigned o (if ch.isEmpty then fr.assigned else SINCE_ANYTHING)
      backup := upd s.backup o rest
      dassigned := fun x => if x ∈ ch then SINCE_ANYTHING else s.dassigned x
      cache := upd s.cache o ((s.cacheBk o).headD (fun _ => none))
      cacheBk := upd s.cacheBk o (s.cacheBk o).tail
      grid := match s.grid o, s.gridBk o with
        | some _, g :: _ => upd s.grid o (some g)
        | _, _ => s.grid
      gridBk := match s.grid o with
        | some _ => upd s.gridBk o (s.gridBk o).tail
        | none => s.gridBk }

/-- `Parameter.restoreBackup(paramsToApply)` -/
def restoreDef (keep : List Nat) (s : St) (d : Nat) : St :=
  match s.dbackup d with
  | [] => s
  | a :: rest =>
    { s with
      dbackup := upd s.dbackup d rest
      dassigned := if d ∈ keep then s.dassigned else upd s.dassigned d a }

/-- drop adjacent repeats -/
def dedupAdj : List Nat → List Nat
  | [] => []
  | [x] => [x]
  | x :: y :: rest => if x = y then dedupAdj (y :: rest) else x :: dedupAdj (y :: rest)

/-- the SET of parameter definitions of the objects (`paramDefs.update(child.p.paramDefs)`); as a
duplicate-free list (sorted: the order in which a set is iterated is irrelevant, the per-definition
back-ups commute) -/
def allDefs (s : St) (objs : List Nat) : List Nat :=
  dedupAdj ((objs.flatMap s.defs).mergeSort (fun a b => decide (a ≤ b)))

/-- `for paramDef in paramDefs: paramDef.backUp()` over the SET of definitions `D`: the per-definition
updates (`Parameter.backUp`, see `backUpDef`) touch distinct definitions and commute, so the loop is
written as one simultaneous update -/
def backUpDefs (s : St) (D : List Nat) : St :=
  { s with dbackup := fun d => if D.contains d then s.dassigned d :: s.dbackup d else s.dbackup d }

/-- `for paramDef in paramDefs: paramDef.restoreBackup(paramsToApply)` (see `restoreDef`) -/
def restoreDefs (keep : List Nat) (s : St) (D : List Nat) : St :=
  { s with
    dbackup := fun d => if D.contains d then (s.dbackup d).tail else s.dbackup d
    dassigned := fun d =>
      if D.contains d && !(keep.contains d) then
        (match s.dbackup d with
          | [] => s.dassigned d
          | a :: _ => a)
      else s.dassigned d }

/-- `StateRetainer.__enter__`: every object of the subtree, then every definition once -/
def enter (s : St) (objs : List Nat) : St :=
  backUpDefs (objs.foldl backUpObj s) (allDefs s objs)

/-- `StateRetainer.__exit__(*args)`: the same restore whatever the reason for leaving the with-block (normal end or
an exception, which then propagates to the caller) -/
def exit (s : St) (objs keep : List Nat) : St :=
  restoreDefs keep (objs.foldl (restoreObj keep) s) (allDefs s objs)

/-- `copy.deepcopy(obj)`: `ParameterCollection.__deepcopy__` builds a NEW collection from the copied
state: same values and back-up chain, a fresh serial number (assigned through the setter, so the
new collection is `SINCE_ANYTHING`, see `create`) -/
def deepcopyObj (s : St) (o : Nat) : St :=
  let n := s.next
  { s with
    vals := upd s.vals n (s.vals o)
    assigned := upd s.assigned n SINCE_ANYTHING
    backup := upd s.backup n (s.backup o)
    cache := upd s.cache n (s.cache o)
    cacheBk := upd s.cacheBk n (s.cacheBk o)
    grid := upd s.grid n (s.grid o)
    gridBk := upd s.gridBk n (s.gridBk o)
    defs := upd s.defs n (s.defs o)
    readOnly := upd s.readOnly n false
    serial := upd s.serial n s.counter
    counter := s.counter + 1
    next := n + 1 }

/-- `pickle.loads(pickle.dumps(obj))`: `__reduce__` makes a new collection (which consumes a serial
number) and `__setstate__` then overwrites every field -- the serial number and `assigned` are the
original's -/
def pickleObj (s : St) (o : Nat) : St :=
  let n := s.next
  { s with
    vals := upd s.vals n (s.vals o)
    assigned := upd s.assigned n (s.assigned o)
    backup := upd s.backup n (s.backup o)
    cache := upd s.cache n (s.cache o)
    cacheBk := upd s.cacheBk n (s.cacheBk o)
    grid := upd s.grid n (s.grid o)
    gridBk := upd s.gridBk n (s.gridBk o)
    defs := upd s.defs n (s.defs o)
    readOnly := upd s.readOnly n false
    serial := upd s.serial n (s.serial o)
    counter := s.counter + 1
    next := n + 1 }

/-- `makeParametersReadOnly(r)` over the listed objects -/
def makeReadOnly (s : St) (objs : List Nat) : St :=
  { s with readOnly := fun o => if o ∈ objs then true else s.readOnly o }

/-! ### `makeParametersReadOnly` as a walk over the reactor's child lists -/

/-- `obj.p.readOnly = True` (`__setattr__` on a collection that is not read-only yet simply stores it; on one that
already is, it raises "cannot be made writeable" -- the flag stays True either way) -/
def setRO (s : St) (o : Nat) : St := { s with readOnly := upd s.readOnly o true }

/-- `obj.p.readOnly = False`: stored on a writable collection, refused on a read-only one -/
def unlock (s : St) (o : Nat) : St × Bool :=
  if s.readOnly o then (s, false) else ({ s with readOnly := upd s.readOnly o false }, true)

/-- `r.iterChildren(deep=True)` over child lists `kids` (`Composite._iterChildren`: the direct children, then each
child's own deep traversal; C01's `iterC` with the always-true checker) -/
def iterDeep (kids : Nat → List Nat) : Nat → Nat → List Nat
  | 0, _ => []
  | f + 1, n => kids n ++ (kids n).flatMap (iterDeep kids f)

/-- `reactorParameters.makeParametersReadOnly(r)`:
`r.p.readOnly = True; for child in r.iterChildren(deep=True): child.p.readOnly = True`.
The reactor's children are ALL its systems (core, spent fuel pool, other ex-core structures). -/
def makeReadOnlyTree (s : St) (kids : Nat → List Nat) (fuel : Nat) (r : Nat) : St :=
  (iterDeep kids fuel r).foldl setRO (setRO s r)

/-- whatever may be tried on a read-only reactor afterwards -/
inductive Attempt where
  | set (o x v : Nat)                        -- `o.p[x] = v` / `setattr` / `p.update`
  | setC (o x v : Nat) (g : (Nat → Nat) → Nat → Option ((Nat → Nat) × List Nat))   -- a custom setter
  | unlock (o : Nat)                         -- `o.p.readOnly = False`
  | enter (objs : List Nat)                  -- opening a retain-state scope (`backUp` assigns `_backup`)

/-- `StateRetainer.__enter__` on a subtree containing a read-only collection: the first `p.backUp()` that meets
one raises; the driver and the harness see a refusal (objects backed up before it are not modelled: the order is
root first, and a read-only reactor is read-only from the root down) -/
def tryEnter (s : St) (objs : List Nat) : St × Bool :=
  if objs.any s.readOnly then (s, false) else (enter s objs, true)

def attempt (s : St) : Attempt → St × Bool
  | .set o x v => setP s o x v
  | .setC o x v g => setC s g o x v
  | .unlock o => unlock s o
  | .enter objs => tryEnter s objs

/-! ### programs: assignments and (nested) scopes -/

inductive Prog where
  | skip
  | set (o x v : Nat)
  | setC (o x v : Nat) (g : (Nat → Nat) → Nat → Option ((Nat → Nat) × List Nat))
  | cacheSet (o k v : Nat)
  | gridSet (o : Nat) (g : GridVal)
  | seq (a b : Prog)
  | scope (objs keep : List Nat) (body : Prog)

def run : Prog → St → St
  | .skip, s => s
  | .set o x v, s => (setP s o x v).1
  | .setC o x v g, s => (setC s g o x v).1
  | .cacheSet o k v, s => setCache s o k v
  | .gridSet o g, s => setGrid s o g
  | .seq a b, s => run b (run a s)
  | .scope objs keep body, s => exit (run body (enter s objs)) objs keep

/-- object-creation histories (serial numbers) -/
inductive Hist where
  | create (defs : List Nat)
  | deepcopy (o : Nat)

def stepHist (s : St) : Hist → St
  | .create d => create s d none
  | .deepcopy o => deepcopyObj s o

end ArmiVerif.Params
