/-
Line-protocol helpers shared by all drivers (core Lean only).
request  := OP (' ' ARG)*        ARG := INT | RAT ('n/d' or INT) | LIST ('[a,b,c]', no spaces) | BOOL ('T'/'F') | '_'
response := one canonical line; 'reject' for inputs the real code refuses; 'bad-op' for malformed requests.
-/
namespace ArmiVerif.Proto

def words (line : String) : List String :=
  (line.splitOn " ").filter (fun s => s ≠ "") |>.map (fun s => (s.replace "\n" "").replace "\r" "")
    |>.filter (fun s => s ≠ "")

def parseInt? (s : String) : Option Int := s.toInt?

def parseNat? (s : String) : Option Nat := s.toNat?

def parseBool? (s : String) : Option Bool :=
  if s = "T" then some true else if s = "F" then some false else none

/-- rationals as `n/d` or `n` -/
def parseRat? (s : String) : Option Rat :=
  match s.splitOn "/" with
  | [n] => (n.toInt?).map (fun (k : Int) => (k : Rat))
  | [n, d] => do
      let k ← n.toInt?
      let m ← d.toNat?
      if m = 0 then none else some (mkRat k m)
  | _ => none

/-- split a bracketed list at top level commas: "[a,[b,c],d]" → ["a","[b,c]","d"] -/
def splitTop (s : String) : Option (List String) :=
  let cs := s.toList
  match cs with
  | '[' :: rest =>
    match rest.reverse with
    | ']' :: revInner =>
      let inner := revInner.reverse
      if inner.isEmpty then some [] else
      let step := fun (acc : List String × String × Nat) (c : Char) =>
        let (done, cur, depth) := acc
        if c = '[' then (done, cur.push c, depth + 1)
        else if c = ']' then (done, cur.push c, depth - 1)
        else if c = ',' ∧ depth = 0 then (done ++ [cur], "", depth)
        else (done, cur.push c, depth)
      let (done, cur, _) := inner.foldl step ([], "", 0)
      some (done ++ [cur])
    | _ => none
  | _ => none

def parseList? {α} (f : String → Option α) (s : String) : Option (List α) := do
  let parts ← splitTop s
  parts.mapM f

def parseIntList? := parseList? parseInt?
def parseNatList? := parseList? parseNat?
def parseRatList? := parseList? parseRat?

def showRat (q : Rat) : String :=
  if q.den = 1 then toString q.num else toString q.num ++ "/" ++ toString q.den

def showList {α} (f : α → String) (l : List α) : String :=
  "[" ++ ",".intercalate (l.map f) ++ "]"

def showPair (p : Int × Int) : String := "(" ++ toString p.1 ++ "," ++ toString p.2 ++ ")"

def showOpt {α} (f : α → String) : Option α → String
  | none => "reject"
  | some a => f a

def showBool (b : Bool) : String := if b then "T" else "F"

/-- generic read-eval-print loop over stdin for a stateless `answer` -/
partial def loop (answer : List String → String) : IO Unit := do
  let h ← IO.getStdin
  let out ← IO.getStdout
  let rec go : IO Unit := do
    let line ← h.getLine
    if line.isEmpty then return ()
    let ws := words line
    if ws.isEmpty then go else
    out.putStrLn (answer ws)
    go
  go
  out.flush

/-- stateful variant -/
partial def loopState {σ} (init : σ) (step : σ → List String → σ × String) : IO Unit := do
  let h ← IO.getStdin
  let out ← IO.getStdout
  let rec go (s : σ) : IO Unit := do
    let line ← h.getLine
    if line.isEmpty then return ()
    let ws := words line
    if ws.isEmpty then go s else
    let (s', r) := step s ws
    out.putStrLn r
    go s'
  go init
  out.flush

end ArmiVerif.Proto
