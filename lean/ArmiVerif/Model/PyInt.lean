/-
Prelude of the source translator `tools/py2lean.py` (core Lean only).

The translator maps a restricted subset of Python to Lean definitions over `Int`; the handful of
Python built-ins whose meaning is not a Lean primitive are defined here once, by hand.  They are part
of the translator's trusted meaning of Python and are validated, together with the translator, by the
differential execution of every generated definition against the real Python function on every run
(`harness/srctie.py`).

  Python `a // b`, `a % b`   ↦ `Int.fdiv a b`, `Int.fmod a b` (floor semantics; a zero divisor is a
                               raise, handled by the translator with an explicit guard)
  Python `abs(a)`            ↦ `pyAbs a`
  Python `min(a, b)` / `max` ↦ `min a b` / `max a b` on `Int`
  Python `a ** n` (literal n ≥ 0) ↦ `a ^ n` with `n : Nat`
-/
namespace ArmiVerif.PyInt

/-- Python `abs` on ints -/
def pyAbs (x : Int) : Int := if x < 0 then -x else x

/-- Python `int(x)` (truncation toward zero) of the half-integer `x = I/2` -/
def pyTruncHalf (I : Int) : Int := if 0 ≤ I then I / 2 else -((-I) / 2)

/-- Python `sum` of a list of ints -/
def pySum (l : List Int) : Int := l.sum

/-- Python `l[:k]` (a negative `k` counts from the end) -/
def pyTake (l : List Int) (k : Int) : List Int :=
  if 0 ≤ k then l.take k.toNat else l.take ((l.length : Int) + k).toNat

/-- Python `l[k:]` -/
def pyDrop (l : List Int) (k : Int) : List Int :=
  if 0 ≤ k then l.drop k.toNat else l.drop ((l.length : Int) + k).toNat

/-- Python `l[k]`: `none` = IndexError; `-len ≤ k < 0` counts from the end -/
def pyIdx (l : List Int) (k : Int) : Option Int :=
  if 0 ≤ k then l[k.toNat]?
  else if -(l.length : Int) ≤ k then l[((l.length : Int) + k).toNat]?
  else none

/-! ### small strings: a Python `str` is the `List Int` of its code points -/

/-- decimal digits of a natural number (most significant first), as code points; structural in the fuel so
that the kernel can evaluate it -/
def decDigitsAux : Nat → Nat → List Int → List Int
  | 0, _, acc => acc
  | f + 1, n, acc =>
    if n < 10 then ((48 + n : Nat) : Int) :: acc else decDigitsAux f (n / 10) (((48 + n % 10 : Nat) : Int) :: acc)

def decDigits (n : Nat) : List Int := decDigitsAux (n + 1) n []

/-- Python `str(n)` for an int -/
def pyStr (n : Int) : List Int := if n < 0 then 45 :: decDigits n.natAbs else decDigits n.natAbs

/-- Python `"{:0Wd}".format(n)` (`W = 0`: `"{:d}"` / `"{}"`): sign-aware zero padding to width W -/
def pyFmtD (w : Nat) (n : Int) : List Int :=
  let d := decDigits n.natAbs
  if n < 0 then 45 :: (List.replicate (w - 1 - d.length) (48 : Int) ++ d)
  else List.replicate (w - d.length) (48 : Int) ++ d

/-- Python `"{:0>W}".format(n)` for an int: `str(n)` right-aligned in width W with fill `0` (NOT sign-aware) -/
def pyFmtFill (w : Nat) (n : Int) : List Int :=
  let d := pyStr n
  List.replicate (w - d.length) (48 : Int) ++ d

/-- Python `int(s)` for a string made of ASCII digits with an optional leading `-` (the only strings the
translator lets reach `int`): `none` = ValueError (empty, lone sign, a sign or other character inside) -/
def pyIntOfDigits : List Int → Option Nat
  | [] => none
  | l => l.foldl (fun (acc : Option Nat) (c : Int) => match acc with
      | none => none
      | some a => if 48 ≤ c ∧ c ≤ 57 then some (a * 10 + (c - 48).toNat) else none) (some 0)

def pyIntOfStr : List Int → Option Int
  | 45 :: rest => (pyIntOfDigits rest).map (fun n => -(n : Int))
  | 43 :: rest => (pyIntOfDigits rest).map (fun n => (n : Int))
  | l => (pyIntOfDigits l).map (fun n => (n : Int))

/-- Python `chr(n)`: ValueError outside `range(0x110000)` -/
def pyChr (n : Int) : Option (List Int) := if 0 ≤ n ∧ n < 1114112 then some [n] else none

/-- canonical one-line rendering of a translated function's result (driver protocol):
ints in decimal, bools `T`/`F`, tuples right-nested `(a,(b,c))`, lists `[x,y]`, Python `None` as
`None`.  A raise is rendered `reject` by the generated dispatcher. -/
class PyShow (α : Type) where
  sh : α → String

instance : PyShow Int := ⟨fun i => toString i⟩
instance : PyShow Bool := ⟨fun b => if b then "T" else "F"⟩
instance {α β} [PyShow α] [PyShow β] : PyShow (α × β) :=
  ⟨fun p => "(" ++ PyShow.sh p.1 ++ "," ++ PyShow.sh p.2 ++ ")"⟩
instance {α} [PyShow α] : PyShow (List α) :=
  ⟨fun l => "[" ++ ",".intercalate (l.map PyShow.sh) ++ "]"⟩
instance {α} [PyShow α] : PyShow (Option α) :=
  ⟨fun o => match o with | none => "None" | some a => PyShow.sh a⟩

/-- result of a function that may raise -/
def showRaise {α} [PyShow α] : Option α → String
  | none => "reject"
  | some a => PyShow.sh a

end ArmiVerif.PyInt
