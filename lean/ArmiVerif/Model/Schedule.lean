/-
Model of the run schedule of armi/operators/operator.py
(`_mainOperate/_cycleLoop/_timeNodeLoop/_performTightCoupling/getActiveInterfaces/_interactAll`)
and of the node arithmetic of armi/utils/__init__.py.  Core Lean only.

Interfaces are identified by a `Nat` name (armi refuses two interfaces with one name).
`Nat` = Python non-negative int; all loops are transcribed as structural recursion over the
length of the Python `range` they iterate over (`range(a, b)` has `b - a` elements, truncated).
-/
namespace ArmiVerif.Schedule

/-- the interaction states of `Operator.getActiveInterfaces` plus the database write that
`_performTightCoupling` issues after the coupling iterations (`dbi.writeDBEveryNode()`). -/
inductive Hook
  | BOL | BOC | EveryNode | Coupled | EOC | EOL | DbWrite
  deriving DecidableEq, Repr, Inhabited

/-- one interface of the stack: `name`, `enabled()`, `bolForce()`, `reverseAtEOL`, `coupler is not None` -/
structure Iface where
  name : Nat
  enabled : Bool
  bolForce : Bool
  reverseAtEOL : Bool
  hasCoupler : Bool
  deriving DecidableEq, Repr, Inhabited

/-- what a recording interface sees in one hook call: the hook, its own name, the positional
arguments of the hook, and `r.p.cycle`, `r.p.timeNode` at the time of the call -/
structure Event where
  hook : Hook
  iface : Nat
  args : List Nat
  rc : Nat
  rn : Nat
  deriving DecidableEq, Repr, Inhabited

/-- everything the schedule depends on -/
structure Config where
  nCycles : Nat                 -- cs["nCycles"]
  burnSteps : List Nat          -- Operator.burnSteps (getBurnSteps(cs))
  startCycle : Nat              -- r.p.cycle on entry of _mainOperate
  startNode : Nat               -- r.p.timeNode on entry of _mainOperate
  stack : List Iface            -- Operator.interfaces
  deferredNames : List Nat      -- cs["deferredInterfaceNames"]
  deferredCycle : Nat           -- cs["deferredInterfacesCycle"]
  couplingOn : Bool             -- cs["tightCoupling"]
  maxIters : Nat                -- cs["tightCouplingMaxNumIters"]
  skipCycles : List Nat         -- cs["cyclesSkipTightCouplingInteraction"]
  dbName : Nat                  -- the name "database" (looked up by _performTightCoupling)
  halt : Nat → Nat → Bool       -- interface name → cycle → interactBOC returns a truthy value
  conv : Nat → Nat → Nat → Nat → Bool
                                -- interface name → r.p.cycle → r.p.timeNode → iteration → coupler.isConverged
  bolSet : Option (Nat × Nat × Nat) := none
                                -- (name, c, n): the interactBOL hook of that interface assigns r.p.cycle := c,
                                -- r.p.timeNode := n (what MainInterface.interactBOL does for a restart)

/-- (r.p.cycle, r.p.timeNode) -/
structure RState where
  rc : Nat
  rn : Nat
  deriving DecidableEq, Repr

/-- `enabled` lambda of `getActiveInterfaces` -/
def enabledFor (h : Hook) (i : Iface) : Bool :=
  match h with
  | .BOL => i.enabled || i.bolForce
  | _ => i.enabled

/-- `nameCheck` lambda of `getActiveInterfaces` (if / elif ladder on `interactState`) -/
def nameCheck (cfg : Config) (h : Hook) (excluded : List Nat) (cycle : Nat) (i : Iface) : Bool :=
  if h = .EveryNode ∨ h = .EOC ∨ h = .EOL then !(excluded.contains i.name)
  else if h = .BOC ∧ cycle < cfg.deferredCycle then !(cfg.deferredNames.contains i.name)
  else if h = .BOL then !(cfg.deferredNames.contains i.name) && !(excluded.contains i.name)
  else true

/-- `Operator.getActiveInterfaces(interactState, excludedInterfaceNames, cycle)` -/
def active (cfg : Config) (h : Hook) (excluded : List Nat) (cycle : Nat) : List Iface :=
  let act := cfg.stack.filter (fun i => enabledFor h i && nameCheck cfg h excluded cycle i)
  if h = .EOL then
    act.filter (fun i => !i.reverseAtEOL) ++ (act.filter (fun i => i.reverseAtEOL)).reverse
  else act

/-- `Operator._interactAll`: every active interface is called once, in list order -/
def interactAll (h : Hook) (act : List Iface) (args : List Nat) (s : RState) : List Event :=
  act.map (fun i => ⟨h, i.name, args, s.rc, s.rn⟩)

/-- `_checkTightCouplingConvergence`: all couplers of the active interfaces report converged -/
def converged (cfg : Config) (act : List Iface) (s : RState) (it : Nat) : Bool :=
  (act.filter (·.hasCoupler)).all (fun i => cfg.conv i.name s.rc s.rn it)

/-- the `for coupledIteration in range(maxIters)` loop of `_performTightCoupling`
(first argument: iterations left; `break` on convergence) -/
def coupledLoop (cfg : Config) (s : RState) : Nat → Nat → List Event
  | 0, _ => []
  | k + 1, it =>
    let act := active cfg .Coupled [] 0
    let ev := interactAll .Coupled act [it] s
    if converged cfg act s it then ev else ev ++ coupledLoop cfg s k (it + 1)

/-- `Operator._performTightCoupling(cycle, timeNode, writeDB=True)` -/
def performTightCoupling (cfg : Config) (cycle : Nat) (s : RState) : List Event :=
  if !cfg.couplingOn then []
  else
    (if cfg.skipCycles.contains cycle then [] else coupledLoop cfg s cfg.maxIters 0)
      ++ [⟨.DbWrite, cfg.dbName, [], s.rc, s.rn⟩]

/-- `Operator._timeNodeLoop(cycle, timeNode)` -/
def timeNodeLoop (cfg : Config) (cycle node : Nat) (s : RState) : List Event × RState :=
  let s1 : RState := { s with rn := node }
  (interactAll .EveryNode (active cfg .EveryNode [] 0) [cycle, node] s1
    ++ performTightCoupling cfg cycle s1, s1)

/-- `for timeNode in range(startingNode, burnSteps[cycle])` (first argument: nodes left) -/
def nodeLoop (cfg : Config) (cycle : Nat) : Nat → Nat → RState → List Event × RState
  | 0, _, s => ([], s)
  | k + 1, node, s =>
    let r1 := timeNodeLoop cfg cycle node s
    let r2 := nodeLoop cfg cycle k (node + 1) r1.2
    (r1.1 ++ r2.1, r2.2)

/-- does some active interface return a truthy value from interactBOC(cycle)?
(`halt = interactMethod(*args) or halt` over all active interfaces) -/
def haltsAt (cfg : Config) (cycle : Nat) : Bool :=
  (active cfg .BOC [] cycle).any (fun i => cfg.halt i.name cycle)

/-- `Operator._cycleLoop(cycle, startingCycle)`; the Bool is `keepGoing` -/
def cycleLoop (cfg : Config) (cycle startingCycle : Nat) (s : RState) : Bool × List Event × RState :=
  let s1 : RState := { s with rc := cycle }
  let startingNode := if cycle = startingCycle then s1.rn else 0
  let s2 : RState := if cycle = startingCycle then s1 else { s1 with rn := 0 }
  let ev := interactAll .BOC (active cfg .BOC [] s2.rc) [s2.rc] s2
  if haltsAt cfg s2.rc then (false, ev, s2)
  else
    let bs := cfg.burnSteps.getD cycle 0
    let r2 := nodeLoop cfg cycle (bs - startingNode) startingNode s2
    let r3 := timeNodeLoop cfg cycle bs r2.2
    let e4 := interactAll .EOC (active cfg .EOC [] 0) [r3.2.rc] r3.2
    (true, ev ++ r2.1 ++ r3.1 ++ e4, r3.2)

/-- `for cycle in range(startingCycle, nCycles): keepGoing = …; if not keepGoing: break` -/
def mainLoop (cfg : Config) (startingCycle : Nat) : Nat → Nat → RState → List Event × RState
  | 0, _, s => ([], s)
  | k + 1, cycle, s =>
    let r1 := cycleLoop cfg cycle startingCycle s
    if r1.1 then
      let r2 := mainLoop cfg startingCycle k (cycle + 1) r1.2.2
      (r1.2.1 ++ r2.1, r2.2)
    else (r1.2.1, r1.2.2)

/-- the loop and the end-of-life part of `_mainOperate`, entered with r.p.cycle / r.p.timeNode =
`cfg.startCycle` / `cfg.startNode`: `startingCycle = self.r.p.cycle; for cycle in range(…): …; interactAllEOL()` -/
def afterBOL (cfg : Config) : List Event :=
  let s0 : RState := ⟨cfg.startCycle, cfg.startNode⟩
  let startingCycle := s0.rc
  let r1 := mainLoop cfg startingCycle (cfg.nCycles - startingCycle) startingCycle s0
  r1.1 ++ interactAll .EOL (active cfg .EOL [] 0) [] r1.2

/-- `_mainOperate` when no hook touches the time state during beginning-of-life (the restart point
is already set on entry) -/
def runPreset (cfg : Config) : List Event :=
  interactAll .BOL (active cfg .BOL [] 0) [] ⟨cfg.startCycle, cfg.startNode⟩ ++ afterBOL cfg

/-- what a BOL hook does to (r.p.cycle, r.p.timeNode) -/
def bolEffect (cfg : Config) (i : Iface) (s : RState) : RState :=
  match cfg.bolSet with
  | some (nm, c, n) => if i.name = nm then ⟨c, n⟩ else s
  | none => s

/-- `interactAllBOL`: every active interface in order; each sees the time state its predecessors left -/
def bolPhase (cfg : Config) : List Iface → RState → List Event × RState
  | [], s => ([], s)
  | i :: rest, s =>
    let r := bolPhase cfg rest (bolEffect cfg i s)
    (⟨.BOL, i.name, [], s.rc, s.rn⟩ :: r.1, r.2)

/-- the configuration as the cycle loop sees it: the time state left by beginning-of-life -/
def restarted (cfg : Config) : Config :=
  let s := (bolPhase cfg (active cfg .BOL [] 0) ⟨cfg.startCycle, cfg.startNode⟩).2
  { cfg with startCycle := s.rc, startNode := s.rn }

/-- `Operator._mainOperate`: `interactAllBOL()`, THEN `startingCycle = self.r.p.cycle`, the loop, EOL -/
def run (cfg : Config) : List Event :=
  (bolPhase cfg (active cfg .BOL [] 0) ⟨cfg.startCycle, cfg.startNode⟩).1 ++ afterBOL (restarted cfg)

/-- inputs the real code refuses: `_checkReactorCycleAttrs` (burn steps per cycle must have
nCycles entries); and, when a node is actually run with tight coupling on: no interface named
"database" for `_performTightCoupling` to write with (AttributeError), or an iteration cap of 0 in
a cycle that is not exempt (`converged` unbound). A run that halts before its first node never
gets there. -/
def wellFormed (cfg : Config) : Bool :=
  let nodeWrites := (run cfg).filter (fun e => e.hook == .DbWrite)
  cfg.burnSteps.length == cfg.nCycles
    && (nodeWrites.isEmpty || cfg.stack.any (fun i => i.name == cfg.dbName))
    && (nodeWrites.all (fun e => cfg.skipCycles.contains e.rc) || cfg.maxIters ≥ 1)

/-! ### `interfaces.TightCoupler` bookkeeping and the coupling loop with the couplers' own state

The `conv` field of `Config` is an arbitrary predicate. In the code the verdict comes from a
`TightCoupler` object that every coupled interface carries: it has ITS OWN `maxIters` (not necessarily
the run setting `tightCouplingMaxNumIters`), an iteration counter and the previous value. The
definitions below transcribe that bookkeeping for scalar values. -/

/-- `TightCoupler`: `tolerance`, its own `maxIters`, `_numIters`, `_previousIterationValue` -/
structure Coupler where
  tol : Rat
  maxIters : Nat
  numIters : Nat
  prev : Option Rat
  deriving DecidableEq, Repr, Inhabited

/-- `abs(val - previous)` -/
def absDiff (a b : Rat) : Rat := if a - b < 0 then b - a else a - b

/-- `TightCoupler.storePreviousIterationValue(val)` -/
def Coupler.store (k : Coupler) (v : Rat) : Coupler := { k with prev := some v }

/-- `TightCoupler.isConverged(val)`: `none` = ValueError (no previous value stored); otherwise
(converged, the "maximum number of iterations reached" warning was issued, the coupler afterwards):
`converged = eps < tolerance; if converged: _numIters = 0 else: _numIters += 1; if _numIters == maxIters: warn, _numIters = 0` -/
def Coupler.isConverged (k : Coupler) (v : Rat) : Option (Bool × Bool × Coupler) :=
  match k.prev with
  | none => none
  | some p =>
    if absDiff v p < k.tol then some (true, false, { k with numIters := 0 })
    else if k.numIters + 1 = k.maxIters then some (false, true, { k with numIters := 0 })
    else some (false, false, { k with numIters := k.numIters + 1 })

/-- first loop of `interactAllCoupled`: every active interface with a coupler stores
`getTightCouplingValue()` before the round (`vb` : interface name → value) -/
def storeAll (vb : Nat → Rat) (ks : List (Nat × Coupler)) : List (Nat × Coupler) :=
  ks.map (fun p => (p.1, p.2.store (vb p.1)))

/-- `_checkTightCouplingConvergence`: EVERY coupler is asked (a list is filled, no short circuit), then
`all(converged)`; returns (all converged, number of warnings, couplers afterwards); `none` = raises -/
def checkAll (va : Nat → Rat) : List (Nat × Coupler) → Option (Bool × Nat × List (Nat × Coupler))
  | [] => some (true, 0, [])
  | p :: rest =>
    match p.2.isConverged (va p.1) with
    | none => none
    | some r =>
      match checkAll va rest with
      | none => none
      | some rs => some (r.1 && rs.1, (if r.2.1 then 1 else 0) + rs.2.1, (p.1, r.2.2) :: rs.2.2)

/-- `interactAllCoupled(coupledIteration)` for the couplers `ks` of the active interfaces (stack order):
store the values before, (the hooks run), ask every coupler with the values after -/
def interactAllCoupledS (vb va : Nat → Rat) (ks : List (Nat × Coupler)) : Option (Bool × Nat × List (Nat × Coupler)) :=
  checkAll va (storeAll vb ks)

/-- the `for coupledIteration in range(cs["tightCouplingMaxNumIters"])` loop of `_performTightCoupling`
with the couplers' state threaded through (first argument: iterations left; `vb n it` / `va n it` =
value of interface `n` before / after round `it`): (rounds run, warnings issued by the couplers
themselves, couplers afterwards). The loop bound is the run SETTING; a coupler's own `maxIters` is
only read inside `isConverged`. -/
def coupledLoopS (vb va : Nat → Nat → Rat) : Nat → Nat → List (Nat × Coupler) → Option (Nat × Nat × List (Nat × Coupler))
  | 0, _, ks => some (0, 0, ks)
  | left + 1, it, ks =>
    match interactAllCoupledS (fun n => vb n it) (fun n => va n it) ks with
    | none => none
    | some r =>
      if r.1 then some (1, r.2.1, r.2.2)
      else match coupledLoopS vb va left (it + 1) r.2.2 with
        | none => none
        | some q => some (q.1 + 1, r.2.1 + q.2.1, q.2.2)

/-- the verdict of one coupler in round `it`, as a `conv`-style predicate: |after − before| < tolerance -/
def verdict (vb va : Nat → Nat → Rat) (p : Nat × Coupler) (it : Nat) : Bool :=
  decide (absDiff (va p.1 it) (vb p.1 it) < p.2.tol)

/-! ### node arithmetic (armi/utils/__init__.py) -/

/-- `getNodesPerCycle` -/
def nodesPerCycle (bs : List Nat) : List Nat := bs.map (· + 1)

/-- `getCumulativeNodeNum(cycle, node, cs)` = `sum(nodesPerCycle[:cycle]) + node` -/
def cumNode (bs : List Nat) (cycle node : Nat) : Nat :=
  ((nodesPerCycle bs).take cycle).sum + node

/-- loop of `getCycleNodeFromCumulativeNode`: `i` index, `cNodes` running sum, `rest` = nodesPerCycle[i:] -/
def nodeOfCumLoop (k : Nat) : Nat → Nat → List Nat → Option (Nat × Nat)
  | _, _, [] => none
  | i, cNodes, x :: rest =>
    let cNodes' := cNodes + x
    if k < cNodes' then some (i, k - (cNodes' - x))
    else match rest with
      | [] => some (i, k - (cNodes' - x))      -- fall-through after the loop: last cycle
      | _ => nodeOfCumLoop k (i + 1) cNodes' rest

/-- `getCycleNodeFromCumulativeNode(timeNodeNum, cs)`; `none` = raises (no cycles: IndexError) -/
def nodeOfCum (bs : List Nat) (k : Nat) : Option (Nat × Nat) :=
  nodeOfCumLoop k 0 0 (nodesPerCycle bs)

/-- loop of `getCycleNodeFromCumulativeStep` (steps are 1-indexed; the result is an `Int` pair
because the fall-through branch can produce a node beyond the cycle, never a negative one for t ≥ 1) -/
def stepOfCumLoop (t : Nat) : Nat → Nat → List Nat → Option (Nat × Nat)
  | _, _, [] => none
  | i, cSteps, x :: rest =>
    let cSteps' := cSteps + x
    if t ≤ cSteps' then some (i, t - (cSteps' - x) - 1)
    else match rest with
      | [] => some (i, t - (cSteps' - x) - 1)
      | _ => stepOfCumLoop t (i + 1) cSteps' rest

/-- `getCycleNodeFromCumulativeStep(timeStepNum, cs)`; `none` = raises (`timeStepNum < 1` or no cycles) -/
def stepOfCum (bs : List Nat) (t : Nat) : Option (Nat × Nat) :=
  if t < 1 then none else stepOfCumLoop t 0 0 bs

/-- `getPreviousTimeNode(cycle, node, cs)`; `none` = raises -/
def prevNode (bs : List Nat) (cycle node : Nat) : Option (Nat × Nat) :=
  if cycle = 0 ∧ node = 0 then none
  else if node ≠ 0 then some (cycle, node - 1)
  else match (nodesPerCycle bs)[cycle - 1]? with
    | none => none
    | some npc => some (cycle - 1, npc - 1)

/-! ### step lengths (`_getStepAndCycleLengths`) over exact rationals -/

/-- the pattern `expand(cs[list]) if cs[list] not in [None, []] else ([cs[scalar]] * nCycles if
cs[scalar] is not None else default)` of `getAvailabilityFactors` / `_getStepAndCycleLengths`
(a scalar of exactly 0 is a value, not "unset") -/
def listOrScalar (lst : Option (List Rat)) (scalar : Option Rat) (nCycles : Nat) (dflt : List Rat) : List Rat :=
  match lst with
  | some (x :: xs) => x :: xs
  | _ => match scalar with
    | some v => List.replicate nCycles v
    | none => dflt

/-- `getAvailabilityFactors(cs)` for the simple inputs -/
def availabilitySimple (afs : Option (List Rat)) (af : Option Rat) (nCycles : Nat) : List Rat :=
  listOrScalar afs af nCycles [1]

/-- the `cycleLengths` of `_getStepAndCycleLengths` for the simple inputs -/
def cycleLengthsSimple (cls : Option (List Rat)) (cl : Option Rat) (nCycles : Nat) : List Rat :=
  listOrScalar cls cl nCycles [0]

/-- `getPowerFractions(cs)` for the simple inputs -/
def powerFractionsSimple (pfs : Option (List Rat)) (nCycles burnSteps : Nat) : List (List Rat) :=
  (match pfs with
   | some (x :: xs) => x :: xs
   | _ => List.replicate nCycles 1).map (fun v => List.replicate burnSteps v)

/-- simple inputs: `[[length * availability / burnSteps] * burnSteps for …]`, `[[]]` for 0 burn steps -/
def stepLengthsSimple (cycleLengths avail : List Rat) (burnSteps : Nat) : List (List Rat) :=
  if burnSteps = 0 then [[]]
  else (List.zipWith (· * ·) cycleLengths avail).map (fun l => List.replicate burnSteps (l / burnSteps))

/-- one entry of a list in MCNP repeat notation: a number, or `"nR"` = the previous value n more times -/
inductive RItem
  | val (v : Rat)
  | rep (n : Nat)
  deriving DecidableEq, Repr

/-- the loop of `utils.mathematics.expandRepeatedFloats` (`acc` = `nonRepeatList`);
`none` = IndexError (`nonRepeatList[-1]` of an empty list: a repeat with nothing before it, also for `"0R"`) -/
def expandLoop : List RItem → List Rat → Option (List Rat)
  | [], acc => some acc
  | .val v :: rest, acc => expandLoop rest (acc ++ [v])
  | .rep n :: rest, acc =>
    match acc.getLast? with
    | none => none
    | some l => expandLoop rest (acc ++ List.replicate n l)

/-- `expandRepeatedFloats(repeatedList)`: the `step days`, `power fractions`, `availabilityFactors`, `cycleLengths`,
`powerFractions` inputs all go through it -/
def expandRepeated (l : List RItem) : Option (List Rat) := expandLoop l []

/-- one cycle of the detailed `cycles` input -/
inductive CycleSpec
  | stepDays (days : List Rat)
  | cumulativeDays (cum : List Rat)
  | stepsAndLength (burnSteps : Nat) (cycleLength : Rat)

/-- `getStepsFromValues(values, prevValue=0.0)` -/
def stepsFromValues : Rat → List Rat → List Rat
  | _, [] => []
  | prev, v :: rest => (v - prev) :: stepsFromValues v rest

/-- step lengths of one detailed cycle -/
def stepLengthsDetailed (avail : Rat) : CycleSpec → List Rat
  | .stepDays d => d
  | .cumulativeDays c => stepsFromValues 0 c
  | .stepsAndLength b l => List.replicate b (l * avail / b)

/-- cycle length of one detailed cycle: `sum(steps) / availability` -/
def cycleLengthDetailed (avail : Rat) (c : CycleSpec) : Rat :=
  (stepLengthsDetailed avail c).sum / avail

end ArmiVerif.Schedule
