/-
C17 model — case settings: assignment through the schema, the three write styles, the reader with
renames / invalid handling, and copy-on-modify.   Core Lean only.

Transcribes (armi/settings):
  caseSettings.py  Settings.__setitem__ / modified / duplicate
  setting.py       Setting.setValue / isDefault / offDefault / dump
  settingsIO.py    SettingsWriter._getSettingDataToWrite / _preprocessYaml,
                   SettingRenamer.__init__ / renameSetting, SettingsReader._readYaml / _applySettings

Values are an abstract type `V` with decidable equality (the harness interns canonical values as
numbers).  What the model takes as PARAMETERS (external code, exercised by the harness per setting):
  schema : String → V → Option V   voluptuous schema + `_load` of the named setting applied to a raw input
                                   (`none` = `vol.Invalid` raised, `some v'` = coerced stored value)
  dump   : String → V → V          `Setting.dump()` followed by ruamel dump → load of the YAML text
  stamp  : V → V                   `_preprocessYaml`: `cleanedData["versions"]["armi"] = version`
  blank  : V                       the `{}` the writer creates when `versions` is not being written
-/
namespace ArmiVerif.Settings

/-- one `Setting` object: name, default, current value -/
structure Entry (V : Type) where
  name : String
  default : V
  value : V
  deriving Repr, DecidableEq

/-- the `Settings.__settings` dict in insertion order (names are unique: `Names.Nodup`) -/
abbrev Reg (V : Type) := List (Entry V)

variable {V : Type}

def names (r : Reg V) : List String := r.map (·.name)

def has (r : Reg V) (n : String) : Bool := (names r).contains n

def find? (r : Reg V) (n : String) : Option (Entry V) := r.find? (fun e => e.name == n)

/-- value of setting `n` (`cs[n]` without the simple-cycles guard) -/
def valueOf (r : Reg V) (n : String) : Option V := (find? r n).map (·.value)

def setVal (r : Reg V) (n : String) (v : V) : Reg V :=
  r.map (fun e => if e.name == n then { e with value := v } else e)

/-- all settings at their defaults: a fresh `Settings()` -/
def fresh (r : Reg V) : Reg V := r.map (fun e => { e with value := e.default })

inductive Status | ok | nonexistent | invalid
  deriving Repr, DecidableEq

/-- `Settings.__setitem__` → `Setting.setValue`: NonexistentSetting for unknown names; the schema either
raises (`vol.Invalid`, the value is left untouched) or yields the coerced value that is stored. -/
def assign (schema : String → V → Option V) (r : Reg V) (n : String) (raw : V) : Reg V × Status :=
  if has r n then
    match schema n raw with
    | some v => (setVal r n v, .ok)
    | none => (r, .invalid)
  else (r, .nonexistent)

/-! ### writer -/

inductive Style | short | medium | full
  deriving Repr, DecidableEq

/-- `Setting.offDefault` = `not (value == default)` -/
def offDefault [DecidableEq V] (e : Entry V) : Bool := decide (e.value ≠ e.default)

/-- the `continue` conditions of `_getSettingDataToWrite`, negated -/
def selected [DecidableEq V] (style : Style) (setByUser : List String) (e : Entry V) : Bool :=
  match style with
  | .short => offDefault e
  | .medium => offDefault e || setByUser.contains e.name
  | .full => true

/-- `sorted(self.cs.items(), key=lambda name: name[0].lower())` (stable; the key is computed once per item) -/
def sortByLower (r : Reg V) : Reg V :=
  ((r.map (fun e => (e.name.toLower, e))).mergeSort (fun a b => decide (a.1 ≤ b.1))).map (·.2)

/-- settings slated for writing, in file order -/
def toWrite [DecidableEq V] (style : Style) (setByUser : List String) (r : Reg V) : Reg V :=
  (sortByLower r).filter (selected style setByUser)

/-- the name of the setting that `_preprocessYaml` stamps with the armi version -/
def versionsName : String := "versions"

/-- `_preprocessYaml`: the flattened mapping name ↦ dumped value, with the version stamp applied to the
`versions` entry (created at the end of the mapping when it was not selected). -/
def writeDoc [DecidableEq V] (dump : String → V → V) (stamp : V → V) (blank : V)
    (style : Style) (setByUser : List String) (r : Reg V) : List (String × V) :=
  let body := (toWrite style setByUser r).map (fun e => (e.name, dump e.name e.value))
  if (body.map (·.1)).contains versionsName then
    body.map (fun p => if p.1 == versionsName then (p.1, stamp p.2) else p)
  else body ++ [(versionsName, stamp blank)]

/-- side effect of writing on the settings object itself: `Setting.dump` hands out the stored dict of
`versions`, which `_preprocessYaml` then mutates in place. `stampV` is the effect on the stored value. -/
def writeEffect [DecidableEq V] (stampV : V → V) (style : Style) (setByUser : List String) (r : Reg V) : Reg V :=
  if (names (toWrite style setByUser r)).contains versionsName then
    r.map (fun e => if e.name == versionsName then { e with value := stampV e.value } else e)
  else r

/-! ### renamer -/

structure Renames where
  /-- `_activeRenames` : old ↦ new, insertion order -/
  active : List (String × String)
  /-- `_expiredRenames` : (old, new) -/
  expired : List (String × String)
  deriving Repr, DecidableEq

/-- one declared old name: (current name of the declaring setting, old name, expiry date ordinal) -/
abbrev OldName := String × String × Option Int

/-- `expiry <= today` when an expiry is given -/
def isExpired (today : Int) : Option Int → Bool
  | none => false
  | some d => decide (d ≤ today)

/-- `SettingRenamer.__init__` over the declarations in registry order; `none` = SettingException
(two active renames of one old name). -/
def mkRenamer (today : Int) : List OldName → Renames → Option Renames
  | [], acc => some acc
  | (new, old, exp) :: rest, acc =>
    if isExpired today exp then
      mkRenamer today rest { acc with expired := acc.expired ++ [(old, new)] }
    else if (acc.active.map (·.1)).contains old then none
    else mkRenamer today rest { acc with active := acc.active ++ [(old, new)] }

def lookupRename (l : List (String × String)) (n : String) : Option String :=
  (l.find? (fun p => p.1 == n)).map (·.2)

/-- `SettingRenamer.renameSetting` -/
def renameSetting (cur : List String) (rn : Renames) (n : String) : String × Bool :=
  if cur.contains n then (n, false)
  else match lookupRename rn.active n with
    | some m => (m, true)
    | none => (n, false)

/-! ### reader -/

structure ReadResult (V : Type) where
  reg : Reg V
  /-- `invalidSettings` (a set; kept in first-seen order) -/
  invalid : List String
  /-- `false`: a value was refused by its schema — the exception leaves `_readYaml` at that entry -/
  ok : Bool
  deriving Repr

/-- `SettingsReader._applySettings` for one (name, value) of the document; the renamer and the set of
current names were fixed when the reader was created. -/
def applyOne (schema : String → V → Option V) (cur : List String) (rn : Renames)
    (st : ReadResult V) (entry : String × V) : ReadResult V :=
  if !st.ok then st else
  let n := (renameSetting cur rn entry.1).1
  if has st.reg n then
    match schema n entry.2 with
    | some v => { st with reg := setVal st.reg n v }
    | none => { st with ok := false }
  else
    { st with invalid := if st.invalid.contains n then st.invalid else st.invalid ++ [n] }

/-- `SettingsReader._readYaml`: apply the mapping in document order -/
def readDoc (schema : String → V → Option V) (rn : Renames) (r : Reg V) (doc : List (String × V)) :
    ReadResult V :=
  doc.foldl (applyOne schema (names r) rn) { reg := r, invalid := [], ok := true }

/-! ### copies -/

/-- an item of `newSettings` in `Settings.modified`: a plain value or a whole `Setting` object -/
inductive NewItem (V : Type)
  | val (v : V)
  | obj (default value : V)
  deriving Repr

/-- the loop body of `Settings.modified` on the duplicate -/
def modifyOne (schema : String → V → Option V) (acc : Reg V × Bool) (kv : String × NewItem V) : Reg V × Bool :=
  if !acc.2 then acc else
  match kv.2 with
  | .obj d v =>
    if has acc.1 kv.1 then
      (acc.1.map (fun e => if e.name == kv.1 then { name := kv.1, default := d, value := v } else e), true)
    else (acc.1 ++ [{ name := kv.1, default := d, value := v }], true)
  | .val raw =>
    if has acc.1 kv.1 then
      match schema kv.1 raw with
      | some v => (setVal acc.1 kv.1 v, true)
      | none => (acc.1, false)
    else (acc.1 ++ [{ name := kv.1, default := raw, value := raw }], true)

/-- the registry of `self.modified(newSettings=…)`; `none` when a value is refused (exception, no copy) -/
def modifiedReg (schema : String → V → Option V) (r : Reg V) (news : List (String × NewItem V)) : Option (Reg V) :=
  let res := news.foldl (modifyOne schema) (r, true)
  if res.2 then some res.1 else none

/-- A store of `Settings` objects addressed by number (object identity). -/
abbrev Store (V : Type) := List (Reg V)

/-- `Settings.modified`: `duplicate()` allocates a new object, the modifications go to the new object only -/
def Store.modified (schema : String → V → Option V) (s : Store V) (a : Nat) (news : List (String × NewItem V)) :
    Option (Store V × Nat) :=
  match s[a]? with
  | none => none
  | some r => match modifiedReg schema r news with
    | none => none
    | some r' => some (s ++ [r'], s.length)

/-- `cs[n] = v` on object `a` of the store (state unchanged when refused) -/
def Store.assign (schema : String → V → Option V) (s : Store V) (a : Nat) (n : String) (raw : V) : Store V :=
  match s[a]? with
  | none => s
  | some r => s.set a (Settings.assign schema r n raw).1

/-! ### defaults, copies through `__setstate__`, histories -/

/-- `Setting.revertToDefault`: `_value = deepcopy(default)`, no schema -/
def revert (r : Reg V) (n : String) : Reg V :=
  r.map (fun e => if e.name == n then { e with value := e.default } else e)

/-- `Setting.changeDefault(Default(raw, n))` through `cs.getSetting(n)`: `_default = raw` FIRST (uncoerced), then
`setValue(raw)` — when the schema refuses, the exception leaves the new default and the old value behind. -/
def changeDefault (schema : String → V → Option V) (r : Reg V) (n : String) (raw : V) : Reg V × Status :=
  if has r n then
    match schema n raw with
    | some v => (r.map (fun e => if e.name == n then { e with default := raw, value := v } else e), .ok)
    | none => (r.map (fun e => if e.name == n then { e with default := raw } else e), .invalid)
  else (r, .nonexistent)

/-- `Setting.isDefault`: `value == default` — DERIVED from the two fields, never stored -/
def isDefault [DecidableEq V] (r : Reg V) (n : String) : Option Bool :=
  (find? r n).map (fun e => decide (e.value = e.default))

/-- `Settings.__setstate__` (what `copy.deepcopy`, `duplicate()`, `modified()` and unpickling run): the registry is rebuilt
from the application's definitions `app` (their defaults, their schemas), then every setting of the pickled state hands over
its VALUE (`_value = settingState.value`, no schema); settings the application does not define are copied whole. -/
def copyReg (app r : Reg V) : Reg V :=
  r.foldl (fun acc e => if has acc e.name then setVal acc e.name e.value else acc ++ [e]) app

/-- one step in the life of a settings object; `copy` / `modify` continue with the NEW object -/
inductive Op (V : Type)
  | set (n : String) (raw : V)
  | revert (n : String)
  | chdef (n : String) (raw : V)
  | copy
  | modify (news : List (String × NewItem V))

def stepOp (schema : String → V → Option V) (app : Reg V) (r : Reg V) : Op V → Reg V
  | .set n raw => (assign schema r n raw).1
  | .revert n => revert r n
  | .chdef n raw => (changeDefault schema r n raw).1
  | .copy => copyReg app r
  | .modify news => match modifiedReg schema (copyReg app r) news with
    | some r' => r'
    | none => r

/-- every settings object reachable from a fresh `Settings()` by assignments (accepted or refused), reverts, default
changes, copies (deepcopy / duplicate / pickle) and `modified(...)`, in any order -/
def runOps (schema : String → V → Option V) (app : Reg V) (ops : List (Op V)) : Reg V :=
  ops.foldl (stepOp schema app) app

/-! ### numeric schemas  `vol.All(vol.Coerce(int | float), vol.Range(min, max, min_included, max_included))`

The schema of every strictly-positive / bounded numeric setting (globalSettings.py, neutronics/settings.py, …).  Raw inputs:
Python `int`, finite `float` (exact rational value) and `bool`; strings and non-finite floats stay parameters. -/

inductive NumType | int | float
  deriving Repr, DecidableEq

inductive RawNum
  | int (i : Int)
  | float (q : Rat)
  | bool (b : Bool)
  deriving Repr, DecidableEq

/-- a stored number: Python `int` or `float` -/
inductive Num
  | int (i : Int)
  | float (q : Rat)
  deriving Repr, DecidableEq

def Num.val : Num → Rat
  | .int i => i
  | .float q => q

def Num.toRaw : Num → RawNum
  | .int i => .int i
  | .float q => .float q

/-- Python `int(x)` on a float: truncation toward zero -/
def truncate (q : Rat) : Int := Int.tdiv q.num q.den

/-- `vol.Coerce(T)`: `int(x)` / `float(x)` on a number -/
def coerceNum : NumType → RawNum → Num
  | .int, .int i => .int i
  | .int, .float q => .int (truncate q)
  | .int, .bool b => .int (if b then 1 else 0)
  | .float, .int i => .float i
  | .float, .float q => .float q
  | .float, .bool b => .float (if b then 1 else 0)

structure NumRange where
  min : Option Rat
  max : Option Rat
  minIncluded : Bool
  maxIncluded : Bool
  deriving Repr, DecidableEq

/-- `vol.Range.__call__`: `v < min` / `v <= min` raises depending on `min_included`, likewise `max` -/
def inRange (rg : NumRange) (x : Rat) : Bool :=
  (match rg.min with
   | none => true
   | some m => if rg.minIncluded then decide (m ≤ x) else decide (m < x)) &&
  (match rg.max with
   | none => true
   | some m => if rg.maxIncluded then decide (x ≤ m) else decide (x < m))

/-- `vol.All(vol.Coerce(T), vol.Range(…))`: coerce FIRST, then validate the coerced value; `none` = `vol.Invalid` -/
def numSchema (t : NumType) (rg : NumRange) (raw : RawNum) : Option Num :=
  let v := coerceNum t raw
  if inRange rg v.val then some v else none

def RawNum.val : RawNum → Rat
  | .int i => i
  | .float q => q
  | .bool b => if b then 1 else 0

/-- the composition in the OTHER order, `vol.All(vol.Range(…), vol.Coerce(T))` — not what the settings use; kept to state
`range_before_coerce_admits_what_it_cannot_hold` -/
def numSchemaRangeFirst (t : NumType) (rg : NumRange) (raw : RawNum) : Option Num :=
  if inRange rg raw.val then some (coerceNum t raw) else none

/-- a list schema `[vol.All(vol.Coerce(T), vol.Range(…))]` (buGroups, tempGroups, …): every element through the element
schema, the first refusal refuses the whole list -/
def numListSchema (t : NumType) (rg : NumRange) : List RawNum → Option (List Num)
  | [] => some []
  | x :: xs => match numSchema t rg x, numListSchema t rg xs with
    | some v, some vs => some (v :: vs)
    | _, _ => none

/-! ### option lists  (`Setting._setSchema`, `Setting.addOptions`, `setting.Option` contributed by plugins) -/

/-- `Setting._setSchema` for a setting without a custom schema: `vol.In(options)` when the setting enforces its options AND
the list is non-empty at the time the schema is derived, otherwise the type coercion `fallback` (`vol.Coerce(type(default))`,
a parameter); `none` = `vol.Invalid` -/
def optSchema [DecidableEq V] (enforced : Bool) (options : List V) (fallback : V → Option V) (raw : V) : Option V :=
  if enforced && !options.isEmpty then (if options.contains raw then some raw else none) else fallback raw

/-- `Setting.addOptions`: `self.options.extend(...)` followed by `_setSchema()` — the schema is re-derived from the CURRENT
list, so the next assignment is judged by `optSchema enforced (addOptions options new)` -/
def addOptions (options new : List V) : List V := options ++ new

/-- a schema derived ONCE from the list as it was and never re-derived (what is left when `addOptions` forgets `_setSchema`):
`vol.In` shares the list object, so additions are seen only if the list was non-empty when the schema was built -/
def staleOptSchema [DecidableEq V] (enforced : Bool) (atDerivation current : List V) (fallback : V → Option V) (raw : V) :
    Option V :=
  if enforced && !atDerivation.isEmpty then (if current.contains raw then some raw else none) else fallback raw

end ArmiVerif.Settings
