/-
Model of fuel shuffling at assembly level (C14).  Core Lean only.
Transcribes
  armi/physics/fuelCycle/fuelHandlers.py  FuelHandler.swapAssemblies / _transferStationaryBlocks /
                                           swapCascade / dischargeSwap
  armi/reactor/cores.py                    Core.add (statement order kept) / Core.removeAssembly /
                                           _removeListFromAuxiliaries
  armi/reactor/assemblies.py               Assembly.moveTo (sets `childrenByLocator[locator] = self`, no pop)
  armi/reactor/composites.py               Composite.add / remove / insert
Objects are identified by numbers handed out by the harness (object identity); the three lookup
tables are functions (dict get): `byLoc cell = some id`, `byName id`, `bbn blockId` (registered or not).
Names are NOT modelled as strings: a table entry is identified with the object it returns
(the renaming done by `Assembly.renumber` for fresh assemblies is observed by the harness oracle only).
-/
namespace ArmiVerif.Shuffle

abbrev Cell := Int × Int

structure Blk where
  bid : Nat
  /-- has one of the `stationaryBlockFlags` -/
  stat : Bool
deriving DecidableEq, Repr

structure Asm where
  id : Nat
  blocks : List Blk
deriving DecidableEq, Repr

structure St where
  /-- `core._children` in order, each with the cell of its `spatialLocator` -/
  core : List (Asm × Cell)
  /-- `core.childrenByLocator.get(grid[cell])` -/
  byLoc : Cell → Option Nat
  /-- `name in core.assembliesByName` (by object) -/
  byName : Nat → Bool
  /-- block object registered in `core.blocksByName` -/
  bbn : Nat → Bool
  /-- `sfp._children` in order -/
  sfp : List Asm
  /-- `core._trackAssems` (and an SFP exists) -/
  track : Bool

def setLoc (f : Cell → Option Nat) (c : Cell) (v : Nat) : Cell → Option Nat :=
  fun x => if x = c then some v else f x
def popLoc (f : Cell → Option Nat) (c : Cell) : Cell → Option Nat :=
  fun x => if x = c then none else f x
def setKey (f : Nat → Bool) (k : Nat) (v : Bool) : Nat → Bool := fun x => if x = k then v else f x
def setKeys (f : Nat → Bool) (ks : List Nat) (v : Bool) : Nat → Bool := fun x => if x ∈ ks then v else f x

/-- positions (k index) of the stationary blocks -/
def statIdx (a : Asm) : List Nat :=
  (a.blocks.zipIdx.filter (fun p => p.1.stat)).map (·.2)

/-- position-wise exchange of the stationary blocks of two block lists (`assembly.remove` + `assembly.insert` at the
same index, pair by pair): where the first list has a stationary block the two blocks of that axial position trade
places. Under the guard of `transfer` (same stationary positions) that is also where the second list has one. -/
def xchg : List Blk → List Blk → List Blk × List Blk
  | x :: xs, y :: ys =>
    let r := xchg xs ys
    if x.stat then (y :: r.1, x :: r.2) else (x :: r.1, y :: r.2)
  | xs, [] => (xs, [])
  | [], ys => ([], ys)

/-- `_transferStationaryBlocks`: `none` = ValueError (different number / positions), nothing mutated.
Otherwise the stationary blocks are exchanged position by position. -/
def transfer (a1 a2 : Asm) : Option (Asm × Asm) :=
  if statIdx a1 ≠ statIdx a2 then none
  else
    some ({ a1 with blocks := (xchg a1.blocks a2.blocks).1 }, { a2 with blocks := (xchg a1.blocks a2.blocks).2 })

def cellOf (s : St) (id : Nat) : Option Cell := (s.core.find? (fun p => p.1.id = id)).map (·.2)
def asmOf (s : St) (id : Nat) : Option Asm := (s.core.find? (fun p => p.1.id = id)).map (·.1)

/-- replace assembly payload / cell of the child with identity `id` (child order unchanged) -/
def updCore (core : List (Asm × Cell)) (id : Nat) (a : Asm) (c : Cell) : List (Asm × Cell) :=
  core.map (fun p => if p.1.id = id then (a, c) else p)

/-- body of `swapAssemblies` for two different assemblies: stationary exchange, then the two `moveTo` -/
def swapCore (s : St) (i1 i2 : Nat) : Option St :=
  match s.core.find? (fun p => p.1.id = i1), s.core.find? (fun p => p.1.id = i2) with
  | some (a1, c1), some (a2, c2) =>
    match transfer a1 a2 with
    | none => none
    | some (a1', a2') =>
      -- a1.moveTo(a2.spatialLocator); a2.moveTo(oldA1Location)
      let core1 := updCore s.core i1 a1' c2
      let byLoc1 := setLoc s.byLoc c2 i1
      let core2 := updCore core1 i2 a2' c1
      let byLoc2 := setLoc byLoc1 c1 i2
      some { s with core := core2, byLoc := byLoc2 }
  | _, _ => none

/-- `FuelHandler.swapAssemblies(a1, a2)` for two core assemblies. `none` = raised (state unchanged). A swap of an
assembly with itself is skipped with a warning (fix: `if a1 is a2: return`), whatever its blocks. -/
def swap (s : St) (i1 i2 : Nat) : Option St :=
  if i1 = i2 then some s else swapCore s i1 i2

/-- loop of `swapCascade`: swap(list[0], list[k]) for k = 1.. ; a raising swap aborts the loop and the swaps
already done stay done (second component: raised) -/
def cascadeLoop (a0 : Nat) : St → List Nat → St × Bool
  | s, [] => (s, false)
  | s, ak :: rest =>
    match swap s a0 ak with
    | none => (s, true)
    | some s' => cascadeLoop a0 s' rest

/-- `swapCascade(assemList)` -/
def cascade (s : St) : List Nat → St × Bool
  | [] => (s, false)
  | a0 :: rest => cascadeLoop a0 s rest

/-- `swapCascade(assemList)` with `None` levels (a `findAssembly` miss): a `None` level is skipped
("Skipping level ... because it is None"); a `None` first entry makes every `swapAssemblies(None, x)` a no-op. So the
cascade is the cascade of its non-`None` entries. -/
def cascadeOpt (s : St) : List (Option Nat) → St × Bool
  | [] => (s, false)
  | none :: _ => (s, false)
  | some a0 :: rest => cascadeLoop a0 s (rest.filterMap id)

/-- `Core.removeAssembly(a, discharge)`; `none` = KeyError (not in childrenByLocator) -/
def removeAssembly (s : St) (id : Nat) (discharge : Bool) : Option St :=
  match s.core.find? (fun p => p.1.id = id) with
  | none => none
  | some (a, c) =>
    if s.byLoc c = none then none else
    let s1 := { s with byLoc := popLoc s.byLoc c, core := s.core.filter (fun p => p.1.id ≠ id) }
    if discharge && s.track then some { s1 with sfp := s1.sfp ++ [a] }
    else some { s1 with byName := setKey s1.byName id false,
                        bbn := setKeys s1.bbn (a.blocks.map (·.bid)) false }

/-- outcome of `Core.add`: the state left behind, and whether it raised -/
structure AddOut where
  st : St
  raised : Bool

/-- `Core.add(a, grid[cell])` in the code's statement order (after fix f30dfba): the occupied-location test
comes BEFORE `Composite.add`, so a refused assembly leaves the core as it was. `Composite.add` itself refuses
an object that is already a child. -/
def coreAdd (s : St) (a : Asm) (c : Cell) : AddOut :=
  -- both refusals leave `s` untouched, so the order of the two tests is immaterial here
  if s.core.any (fun p => p.1.id = a.id) then ⟨s, true⟩          -- Composite.add: already a child
  else
    let s1 := { s with core := s.core ++ [(a, c)] }
    if (s.byLoc c).isSome then ⟨s, true⟩                          -- ValueError: location filled (tested first)
    else
      ⟨{ s1 with byLoc := setLoc s.byLoc c a.id, byName := setKey s.byName a.id true,
                 bbn := setKeys s.bbn (a.blocks.map (·.bid)) true }, false⟩

/-- state after `_transferStationaryBlocks(incoming, outgoing)`: payloads of the two assemblies replaced -/
def xfer (s : St) (outId : Nat) (out' : Asm) (c : Cell) (incId : Nat) (inc' : Asm) : St :=
  { s with core := updCore s.core outId out' c,
           sfp := s.sfp.map (fun a => if a.id = incId then inc' else a) }

/-- `sfp.remove(incoming)` if it is there, then `core.add(incoming, loc)`; `none` = the add raised -/
def putIn (s1 : St) (incId : Nat) (inc' : Asm) (c : Cell) : Option St :=
  let r := coreAdd { s1 with sfp := s1.sfp.filter (fun a => a.id ≠ incId) } inc' c
  if r.raised then none else some r.st

/-- `FuelHandler.dischargeSwap(incoming, outgoing)`; incoming is either a fresh assembly or one in the pool. -/
def dischargeSwap (s : St) (incoming : Asm) (outId : Nat) : Option St :=
  match s.core.find? (fun p => p.1.id = outId) with
  | none => none
  | some (out, c) =>
    match transfer incoming out with
    | none => none
    | some (inc', out') =>
      (removeAssembly (xfer s outId out' c incoming.id inc') outId true).bind
        (fun s1 => putIn s1 incoming.id inc' c)

/-- `incoming.renumber(...); blocksByName.update((b.getName(), b) for b in incoming)` (object level: the blocks of
the fresh assembly become registered) -/
def preReg (s : St) (a : Asm) : St := { s with bbn := setKeys s.bbn (a.blocks.map (·.bid)) true }

/-- `dischargeSwap` with a FRESH incoming assembly (placeholder number, fix 2acbfbd): it is renumbered and its
blocks are entered in `blocksByName` BEFORE the stationary exchange; then as above. Second component: the call
raised (the registration done before stays). -/
def dischargeSwapFresh (s : St) (incoming : Asm) (outId : Nat) : St × Bool :=
  match dischargeSwap (preReg s incoming) incoming outId with
  | some s' => (s', false)
  | none => (preReg s incoming, true)

/-- a consistent start state: the tables are the ones `Core.add` built while the reactor was loaded -/
def initSt (ks : List (Asm × Cell)) (sf : List Asm) (track : Bool) : St :=
  ⟨ks, fun c => (ks.find? (fun p => p.2 = c)).map (·.1.id),
   fun i => (ks.map (·.1) ++ sf).any (fun a => a.id = i),
   fun b => (ks.map (·.1) ++ sf).any (fun a => a.blocks.any (fun x => x.bid = b)), sf, track⟩

/-! ### operation histories -/

inductive Op
  | swap (i j : Nat)
  | cascade (l : List Nat)
  /-- dischargeSwap with a fresh incoming assembly -/
  | dnew (a : Asm) (out : Nat)
  /-- dischargeSwap with the pooled assembly `inc` -/
  | dsfp (inc out : Nat)
  | remove (i : Nat) (discharge : Bool)
  | add (a : Asm) (c : Cell)

/-- one operation; a call the code refuses (`none`) leaves the state as it was; a refused swap inside a cascade
stops the cascade; a refused fresh discharge keeps the block names registered before the exchange -/
def step (s : St) : Op → St
  | .swap i j => (swap s i j).getD s
  | .cascade l => (cascade s l).1
  | .dnew a o => (dischargeSwapFresh s a o).1
  | .dsfp i o =>
    match s.sfp.find? (fun a => a.id = i) with
    | some a => (dischargeSwap s a o).getD s
    | none => s
  | .remove i d => (removeAssembly s i d).getD s
  | .add a c => (coreAdd s a c).st

def run (s : St) (ops : List Op) : St := ops.foldl step s


/-! ### names (assembly name from `assemNum`, block names from assembly number + axial index)

A small name-level layer beside the identity-level model above: `Assembly.renumber` /
`renameBlocksAccordingToAssemblyNum` / `makeUnique` (a random NEGATIVE placeholder number), the name-keyed
dictionaries `assembliesByName` / `blocksByName`, `Core.add`'s registration (after renumbering a placeholder),
`_removeListFromAuxiliaries` (delete by CURRENT name, `KeyError` for a block swallowed). -/

structure NBlk where
  bid : Nat
  /-- `b.name` = `B<assemNum>-<axial index>` as (number, index) -/
  name : Int × Nat
  stat : Bool
deriving DecidableEq, Repr

structure NAsm where
  id : Nat
  /-- `a.p.assemNum`; the name is `A<num>` -/
  num : Int
  blocks : List NBlk
deriving DecidableEq, Repr

structure NSt where
  /-- `core.assembliesByName`: name ↦ object -/
  byName : Int → Option Nat
  /-- `core.blocksByName`: name ↦ object -/
  bbn : Int × Nat → Option Nat
  /-- `r.p.maxAssemNum` -/
  next : Int

/-- `Assembly.renumber(n)`: new name, every block renamed by its axial index -/
def renumber (a : NAsm) (n : Int) : NAsm :=
  { a with num := n, blocks := a.blocks.zipIdx.map (fun p => { p.1 with name := (n, p.2) }) }

/-- `for b in a: blocksByName[b.getName()] = b` (later writes win) -/
def regBlocks (f : Int × Nat → Option Nat) (bs : List NBlk) : Int × Nat → Option Nat :=
  fun x => match bs.reverse.find? (fun b => b.name = x) with
    | some b => some b.bid
    | none => f x

/-- `Core.add` at name level: renumber a placeholder, then register the assembly and its blocks -/
def nCoreAdd (s : NSt) (a : NAsm) : NSt × NAsm :=
  let a1 := if a.num < 0 then renumber a s.next else a
  let nx := if a.num < 0 then s.next + 1 else s.next
  ({ byName := fun n => if n = a1.num then some a1.id else s.byName n,
     bbn := regBlocks s.bbn a1.blocks, next := nx }, a1)

/-- `_removeListFromAuxiliaries`: delete the assembly's name and the CURRENT names of the blocks it holds -/
def nPurge (s : NSt) (a : NAsm) : NSt :=
  { s with byName := fun n => if n = a.num then none else s.byName n,
           bbn := fun x => if a.blocks.any (fun b => b.name = x) then none else s.bbn x }

/-- `_transferStationaryBlocks` at name level: block objects (with their names) change assembly -/
def nTransfer (a1 a2 : NAsm) : NAsm × NAsm :=
  ({ a1 with blocks := a1.blocks.zipIdx.map (fun p => if p.1.stat then a2.blocks.getD p.2 p.1 else p.1) },
   { a2 with blocks := a2.blocks.zipIdx.map (fun p => if p.1.stat then a1.blocks.getD p.2 p.1 else p.1) })

/-- the code BEFORE fix 2acbfbd: exchange first, `Core.add` renumbers afterwards (kept for the witnesses of the two
former findings) -/
def nDischargeOld (s : NSt) (incoming out : NAsm) (track : Bool) : NSt × NAsm × NAsm :=
  let (inc', out') := nTransfer incoming out
  let s1 := if track then s else nPurge s out'
  let (s2, inc'') := nCoreAdd s1 inc'
  (s2, inc'', out')

/-- `incoming.renumber(r.incrementAssemNum()); blocksByName.update(...)` of `dischargeSwap` for a placeholder number -/
def nPrepare (s : NSt) (a : NAsm) : NSt × NAsm :=
  if a.num < 0 then
    let a1 := renumber a s.next
    ({ s with bbn := regBlocks s.bbn a1.blocks, next := s.next + 1 }, a1)
  else (s, a)

/-- `dischargeSwap(fresh incoming, outgoing)` at name level (fixed order): number and register the incoming
assembly's blocks, exchange, outgoing leaves (pooled: tables untouched; purged: current names deleted), incoming added
(`Core.add` no longer renumbers). Returns the tables, the incoming and the outgoing assembly afterwards. -/
def nDischarge (s : NSt) (incoming out : NAsm) (track : Bool) : NSt × NAsm × NAsm :=
  let (s0, inc0) := nPrepare s incoming
  let (inc', out') := nTransfer inc0 out
  let s1 := if track then s0 else nPurge s0 out'
  let (s2, inc'') := nCoreAdd s1 inc'
  (s2, inc'', out')

/-! ### `SpentFuelPool._getNextLocation` (where a discharged assembly is dropped when no location is given) -/

/-- the pool cell with running index `idx` in a pool with `nc` columns: `j = idx // nc`, `i = idx % nc` -/
def poolCell (nc idx : Nat) : Int × Int := ((idx % nc : Nat), (idx / nc : Nat))

/-- `for idx in itertools.count(): ... if loc not in filledLocations: return loc`, searched up to `fuel` indices
from `idx` on (the loop always ends within `len(filled) + 1` steps, `Props/C14.sfpNext_free`) -/
def sfpSearch (nc : Nat) (filled : List (Int × Int)) : Nat → Nat → Option (Int × Int)
  | 0, _ => none
  | fuel + 1, idx =>
    if poolCell nc idx ∈ filled then sfpSearch nc filled fuel (idx + 1) else some (poolCell nc idx)

/-- `SpentFuelPool._getNextLocation()` with `filled` = the (i, j) of the assemblies in the pool -/
def sfpNext (nc : Nat) (filled : List (Int × Int)) : Option (Int × Int) :=
  if nc = 0 then none   -- `idx // self.numColumns`: ZeroDivisionError
  else sfpSearch nc filled (filled.length + 1) 0

end ArmiVerif.Shuffle
