/-
Model of the snapshot store of armi/bookkeeping/db/database.py (`Database`), of the database
interface's reactions to the run's events (databaseInterface.py, mainInterface.py) and of the
error path (`Operator.__exit__` → `interactAllError` → `DatabaseInterface.interactError`).
Core Lean only.  The run itself is `Schedule.run` (property C15).
-/
import ArmiVerif.Model.Schedule

namespace ArmiVerif.SnapStore
open ArmiVerif.Schedule

/-- one snapshot is stored per (cycle, node, label) -/
structure Key where
  cycle : Nat
  node : Nat
  label : List Nat      -- the label's characters as Unicode code points ("" = [])
  deriving DecidableEq, Repr, Inhabited

/-- the part of the reactor state that is followed: object serial number ↦ value of one
parameter (`none` = never set, reads back as the default) -/
abbrev Objs := List (Nat × Option Int)

/-- what a snapshot holds: `r.p.cycle`, `r.p.timeNode` and the objects' values at the write, and
the group's `cycle` / `timeNode` attributes (set when the group is created; what
`getHistories` keys its values by) -/
structure Snap where
  cycle : Nat
  node : Nat
  objs : Objs
  acycle : Nat := cycle
  anode : Nat := node
  deriving DecidableEq, Repr, Inhabited

/-- `Database`: the HDF5 groups (in creation order), the `successfulCompletion` attribute,
whether the file sits in the working directory (after `close`) or still in the fast path, and
whether it is open -/
structure Store where
  groups : List (Key × Snap)
  success : Bool
  inWork : Bool
  isOpen : Bool
  deriving DecidableEq, Repr, Inhabited

/-- decimal digits of `n` as code points, most significant first (first argument: fuel ≥ number of digits) -/
def decCodes : Nat → Nat → List Nat
  | 0, _ => []
  | f + 1, n => if n < 10 then [48 + n] else decCodes f (n / 10) ++ [48 + n % 10]

/-- `"{:0>2}".format(n)` as code points: two digits below 100, the plain decimal rendering above -/
def pad2 (n : Nat) : List Nat :=
  if n < 100 then [48 + n / 10, 48 + n % 10] else decCodes (n + 1) n

/-- `getH5GroupName(cycle, timeNode, statePointName)` = `"c{:0>2}n{:0>2}{}"`, as the list of code
points of the name ('c' = 99, 'n' = 110). Python compares and sorts `str` by code point, i.e. by
the lexicographic order of these lists. -/
def name (k : Key) : List Nat := 99 :: (pad2 k.cycle ++ 110 :: (pad2 k.node ++ k.label))

def digit? (c : Nat) : Option Nat := if 48 ≤ c ∧ c ≤ 57 then some (c - 48) else none

/-- `timeNodeGroupPattern = ^c(\d\d)n(\d\d).*$` → (int(group 1), int(group 2)) -/
def parseName (s : List Nat) : Option (Nat × Nat) :=
  match s with
  | 99 :: a :: b :: 110 :: d :: e :: _ =>
    match digit? a, digit? b, digit? d, digit? e with
    | some a, some b, some d, some e => some (10 * a + b, 10 * d + e)
    | _, _, _, _ => none
  | _ => none

/-- insertion into a list sorted by `le` -/
def insSorted {α} (le : α → α → Bool) (a : α) : List α → List α
  | [] => [a]
  | b :: l => if le a b then a :: b :: l else b :: insSorted le a l

/-- `sorted(...)` (insertion sort; group names are unique, so stability is immaterial) -/
def isort {α} (le : α → α → Bool) : List α → List α
  | [] => []
  | a :: l => insSorted le a (isort le l)

/-- `Database.open()` with permission "w": a fresh file in the fast path, marked unsuccessful -/
def openW : Store := { groups := [], success := false, inWork := false, isOpen := true }

def hasKey (s : Store) (k : Key) : Bool := s.groups.any (fun g => name g.1 == name k)

/-- `Database.writeToDB(reactor, statePointName)`: a new group named after the reactor's current
(cycle, node) and the label; refused (`none`) if the group already holds a snapshot or the
database is closed -/
def write (s : Store) (r : Snap) (label : List Nat) : Option Store :=
  let k : Key := ⟨r.cycle, r.node, label⟩
  if !s.isOpen || hasKey s k then none
  else some { s with groups := s.groups ++ [(k, r)] }

/-- `Database.load(cycle, node, statePointName)` -/
def load (s : Store) (k : Key) : Option Snap :=
  (s.groups.find? (fun g => name g.1 == name k)).map (·.2)

/-- `Database.__delitem__((cycle, node, label))`: `del self.h5db[getH5GroupName(cycle, node, label)]` — exactly the group of
that name goes (`none` = KeyError: no such group, or the database is closed) -/
def delete (s : Store) (k : Key) : Option Store :=
  if !s.isOpen || !hasKey s k then none
  else some { s with groups := s.groups.filter (fun g => name g.1 != name k) }

/-- groups in the order `sorted(h5db.keys())` gives (Python compares `str` by code point) -/
def nameLe (a b : Key × Snap) : Bool := decide (name a.1 ≤ name b.1)

def sortedGroups (s : Store) : List (Key × Snap) := isort nameLe s.groups

/-- `Database.genTimeSteps()` -/
def steps (s : Store) : List (Nat × Nat) :=
  (sortedGroups s).filterMap (fun g => parseName (name g.1))

/-- insert-or-replace in an ordered dictionary (a replaced key keeps its position) -/
def odSet {α} (d : List ((Nat × Nat) × α)) (k : Nat × Nat) (v : α) : List ((Nat × Nat) × α) :=
  if d.any (fun e => e.1 == k) then d.map (fun e => if e.1 == k then (k, v) else e) else d ++ [(k, v)]

/-- `Database.getHistory(obj, [param])`: for each time-step group in sorted order that contains the
object (matched by serial number), the stored value or the default, keyed by the group's
(cycle, node) attributes; then the live value at the reactor's current step if that step is absent -/
def entries (s : Store) (serial : Nat) (dflt : Int) : List ((Nat × Nat) × Int) :=
  ((sortedGroups s).filter (fun g => (parseName (name g.1)).isSome)).filterMap
    (fun g => (g.2.objs.find? (fun o => o.1 == serial)).map
      (fun o => ((g.2.acycle, g.2.anode), o.2.getD dflt)))

/-- the part of a history that comes from the stored snapshots -/
def historyDb (s : Store) (serial : Nat) (dflt : Int) : List ((Nat × Nat) × Int) :=
  (entries s serial dflt).foldl (fun d e => odSet d e.1 e.2) []

def history (s : Store) (serial : Nat) (dflt : Int) (current : Snap) : List ((Nat × Nat) × Int) :=
  let fromDb := historyDb s serial dflt
  if fromDb.isEmpty then []     -- no stored step holds the object: nothing is reported, not even the live value
  else if fromDb.any (fun e => e.1 == (current.cycle, current.node)) then fromDb
  else match current.objs.find? (fun o => o.1 == serial) with
    | some o => fromDb ++ [((current.cycle, current.node), o.2.getD dflt)]
    | none => fromDb

/-! ### parameter datasets: which parameters a snapshot stores, and histories over selected steps × parameters

`Database._writeParams` writes one dataset per parameter definition returned by
`ParameterDefinitionCollection.toWriteToDB()`: the definitions whose CLASS-LEVEL `assigned` flag is set, i.e. the
parameters that were assigned on SOME object of that type at some time in the process. A parameter nobody has
assigned yet has no dataset in that snapshot. `Database.getHistories(comps, params, timeSteps)` must nevertheless
report it for that step — with the default, which is what loading the snapshot yields.
One object type (one `h5GroupForType`) is modelled; the types are handled by independent loop iterations. -/

/-- the parameter side of the process state for one object type: the parameter ids whose class-level `assigned`
flag is set, the values of the (object serial number, parameter id) pairs that were assigned, and the clock -/
structure PState where
  assigned : List Nat
  live : List ((Nat × Nat) × Int)
  cycle : Nat
  node : Nat
  deriving DecidableEq, Repr, Inhabited

/-- `c.p[param]` / `c.p.get(param, default)`: the value, or the parameter's default if unset on that object -/
def PState.get (st : PState) (dflt : Nat → Int) (sn p : Nat) : Int := (st.live.lookup (sn, p)).getD (dflt p)

/-- the parameter setter (`paramSetter`): `self.assigned = SINCE_ANYTHING` on the DEFINITION, then the value on the object -/
def PState.assign (st : PState) (sn p : Nat) (v : Int) : PState :=
  { st with assigned := if st.assigned.contains p then st.assigned else st.assigned ++ [p],
            live := ((sn, p), v) :: st.live }

/-- one snapshot of the type: `layout.serialNum` of its objects (row order) and one dataset per stored parameter -/
structure PSnap where
  cycle : Nat
  node : Nat
  layout : List Nat
  data : List (Nat × List Int)
  /-- `layout.location` of the rows (a location = a number; row i of `layout` sits at `locs[i]`) -/
  locs : List Nat := []
  deriving DecidableEq, Repr, Inhabited

/-- `_writeParams`: `for paramDef in c.p.paramDefs.toWriteToDB(): temp = [c.p.get(paramDef.name, paramDef.default) for c in comps]` -/
def writeP (st : PState) (dflt : Nat → Int) (layout : List Nat) : PSnap :=
  { cycle := st.cycle, node := st.node, layout := layout,
    data := st.assigned.map (fun p => (p, layout.map (fun sn => st.get dflt sn p))) }

/-- `histData[c]`: parameter id ↦ OrderedDict (cycle, node) ↦ value (a `defaultdict(OrderedDict)`) -/
abbrev Hist := List (Nat × List ((Nat × Nat) × Int))

/-- `histData[c][paramName][cycle, timeNode] = val` -/
def setHist (h : Hist) (p : Nat) (k : Nat × Nat) (v : Int) : Hist :=
  if h.any (fun e => e.1 == p) then h.map (fun e => if e.1 == p then (p, odSet e.2 k v) else e)
  else h ++ [(p, odSet [] k v)]

/-- the value `getHistories` takes for row `idx` of parameter `p` in a group:
`elif paramName in h5GroupForType: data = dataSet[indexInData]` else "Nothing in the database, so use the default value" -/
def storedValue (g : PSnap) (idx p : Nat) (dflt : Nat → Int) : Int :=
  match g.data.lookup p with
  | some ds => ds.getD idx (dflt p)
  | none => dflt p

/-- the loop `for h5TimeNodeGroup in self.genTimeStepGroups(timeSteps)` of `Database.getHistories` for ONE object
(found in each layout by its serial number) and explicit `timeSteps` / `params`; `none` = KeyError
(`self.h5db[getH5GroupName(*step)]` for a step that was never written) -/
def histLoop (groups : List PSnap) (serial : Nat) (params : List Nat) (dflt : Nat → Int) :
    List (Nat × Nat) → Hist → Option Hist
  | [], acc => some acc
  | step :: rest, acc =>
    match groups.find? (fun g => (g.cycle, g.node) == step) with
    | none => none
    | some g =>
      match g.layout.idxOf? serial with
      | none => histLoop groups serial params dflt rest acc           -- `if not indexInData: continue`
      | some idx =>
        histLoop groups serial params dflt rest
          (params.foldl (fun a p => setHist a p (g.cycle, g.node) (storedValue g idx p dflt)) acc)

/-- the tail of `getHistories`: `if cycleNode not in hist: hist[cycleNode] = c.p[paramName]` for every parameter that has a history -/
def addLive (st : PState) (dflt : Nat → Int) (serial : Nat) (h : Hist) : Hist :=
  h.map (fun e => if e.2.any (fun x => x.1 == (st.cycle, st.node)) then e
                  else (e.1, e.2 ++ [((st.cycle, st.node), st.get dflt serial e.1)]))

/-- `Database.getHistory(comp, params, timeSteps)` = `getHistories([comp], params, timeSteps)[comp]` -/
def dbHistory (groups : List PSnap) (st : PState) (dflt : Nat → Int) (serial : Nat) (params : List Nat)
    (steps : List (Nat × Nat)) : Option Hist :=
  (histLoop groups serial params dflt steps []).map (addLive st dflt serial)

/-- `DatabaseInterface.getHistory(comp, params, timeSteps)`: the current step is taken out of the request
(`timeSteps.remove(now)`: the first occurrence), the database is asked for the rest, then
`history[param][now] = comp.p[param]` for every requested parameter -/
def dbiHistory (groups : List PSnap) (st : PState) (dflt : Nat → Int) (serial : Nat) (params : List Nat)
    (steps : List (Nat × Nat)) : Option Hist :=
  let now := (st.cycle, st.node)
  if steps.contains now then
    (dbHistory groups st dflt serial params (steps.erase now)).map
      (fun h => params.foldl (fun a p => setHist a p now (st.get dflt serial p)) h)
  else dbHistory groups st dflt serial params steps

/-- `genTimeStepGroups(None)`: all time-step groups in the order of their names — for cycle and node numbers below
100 (two digits each) the chronological order of the steps (`name_order_iff` in Props/C06) -/
def allSteps (groups : List PSnap) : List (Nat × Nat) :=
  isort (fun a b => decide (a.1 < b.1) || (a.1 == b.1 && decide (a.2 ≤ b.2))) (groups.map (fun g => (g.cycle, g.node)))

/-- `Database.getHistory(comp, params)` with `timeSteps=None`: the full history -/
def dbHistoryAll (groups : List PSnap) (st : PState) (dflt : Nat → Int) (serial : Nat) (params : List Nat) : Option Hist :=
  dbHistory groups st dflt serial params (allSteps groups)

/-- `DatabaseInterface.getHistory(comp, params)` with `timeSteps=None`: `nowRequested = True`, the database is asked for
everything, then `history[param][now] = comp.p[param]` (in place if the current step is stored) -/
def dbiHistoryAll (groups : List PSnap) (st : PState) (dflt : Nat → Int) (serial : Nat) (params : List Nat) : Option Hist :=
  (dbHistoryAll groups st dflt serial params).map
    (fun h => params.foldl (fun a p => setHist a p (st.cycle, st.node) (st.get dflt serial p)) h)

/-! #### histories by LOCATION (`getHistoriesByLocation`) -/

/-- `writeToDB` with the rows' locations recorded -/
def writePL (st : PState) (dflt : Nat → Int) (layout locs : List Nat) : PSnap :=
  { writeP st dflt layout with locs := locs }

/-- the snapshot seen by location: the row of a location instead of the row of a serial number -/
def byLoc (g : PSnap) : PSnap := { g with layout := g.locs }

/-- `Database.getHistoryByLocation(comp, params, timeSteps)` for the location `L` the object occupies now: in every requested
step the row whose LOCATION is `L` (whatever object sat there; no entry if the location was empty); no live value is added -/
def dbHistoryByLoc (groups : List PSnap) (dflt : Nat → Int) (L : Nat) (params : List Nat) (steps : List (Nat × Nat)) : Option Hist :=
  histLoop (groups.map byLoc) L params dflt steps []

/-- `DatabaseInterface.getHistory(comp, params, timeSteps, byLocation=True)`: the current step is taken out of the request and
answered with the live value of the object passed (`serial`), the rest by location -/
def dbiHistoryByLoc (groups : List PSnap) (st : PState) (dflt : Nat → Int) (L serial : Nat) (params : List Nat)
    (steps : List (Nat × Nat)) : Option Hist :=
  let now := (st.cycle, st.node)
  if steps.contains now then
    (dbHistoryByLoc groups dflt L params (steps.erase now)).map
      (fun h => params.foldl (fun a p => setHist a p now (st.get dflt serial p)) h)
  else dbHistoryByLoc groups dflt L params steps

/-- one time-step group of `getHistoriesByLocation` for SEVERAL requested locations `req` (in the caller's order): the rows
whose location is requested, IN LAYOUT ORDER, as (row, location) -/
def locRows (g : PSnap) (req : List Nat) : List (Nat × Nat) :=
  (g.locs.zipIdx.filter (fun x => req.contains x.1)).map (fun x => (x.2, x.1))

/-- `histData[locToComp[loc]][paramName][cycle, timeNode] = val` on a per-location table -/
def setLoc (t : List (Nat × Hist)) (L p : Nat) (k : Nat × Nat) (v : Int) : List (Nat × Hist) :=
  t.map (fun e => if e.1 == L then (L, setHist e.2 p k v) else e)

/-- the body of the time-step loop of `getHistoriesByLocation`: for each parameter `data = dataSet[rows]` (or the default
repeated), then `for loc, val in zip(objectLocationsInLayout, data)`: stored under the object AT THAT LOCATION — the values come
back in layout order, not in the order the objects were passed in -/
def locGroup (g : PSnap) (req params : List Nat) (dflt : Nat → Int) (t : List (Nat × Hist)) : List (Nat × Hist) :=
  params.foldl (fun a p =>
    (locRows g req).foldl (fun a r => setLoc a r.2 p (g.cycle, g.node) (storedValue g r.1 p dflt)) a) t

/-- `Database.getHistoriesByLocation(comps, params, timeSteps)`: one history per requested location (`none` = KeyError) -/
def locHistories (groups : List PSnap) (req params : List Nat) (dflt : Nat → Int) :
    List (Nat × Nat) → List (Nat × Hist) → Option (List (Nat × Hist))
  | [], t => some t
  | step :: rest, t =>
    match groups.find? (fun g => (g.cycle, g.node) == step) with
    | none => none
    | some g => locHistories groups req params dflt rest (locGroup g req params dflt t)

/-- `HistoryTrackerInterface.getBlockHistoryVal(name, paramName, ts)` without preloaded values: the live value if
`ts` is the current step and the database has no data for it, else `getHistory(block, [paramName], [ts])[paramName][ts]`
(`none` = KeyError) -/
def blockHistoryVal (groups : List PSnap) (st : PState) (dflt : Nat → Int) (serial p : Nat) (ts : Nat × Nat) : Option Int :=
  if ts == (st.cycle, st.node) && !(groups.any (fun g => (g.cycle, g.node) == ts)) then some (st.get dflt serial p)
  else match dbHistory groups st dflt serial [p] [ts] with
    | none => none
    | some h => ((h.lookup p).getD []).lookup ts

/-- Python tuple comparison `(cyc, tn) >= (startCycle, startNode)` -/
def atOrAfter (cn : Nat × Nat) (startCycle startNode : Nat) : Bool :=
  decide (startCycle < cn.1) || (cn.1 == startCycle && decide (startNode ≤ cn.2))

/-- the loop of `Database.mergeHistory(inputDB, startCycle, startNode)`: copy groups in sorted order
until the first one whose (cycle, node) is at or after the start step (`none`: the destination
refuses a copy) -/
def mergeLoop (startCycle startNode : Nat) : List (Key × Snap) → Store → Option Store
  | [], dst => some dst
  | g :: rest, dst =>
    match parseName (name g.1) with
    | none => mergeLoop startCycle startNode rest dst
    | some cn =>
      if atOrAfter cn startCycle startNode then some dst
      else if !dst.isOpen || hasKey dst g.1 then none
      else mergeLoop startCycle startNode rest { dst with groups := dst.groups ++ [g] }

def mergeHistory (dst src : Store) (startCycle startNode : Nat) : Option Store :=
  mergeLoop startCycle startNode (sortedGroups src) dst

/-- `Database.splitDatabase(keepTimeSteps, label)`: the database continues with only the unlabelled
snapshots of the kept steps, cycles renumbered from the least kept cycle — in the name, in
`Reactor/cycle` and in the group's `cycle` attribute (`none` = raises) -/
def splitCopy (s : Store) (minCycle : Nat) (cn : Nat × Nat) : Option (Key × Snap) :=
  (load s ⟨cn.1, cn.2, []⟩).map (fun snap =>
    ((⟨cn.1 - minCycle, cn.2, []⟩ : Key), { snap with cycle := cn.1 - minCycle, acycle := cn.1 - minCycle }))

/-- the checks `splitDatabase` makes BEFORE it closes and moves the file: a database is open, the
selection is not empty, every selected step has an unlabelled group, no step is selected twice -/
def splitValid (s : Store) (keep : List (Nat × Nat)) : Bool :=
  s.isOpen && !keep.isEmpty && keep.all (fun cn => hasKey s ⟨cn.1, cn.2, []⟩)
    && decide (keep.Nodup)

/-- the part of `splitDatabase` after the file was moved aside (`none` = it raises there) -/
def split (s : Store) (keep : List (Nat × Nat)) : Option Store :=
  if !splitValid s keep then none
  else if !(keep.all (fun cn => (steps s).contains cn)) then none
  else match (keep.map (·.1)).min? with
    | none => none
    | some minCycle =>
      if !(keep.all (fun cn => (splitCopy s minCycle cn).isSome)) then none
      else
        let gs := keep.filterMap (splitCopy s minCycle)
        if (gs.map (fun g => name g.1)).eraseDups.length != gs.length then none
        else some { s with groups := gs }

/-- the database after a `splitDatabase` call and whether it succeeded: a request that fails the
up-front validation is refused with the database untouched; a failure after the file was moved
(possible only with cycle/node numbers of 100 and above, whose names are not read back) leaves an
empty database -/
def splitOp (s : Store) (keep : List (Nat × Nat)) : Store × Bool :=
  if !splitValid s keep then (s, false)
  else match split s keep with
    | some s' => (s', true)
    | none => ({ s with groups := [] }, false)

/-- `Database.close(completedSuccessfully)`: set the attribute, move the file to the working directory -/
def close (s : Store) (ok : Bool) : Store :=
  if s.isOpen then { s with success := ok, inWork := true, isOpen := false } else s

/-- "error" -/
def errorLabel : List Nat := [101, 114, 114, 111, 114]
/-- "EOL" -/
def eolLabel : List Nat := [69, 79, 76]

/-- `DatabaseInterface.interactError()`: write an "error" snapshot of the current state (failures
swallowed) and close as unsuccessful -/
def interactError (s : Store) (r : Snap) : Store :=
  if !s.isOpen then s
  else close ((write s r errorLabel).getD s) false

/-! ### the database interface inside a run -/

/-- how the stack writes: `opener` is the interface whose BOL hook opens the database (main, when
it is present and the database interface is enabled; else the database interface itself) -/
structure DbCfg where
  cfg : Config
  opener : Nat
  stateAt : Nat → Objs        -- the followed state when the i-th hook call of the run starts
  /-- the database as the opening hook leaves it: fresh (`DatabaseInterface.initDB`), or — in a restart run, where
  `MainInterface.interactBOL` calls `initDB()` and then `prepRestartRun()` — with the history merged from the
  reload database (`restartStore`) -/
  opened : Store := openW

/-- `DatabaseInterface.prepRestartRun()` on the freshly opened database: `self._db.mergeHistory(inputDB, startCycle, startNode)`
(a refused merge leaves what `initDB` made) -/
def restartStore (src : Store) (startCycle startNode : Nat) : Store :=
  (mergeHistory openW src startCycle startNode).getD openW

/-- is this hook call a write of the current node by the database interface?
(`interactEveryNode` unless tight coupling is on; `writeDBEveryNode` from `_performTightCoupling`) -/
def isNodeWrite (d : DbCfg) (e : Event) : Bool :=
  e.iface == d.cfg.dbName &&
    ((e.hook == .EveryNode && !d.cfg.couplingOn) || e.hook == .DbWrite)

def isOpenEvent (d : DbCfg) (e : Event) : Bool := e.hook == .BOL && e.iface == d.opener
def isFinalEvent (d : DbCfg) (e : Event) : Bool := e.hook == .EOL && e.iface == d.cfg.dbName

/-- effect of the i-th hook call on the database (`none` = no database object yet);
the writer itself is assumed not to fail (the property excludes failures inside it) -/
def dbStep (d : DbCfg) (st : Option Store) (ie : Event × Nat) : Option Store :=
  let e := ie.1
  let snap : Snap := { cycle := e.rc, node := e.rn, objs := d.stateAt ie.2 }
  match st with
  | none =>
    if isOpenEvent d e then some d.opened
    else if e.hook == .BOL && e.iface == d.cfg.dbName then some d.opened   -- `if not self._db: self.initDB()`
    else none
  | some s =>
    if !s.isOpen then some s
    else if isNodeWrite d e then some { s with groups := s.groups ++ [(⟨e.rc, e.rn, []⟩, snap)] }
    else if isFinalEvent d e then
      some (close { s with groups := s.groups ++ [(⟨e.rc, e.rn, eolLabel⟩, snap)] } true)
    else some s

/-- the database after the first `n` hook calls of the run completed -/
def dbAfter (d : DbCfg) (n : Nat) : Option Store :=
  (((run d.cfg).take n).zipIdx).foldl (dbStep d) none

/-- the run aborts inside hook call number `n` (an exception leaves `with o:`): every interface's
`interactError` is called; the database interface snapshots the state at the failure -/
def fileAfterCrash (d : DbCfg) (n : Nat) : Option Store :=
  match (run d.cfg)[n]? with
  | none => dbAfter d n
  | some e => (dbAfter d n).map (fun s => interactError s { cycle := e.rc, node := e.rn, objs := d.stateAt n })

/-- the database after the complete run -/
def fileAfterRun (d : DbCfg) : Option Store := dbAfter d (run d.cfg).length

end ArmiVerif.SnapStore
