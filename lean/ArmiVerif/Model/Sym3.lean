/-
Model of armi/reactor/converters/geometryConverters.py
  ThirdCoreHexToFullCoreChanger.convert / restorePreviousGeometry / _scaleBlockVolIntegratedParams
  EdgeAssemblyChanger.addEdgeAssemblies / removeEdgeAssemblies
together with the parts of Core.add / Core.removeAssembly / Assembly.moveTo /
HexBlock.getSymmetryFactor they rely on (assembly level).  Core Lean only.

An assembly is (assemNum, cell, opaque payload id, orientation, additive quantities).
Additive quantities come in two kinds, exactly as in the code:
  * `geo`  - derived from geometry (mass of a nuclide, volume): value of the WHOLE hexagon;
             what the core reports is `geo / symmetryFactor` (HexBlock.getSymmetryFactor);
  * `par`  - stored volume-integrated block parameters (power, kgHM, ...; summed over the
             blocks of the assembly); they are rescaled explicitly by the converters
             (`_scaleBlockVolIntegratedParams`, `Assembly.scaleParamsToNewSymmetryFactor`).
The lookups `childrenByLocator` / `assembliesByName` are derived from `kids` here (they are
state of their own in Model/Shuffle.lean, C14); the harness compares the real tables with the
derived ones after every operation.
-/
import ArmiVerif.Model.Hex
namespace ArmiVerif.Sym3
open ArmiVerif.Hex

abbrev Cell := Int × Int

structure Assem where
  /-- `a.p.assemNum`; the name is `A%04d` of it -/
  id : Int
  cell : Cell
  /-- opaque payload identity: survives `copy.deepcopy`, never looked at by the converters -/
  src : Int
  /-- `b.p.orientation[2]` in degrees -/
  orient : Int
  geo : List Rat
  par : List Rat
deriving DecidableEq, Repr

structure State where
  /-- `core._children` in order -/
  kids : List Assem
  /-- `core.isFullCore` (otherwise third-core periodic) -/
  full : Bool
  /-- `r.p.maxAssemNum`: the number `incrementAssemNum` hands out next -/
  next : Int
  /-- the SINCE_LAST_GEOMETRY_TRANSFORMATION bit of the (assigned) volume-integrated parameter
  definitions: set by every `Core.add` / `Core.removeAssembly`, cleared at the end of
  `addEdgeAssemblies` (`resetAssignmentFlag`) -/
  flag : Bool
  /-- `ThirdCoreHexToFullCoreChanger._newAssembliesAdded` (assembly numbers) -/
  convAdded : List Int
  /-- `bool(changer.listOfVolIntegratedParamsToScale)` -/
  convList : Bool
  /-- `EdgeAssemblyChanger._newAssembliesAdded` -/
  edgeAdded : List Int
deriving DecidableEq, Repr

/-- `overlapsWhichSymmetryLine(...) == BOUNDARY_0_DEGREES` -/
def on0 (c : Cell) : Bool := decide (c.1 > 0 ∧ c.1 = -2 * c.2)
/-- `overlapsWhichSymmetryLine(...) == BOUNDARY_120_DEGREES` (the ladder reaches this branch only
when the centre / 0° / 60° tests failed; those are disjoint from it) -/
def on120 (c : Cell) : Bool := decide (c.2 = -2 * c.1 ∧ c.2 > 0)

def isCentre (c : Cell) : Bool := decide (c.1 = 0 ∧ c.2 = 0)

/-- the first third of the hexagon WITHOUT the top (120°) edge, in index form:
centre, or  i + 2j ≥ 0 ∧ 2i + j > 0  (tie: `Props/C13.inFirstThird_false_iff`, harness exhaustive) -/
def sector (c : Cell) : Bool := isCentre c || decide (c.1 + 2 * c.2 ≥ 0 ∧ 2 * c.1 + c.2 > 0)

/-- `HexGrid.locatorInDomain(loc, symmetryOverlap=True)` on a third-core grid -/
def inDomain (c : Cell) : Bool := sector c || on120 c

def occupied (kids : List Assem) (c : Cell) : Bool := kids.any (fun a => a.cell = c)

/-- `HexBlock.getSymmetryFactor` of an assembly sitting at `c` in a core with children `kids` -/
def symF (full : Bool) (kids : List Assem) (c : Cell) : Rat :=
  if full then 1
  else if isCentre c then 3
  else if (on0 c || on120 c) && occupied kids (-1, 2) then 2
  else 1

/-- what the core reports for geometric quantity `k`: Σ geo_k / symmetry factor
(`Core.getMass(nuclide)`, `getVolume`) -/
def geoTotal (s : State) (k : Nat) : Rat :=
  (s.kids.map (fun a => a.geo.getD k 0 / symF s.full s.kids a.cell)).sum

/-- Σ of stored volume-integrated parameter `k` (`calcTotalParam` / Σ b.p[name]) -/
def parTotal (kids : List Assem) (k : Nat) : Rat := (kids.map (fun a => a.par.getD k 0)).sum

/-! ### sorting used by the code -/

/-- `sorted(core)`: ArmiObject.__lt__ compares `(k, j, i)` tuples -/
def leJI (a b : Assem) : Bool :=
  decide (a.cell.2 < b.cell.2 ∨ (a.cell.2 = b.cell.2 ∧ a.cell.1 ≤ b.cell.1))

/-- sort key of `getAssembliesOnSymmetryLine`: ring/pos; on the 0° line cells are (2m, −m), ring 2m+1 -/
def leI (a b : Assem) : Bool := decide (a.cell.1 ≤ b.cell.1)

/-! ### EdgeAssemblyChanger -/

/-- `removeEdgeAssemblies` without the final `self.reset()` -/
def removeEdgeCore (s : State) : State :=
  if s.full then s else
  { s with kids := s.kids.filter (fun a => !on120 a.cell),
           flag := s.flag || s.kids.any (fun a => on120 a.cell) }

/-- `EdgeAssemblyChanger.removeEdgeAssemblies(core)` (the early return on a full core skips `reset`) -/
def removeEdge (s : State) : State :=
  if s.full then s else { removeEdgeCore s with edgeAdded := [] }

/-- loop `for a in assembliesOnUpperBoundary` of `addEdgeAssemblies`; `lower` are the (sorted)
assemblies on the 0° line whose deep copies are placed at the first symmetric image.
`Core.add` → `Assembly.moveTo` rescales the copy's stored parameters by old/new symmetry factor,
old = 1 (detached copy), new evaluated after the copy sits in `childrenByLocator` (`placeEdge`). -/
def placeEdge (s : State) (a : Assem) (loc : Cell) : State :=
  let placed : Assem := { a with id := s.next, cell := loc }
  let f := symF s.full (s.kids ++ [placed]) loc
  let placed' : Assem := { placed with par := placed.par.map (fun x => x * (1 / f)) }
  { s with kids := s.kids ++ [placed'], next := s.next + 1, flag := true,
           edgeAdded := s.edgeAdded ++ [s.next] }

def addEdgeLoop : List Assem → State → State
  | [], s => s
  | a :: rest, s =>
    match sym3 a.cell with
    | [] => addEdgeLoop rest s
    | loc :: _ =>
      if occupied s.kids loc then addEdgeLoop rest s
      else addEdgeLoop rest (placeEdge s a loc)

/-- `EdgeAssemblyChanger.addEdgeAssemblies(core)` -/
def addEdge (s : State) : State :=
  if s.full then s
  else if !s.edgeAdded.isEmpty then s
  else
    let lower := (s.kids.filter (fun a => on0 a.cell)).mergeSort leI
    { addEdgeLoop lower s with flag := false }

/-! ### ThirdCoreHexToFullCoreChanger -/

/-- inner loop `for i, j in otherLocs` of `convert`: deep copy, `makeUnique`, `rotate(count·2π/3)`,
`core.add(copy, grid[i, j, 0])` which renumbers the copy with the next assembly number.
(Full-core symmetry is already set: symmetry factor 1 before and after, no parameter rescaling.) -/
def mkCopies (a : Assem) : Int → Int → List Cell → List Assem
  | _, _, [] => []
  | n, count, c :: cs =>
    { a with id := n, cell := c, orient := a.orient + count * 120 } :: mkCopies a (n + 1) (count + 1) cs

structure LoopOut where
  copies : List Assem
  next : Int
  flag : Bool
  convList : Bool
  /-- the centre assembly's parameters were multiplied by 3 -/
  scaled : Bool
deriving Repr

/-- outer loop `for a in core.getAssemblies()` of `convert` -/
def convLoop : List Assem → Int → Bool → Bool → LoopOut
  | [], n, f, cl => ⟨[], n, f, cl, false⟩
  | a :: rest, n, f, cl =>
    let cs := mkCopies a n 1 (sym3 a.cell)
    let n1 := n + cs.length
    let f1 := f || !cs.isEmpty
    if isCentre a.cell then
      -- `if not self.listOfVolIntegratedParamsToScale:` populate from the flagged definitions
      let cl1 := cl || f1
      let r := convLoop rest n1 f1 cl1
      { r with copies := cs ++ r.copies, scaled := cl1 || r.scaled }
    else
      let r := convLoop rest n1 f1 cl
      { r with copies := cs ++ r.copies }

def scalePar (q : Rat) (a : Assem) : Assem := { a with par := a.par.map (fun x => x * q) }

/-- `ThirdCoreHexToFullCoreChanger.convert(r)` (input symmetry third periodic or full) -/
def convert (s : State) : State :=
  if s.full then s else
  let s1 := removeEdgeCore s
  let out := convLoop (s1.kids.mergeSort leJI) s1.next s1.flag s1.convList
  { s1 with
    kids := s1.kids.map (fun a => if isCentre a.cell && out.scaled then scalePar 3 a else a) ++ out.copies,
    full := true, next := out.next, flag := out.flag, convList := out.convList,
    convAdded := s1.convAdded ++ out.copies.map (·.id) }

/-- some `Core.add` inside `convert` would have found its target cell occupied (ValueError) -/
def convertCollides (s : State) : Bool :=
  !s.full && decide (¬ ((convert s).kids.map (·.cell)).Nodup)

/-- `restorePreviousGeometry(r)` (after the fix `if a is not None`: a core without centre assembly has nothing
to rescale; the changer is reset in every case). -/
def restore (s : State) : State :=
  if !s.convAdded.isEmpty then
    let kids1 := s.kids.filter (fun a => !s.convAdded.contains a.id)
    { s with kids := kids1.map (fun a => if isCentre a.cell && s.convList then scalePar (1 / 3) a else a),
             full := false, flag := true, convAdded := [] }
  else { s with convAdded := [] }

/-! ### `EdgeAssemblyChanger.scaleParamsRelatedToSymmetry` (compared with the real code; outside `Op`/`run`) -/

/-- the first 120° image of a cell (the partner of a 0°-line cell on the 120° line) -/
def imageOf (c : Cell) : Cell := (-c.1 - c.2, c.1)

/-- test stimulus "what a flux solver on the model with edge assemblies hands back": both halves of every cut
assembly (0°-line assembly whose partner is modelled) carry half of the whole hexagon's stored values (the 0°-line
assembly's current ones). Assigning parameters sets the definitions' flag. -/
def solveHalves (s : State) : State :=
  let cut := fun (x : Assem) => on0 x.cell && occupied s.kids (imageOf x.cell)
  { s with
    kids := s.kids.map (fun x =>
      if cut x then scalePar (1 / 2) x
      else if on120 x.cell then
        match s.kids.find? (fun l => cut l && decide (imageOf l.cell = x.cell)) with
        | some l => { x with par := l.par.map (fun v => v * (1 / 2)) }
        | none => x
      else x),
    flag := s.flag || s.kids.any cut }

def leJ (a b : Assem) : Bool := decide (a.cell.2 ≤ b.cell.2)

/-- `scaleParamsRelatedToSymmetry(core)`: the assemblies on the 0° line and on the 120° line, each sorted by ring,
are zipped; every flagged volume-integrated parameter of the 0°-line member becomes its own value plus its partner's
(nothing is flagged right after `addEdgeAssemblies` cleared the flags: no-op). -/
def scaleSym (s : State) : State :=
  if !s.flag then s else
  let lower := (s.kids.filter (fun a => on0 a.cell)).mergeSort leI
  let upper := (s.kids.filter (fun a => on120 a.cell)).mergeSort leJ
  let pairs := lower.zip upper
  { s with kids := s.kids.map (fun x =>
      match pairs.find? (fun p => p.1.id = x.id) with
      | some p => { x with par := List.zipWith (· + ·) x.par p.2.par }
      | none => x) }

inductive Op | convert | restore | addEdge | removeEdge
deriving DecidableEq, Repr

/-- one operation -/
def step (s : State) : Op → State
  | .convert => convert s
  | .restore => restore s
  | .addEdge => addEdge s
  | .removeEdge => removeEdge s

def run (s : State) (ops : List Op) : State := ops.foldl step s

/-! ### `ThirdCoreHexToFullCoreChanger._scaleBlockVolIntegratedParams`, one parameter value -/

/-- what a block parameter can hold, as far as `_scaleBlockVolIntegratedParams` distinguishes: `None`, a Python
`list` (`type(v) is list`), anything else that supports `*` / `/` with 3 elementwise (float, numpy array) -/
inductive PVal where
  | none
  | list (l : List Rat)
  | scalar (q : Rat)
  | array (l : List Rat)
deriving DecidableEq, Repr

/-- one iteration of `for param in self.listOfVolIntegratedParamsToScale:` for direction "up" (`operator.mul`) or
"down" (`operator.truediv`): `None` is skipped, a list is rebuilt element by element, everything else is `op(v, 3)` -/
def scaleVal (up : Bool) : PVal → PVal
  | .none => .none
  | .list l => .list (l.map (fun x => if up then x * 3 else x / 3))
  | .scalar q => .scalar (if up then q * 3 else q / 3)
  | .array l => .array (l.map (fun x => if up then x * 3 else x / 3))

/-- `_scaleBlockVolIntegratedParams(b, direction)` on the values of the listed parameters of one block -/
def scaleBlockVals (up : Bool) (vals : List PVal) : List PVal := vals.map (scaleVal up)

/-! ### below block level: pin lattices (`block.spatialGrid`), their `armiObject` back references, child locators

What hangs below an assembly, as far as an observer of pins sees it.  Objects are named by the assembly they were
created for and their role in it: `(assemNum, role)`.  (The harness names the real objects the same way, by FIRST
encounter walking the core's children: an object met under two assemblies keeps the first name, so sharing shows up as
a name that does not carry the holder's number.)  The table `Sub` maps assembly numbers to block lists; the converters
never touch the entries of existing assemblies, they add entries for the copies they make. -/

abbrev Obj := Int × Nat

structure PBlock where
  /-- the block object -/
  self : Obj
  /-- `b.spatialGrid` (none: the block has no pin lattice) -/
  grid : Option Obj
  /-- `b.spatialGrid.armiObject` -/
  owner : Option Obj
  /-- every child locator that has a grid sits on `b.spatialGrid` -/
  onOwn : Bool
  /-- local (i, j) of the observed child-locator sites, in child / pin order -/
  pins : List (Int × Int)
  /-- `b.p.orientation[2]` in degrees -/
  orient : Int
  /-- the values of the CORNERS / EDGES block parameters that are lists / arrays (`[]` for unset ones), by name -/
  bnd : List (List Rat)
deriving DecidableEq, Repr

abbrev Sub := List (Int × List PBlock)

/-- the blocks of the assembly with number `k` -/
def subOf (sub : Sub) (k : Int) : List PBlock :=
  match sub.find? (fun e => e.1 = k) with
  | some e => e.2
  | none => []

def renObj (new : Int) (o : Obj) : Obj := (new, o.2)

/-- one block of `copy.deepcopy(a)` + `makeUnique` / `Core.add` renumbering to `new` + `HexBlock.rotate(rotNum·60°)`:
`Block.__deepcopy__` registers the new block in the memo first and deep-copies the state, so every object below the
block is new and references among them are kept; `Composite.__setstate__` then sets `spatialGrid.armiObject = self`
and associates every child locator with the copy's lattice; `_rotateChildLocations` maps every site through
`rotateIndex(rotNum)` and returns at once for a block without lattice; `HexBlock.rotate` then adds `rotNum·60` to the
orientation and `_rotateBoundaryParameters(rotNum)` pivots every 6-long corner / edge vector by the number of steps of
THIS turn (`Hex.rotBoundary`), whatever the orientation was before. -/
def copyBlock (new rotNum : Int) (b : PBlock) : PBlock :=
  { self := renObj new b.self
    grid := b.grid.map (renObj new)
    owner := if b.grid.isSome then some (renObj new b.self) else none
    onOwn := b.grid.isSome || b.onOwn
    pins := if b.grid.isSome then b.pins.map (rotateIndex rotNum) else b.pins
    orient := b.orient + rotNum * 60
    bnd := b.bnd.map (rotBoundary rotNum) }

/-- inner loop of `convert` (see `mkCopies`): `newAssem.rotate(count * 2π/3)`, i.e. `rotNum = 2·count` -/
def subCopies (sub : Sub) (a : Assem) : Int → Int → List Cell → Sub
  | _, _, [] => []
  | n, count, _ :: cs =>
    (n, (subOf sub a.id).map (copyBlock n (2 * count))) :: subCopies sub a (n + 1) (count + 1) cs

/-- outer loop of `convert` (see `convLoop`) -/
def subLoop (sub : Sub) : List Assem → Int → Sub
  | [], _ => []
  | a :: rest, n =>
    let cs := subCopies sub a n 1 (sym3 a.cell)
    cs ++ subLoop sub rest (n + cs.length)

/-- `ThirdCoreHexToFullCoreChanger.convert`, below block level -/
def subConvert (s : State) (sub : Sub) : Sub :=
  if s.full then sub else
  let s1 := removeEdgeCore s
  sub ++ subLoop sub (s1.kids.mergeSort leJI) s1.next

/-- `addEdgeAssemblies`, below block level (see `addEdgeLoop`; the edge copies are not rotated) -/
def subAddEdgeLoop : List Assem → State → Sub → Sub
  | [], _, sub => sub
  | a :: rest, s, sub =>
    match sym3 a.cell with
    | [] => subAddEdgeLoop rest s sub
    | loc :: _ =>
      if occupied s.kids loc then subAddEdgeLoop rest s sub
      else subAddEdgeLoop rest (placeEdge s a loc) (sub ++ [(s.next, (subOf sub a.id).map (copyBlock s.next 0))])

def subAddEdge (s : State) (sub : Sub) : Sub :=
  if s.full then sub
  else if !s.edgeAdded.isEmpty then sub
  else subAddEdgeLoop ((s.kids.filter (fun a => on0 a.cell)).mergeSort leI) s sub

/-- one operation below block level; `restorePreviousGeometry` / `removeEdgeAssemblies` only take assemblies out -/
def subStep (s : State) (sub : Sub) : Op → Sub
  | .convert => subConvert s sub
  | .addEdge => subAddEdge s sub
  | .restore => sub
  | .removeEdge => sub

def pstep (p : State × Sub) (op : Op) : State × Sub := (step p.1 op, subStep p.1 p.2 op)

def prun (p : State × Sub) (ops : List Op) : State × Sub := ops.foldl pstep p

end ArmiVerif.Sym3
