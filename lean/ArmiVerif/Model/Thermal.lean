/-
C03 model — thermal expansion of components (core Lean only, no Mathlib).

Transcribes
  armi/materials/material.py      Material.linearExpansionFactor, getThermalExpansionDensityReduction,
                                  Fluid.getThermalExpansionDensityReduction
  armi/reactor/components/component.py
                                  Component.getThermalExpansionFactor, setTemperature, getDimension,
                                  setDimension, _DimensionLink.resolveDimension, changeNDensByFactor
  armi/reactor/components/basicShapes.py, complexShapes.py, __init__.py (UnshapedComponent)
                                  getComponentArea and THERMAL_EXPANSION_DIMS of every 2-D shape class

The material is a PARAMETER: `pct : T → Rat` is `linearExpansionPercent(Tc = ·)` of whatever material the
component has (any function at all); fluids carry `rho : T → Rat` (`pseudoDensity`).
-/
namespace ArmiVerif.Thermal

/-! ## material.py -/

/-- `Material.linearExpansionFactor(Tc, T0)`: `(dLLhot - dLLcold) / (100.0 + dLLcold)` -/
def linExpFactor {T : Type} (pct : T → Rat) (Tc T0 : T) : Rat :=
  (pct Tc - pct T0) / (100 + pct T0)

/-- `Material.getThermalExpansionDensityReduction(prev, new)`: `1.0 / (1 + dLL) ** 2` -/
def densReduction {T : Type} (pct : T → Rat) (prev new : T) : Rat :=
  1 / ((1 + linExpFactor pct new prev) * (1 + linExpFactor pct new prev))

/-- `Fluid.getThermalExpansionDensityReduction`: `rho1 / rho0`, 1 when `rho0` is zero -/
def fluidDensReduction {T : Type} (rho : T → Rat) (prev new : T) : Rat :=
  if rho prev = 0 then 1 else rho new / rho prev

/-- solid / fluid-or-custom (the two classes `getThermalExpansionFactor` distinguishes) -/
inductive Kind where
  | solid | fluid
  deriving DecidableEq, Repr

/-- `Component.getThermalExpansionFactor(Tc, T0)` for a solid, without the error branch: `1.0 + dLL` -/
def expFactor {T : Type} (pct : T → Rat) (Tc T0 : T) : Rat := 1 + linExpFactor pct Tc T0

/-- `Component.getThermalExpansionFactor` with its error behaviour: fluids/custom → 1; a solid whose
correlation gives `dLL = 0` although the temperatures differ raises `RuntimeError` (`none`).
`same` is the code's `abs(Tc - T0) <= _TOLERANCE` test, decided by the caller. -/
def thermalExpansionFactor {T : Type} (k : Kind) (pct : T → Rat) (Tc T0 : T) (same : Bool) : Option Rat :=
  match k with
  | .fluid => some 1
  | .solid =>
    let dLL := linExpFactor pct Tc T0
    if dLL = 0 ∧ same = false then none else some (1 + dLL)

/-! ## number densities along a temperature path (`Component.setTemperature`) -/

/-- one `setTemperature(new)` of a solid: every number density times the density reduction -/
def stepND {T : Type} (pct : T → Rat) (prev new : T) (nd : List Rat) : List Rat :=
  nd.map (fun n => n * densReduction pct prev new)

def stepNDFluid {T : Type} (rho : T → Rat) (prev new : T) (nd : List Rat) : List Rat :=
  nd.map (fun n => n * fluidDensReduction rho prev new)

/-- state of the part of a component `setTemperature` touches -/
structure TState (T : Type) where
  temp : T
  nd : List Rat

def setTemperature {T : Type} (pct : T → Rat) (s : TState T) (new : T) : TState T :=
  { temp := new, nd := stepND pct s.temp new s.nd }

/-- a whole temperature history -/
def runPath {T : Type} (pct : T → Rat) (s : TState T) (path : List T) : TState T :=
  path.foldl (setTemperature pct) s

/-- a single density along a path (what `runPath` does to each entry) -/
def ndAlong {T : Type} (pct : T → Rat) : T → List T → Rat → Rat
  | _, [], n => n
  | t, t' :: rest, n => ndAlong pct t' rest (n * densReduction pct t t')

/-! ## areas: one function per 2-D shape class, generic in the scalar type.
`pi`, `sqrt3` are passed in (the driver uses the exact rational values of Python's `math.pi`,
`math.sqrt(3.0)`; the theorems hold for any values, in any field). -/

section Areas
variable {K : Type} [Add K] [Sub K] [Mul K] [Div K] [OfNat K 2] [OfNat K 4]

/-- `Circle.getComponentArea`: `math.pi * (od**2 - idiam**2) / 4.0 * mult` -/
def areaCircle (pi od id mult : K) : K := pi * (od * od - id * id) / 4 * mult

/-- `Hexagon.getComponentArea`: `math.sqrt(3.0) / 2.0 * (op**2 - ip**2) * mult` -/
def areaHexagon (sqrt3 op ip mult : K) : K := sqrt3 / 2 * (op * op - ip * ip) * mult

/-- `Rectangle.getComponentArea`: `mult * (lengthO * widthO - lengthI * widthI)` -/
def areaRectangle (lengthO widthO lengthI widthI mult : K) : K := mult * (lengthO * widthO - lengthI * widthI)

/-- `SolidRectangle.getComponentArea`: `mult * (lengthO * widthO)` -/
def areaSolidRectangle (lengthO widthO mult : K) : K := mult * (lengthO * widthO)

/-- `Square.getComponentArea`: `mult * (widthO * widthO - widthI * widthI)` -/
def areaSquare (widthO widthI mult : K) : K := mult * (widthO * widthO - widthI * widthI)

/-- `Triangle.getComponentArea`: `mult * base * height / 2.0` -/
def areaTriangle (base height mult : K) : K := mult * base * height / 2

/-- `HoledHexagon.getComponentArea`: `mult * (sqrt(3)/2 * op**2 - nHoles * pi * (holeOD/2)**2)` -/
def areaHoledHexagon (pi sqrt3 op holeOD nHoles mult : K) : K :=
  mult * (sqrt3 / 2 * (op * op) - nHoles * pi * ((holeOD / 2) * (holeOD / 2)))

/-- `HexHoledCircle.getComponentArea`: `mult * (pi * (od/2)**2 - sqrt(3)/2 * holeOP**2)` -/
def areaHexHoledCircle (pi sqrt3 od holeOP mult : K) : K :=
  mult * (pi * ((od / 2) * (od / 2)) - sqrt3 / 2 * (holeOP * holeOP))

/-- `HoledRectangle.getComponentArea`: `mult * (length * width - pi * (holeOD/2)**2)` -/
def areaHoledRectangle (pi lengthO widthO holeOD mult : K) : K :=
  mult * (lengthO * widthO - pi * ((holeOD / 2) * (holeOD / 2)))

/-- `HoledSquare.getComponentArea`: `mult * (width**2 - pi * (holeOD/2)**2)` -/
def areaHoledSquare (pi widthO holeOD mult : K) : K :=
  mult * (widthO * widthO - pi * ((holeOD / 2) * (holeOD / 2)))

/-- `Helix.getComponentArea`: `c = ap/(2 pi)`, `helixFactor = sqrt((hd/2)**2 + c**2)/c`,
`mult * pi * ((od/2)**2 - (id/2)**2) * helixFactor`; the square root is the parameter `root`
(`root = sqrt((hd/2)**2 + c**2)`), specified by `IsHelixRoot`. -/
def helixC (pi ap : K) : K := ap / (2 * pi)
def helixRadicand (pi ap hd : K) : K := (hd / 2) * (hd / 2) + helixC pi ap * helixC pi ap
def areaHelix (pi od id ap mult root : K) : K :=
  mult * pi * ((od / 2) * (od / 2) - (id / 2) * (id / 2)) * (root / helixC pi ap)

/-- `UnshapedComponent.getComponentArea`: `getThermalExpansionFactor(Tc) ** 2 * coldArea` -/
def areaUnshaped (factor coldArea : K) : K := factor * factor * coldArea

end Areas

/-! ## shape table: dimension names, `THERMAL_EXPANSION_DIMS`, area by name -/

inductive Shape where
  | Circle | Hexagon | Rectangle | SolidRectangle | Square | Triangle
  | HoledHexagon | HexHoledCircle | HoledRectangle | HoledSquare | Helix
  deriving DecidableEq, Repr

def Shape.all : List Shape :=
  [.Circle, .Hexagon, .Rectangle, .SolidRectangle, .Square, .Triangle,
   .HoledHexagon, .HexHoledCircle, .HoledRectangle, .HoledSquare, .Helix]

def Shape.name : Shape → String
  | .Circle => "Circle" | .Hexagon => "Hexagon" | .Rectangle => "Rectangle"
  | .SolidRectangle => "SolidRectangle" | .Square => "Square" | .Triangle => "Triangle"
  | .HoledHexagon => "HoledHexagon" | .HexHoledCircle => "HexHoledCircle"
  | .HoledRectangle => "HoledRectangle" | .HoledSquare => "HoledSquare" | .Helix => "Helix"

def Shape.ofName? (s : String) : Option Shape := Shape.all.find? (fun x => x.name = s)

/-- the dimensions each `getComponentArea` reads, in the order the driver receives them -/
def Shape.dims : Shape → List String
  | .Circle => ["od", "id", "mult"]
  | .Hexagon => ["op", "ip", "mult"]
  | .Rectangle => ["lengthOuter", "widthOuter", "lengthInner", "widthInner", "mult"]
  | .SolidRectangle => ["lengthOuter", "widthOuter", "mult"]
  | .Square => ["widthOuter", "widthInner", "mult"]
  | .Triangle => ["base", "height", "mult"]
  | .HoledHexagon => ["op", "holeOD", "nHoles", "mult"]
  | .HexHoledCircle => ["od", "holeOP", "mult"]
  | .HoledRectangle => ["lengthOuter", "widthOuter", "holeOD", "mult"]
  | .HoledSquare => ["widthOuter", "holeOD", "mult"]
  | .Helix => ["od", "id", "axialPitch", "helixDiameter", "mult"]

/-- `THERMAL_EXPANSION_DIMS` of each class as written in the source (sorted; `Square` inherits
`Rectangle`'s set). `Gen/Shapes.lean` holds what the classes say on this run; `Props/C03Gen.lean`
checks the two agree. -/
def Shape.expDims : Shape → List String
  | .Circle => ["id", "od"]
  | .Hexagon => ["ip", "op"]
  | .Rectangle => ["lengthInner", "lengthOuter", "widthInner", "widthOuter"]
  | .SolidRectangle => ["lengthOuter", "widthOuter"]
  | .Square => ["lengthInner", "lengthOuter", "widthInner", "widthOuter"]
  | .Triangle => ["base", "height"]
  | .HoledHexagon => ["holeOD", "op"]
  | .HexHoledCircle => ["holeOP", "od"]
  | .HoledRectangle => ["holeOD", "lengthOuter", "widthOuter"]
  | .HoledSquare => ["holeOD", "widthOuter"]
  | .Helix => ["axialPitch", "helixDiameter", "id", "od"]

/-- area of a shape from a dimension valuation (`root` only matters for `Helix`) -/
def Shape.area (s : Shape) (pi sqrt3 root : Rat) (d : String → Rat) : Rat :=
  match s with
  | .Circle => areaCircle pi (d "od") (d "id") (d "mult")
  | .Hexagon => areaHexagon sqrt3 (d "op") (d "ip") (d "mult")
  | .Rectangle => areaRectangle (d "lengthOuter") (d "widthOuter") (d "lengthInner") (d "widthInner") (d "mult")
  | .SolidRectangle => areaSolidRectangle (d "lengthOuter") (d "widthOuter") (d "mult")
  | .Square => areaSquare (d "widthOuter") (d "widthInner") (d "mult")
  | .Triangle => areaTriangle (d "base") (d "height") (d "mult")
  | .HoledHexagon => areaHoledHexagon pi sqrt3 (d "op") (d "holeOD") (d "nHoles") (d "mult")
  | .HexHoledCircle => areaHexHoledCircle pi sqrt3 (d "od") (d "holeOP") (d "mult")
  | .HoledRectangle => areaHoledRectangle pi (d "lengthOuter") (d "widthOuter") (d "holeOD") (d "mult")
  | .HoledSquare => areaHoledSquare pi (d "widthOuter") (d "holeOD") (d "mult")
  | .Helix => areaHelix pi (d "od") (d "id") (d "axialPitch") (d "mult") root

/-- multiply exactly the dimensions named in `exp` by `f` (what `getDimension` does to the cold values) -/
def scaleDims (exp : List String) (f : Rat) (d : String → Rat) : String → Rat :=
  fun k => if exp.contains k then f * d k else d k

/-! ## components with dimension links (`getDimension`, `setDimension`, `_DimensionLink`) -/

/-- a stored dimension: a number, or a link `(component index, dimension name)` -/
inductive Dim where
  | val (q : Rat)
  | link (comp : Nat) (key : String)
  deriving Repr

structure Comp where
  kind : Kind
  /-- `getThermalExpansionFactor()` of this component at its current temperatures
  (`none` = the call raises); computed by `thermalExpansionFactor` from the measured `pct` values -/
  factor : Option Rat
  expDims : List String
  dims : List (String × Dim)

def Comp.dim? (c : Comp) (key : String) : Option Dim := (c.dims.find? (fun p => p.1 = key)).map (·.2)

/-- `Component.getDimension(key, cold=cold)` (Tc = None). Links are resolved on the linked component with the
same `cold` flag, recursively (`fuel` bounds the chain length; a cycle is `none`, the code recurses for ever).
`not dimension or cold or key not in THERMAL_EXPANSION_DIMS` → stored value; else factor × stored value. -/
def getDimension (sys : List Comp) : Nat → Nat → String → Bool → Option Rat
  | 0, _, _, _ => none
  | fuel + 1, i, key, cold =>
    match sys[i]? with
    | none => none
    | some c =>
      match c.dim? key with
      | none => none
      | some (.link j k) => getDimension sys fuel j k cold
      | some (.val q) =>
        if q = 0 ∨ cold = true ∨ ¬ c.expDims.contains key then some q
        else match c.factor with
          | none => none
          | some f => some (f * q)

/-- `Component.setDimension(key, val, retainLink=False, cold=cold)`: a hot value is divided by the expansion
factor (1 for a non-expanding dimension) and stored, replacing a link if there was one. -/
def setDimension (c : Comp) (key : String) (v : Rat) (cold : Bool) : Option Comp :=
  let stored : Option Rat :=
    if cold then some v
    else if c.expDims.contains key then c.factor.map (fun f => v / f) else some v
  stored.map (fun q => { c with dims := c.dims.map (fun p => if p.1 = key then (p.1, Dim.val q) else p) })

/-- `Component.setDimension(key, val, retainLink, cold)` inside a block: with `retainLink` and a linked
dimension the value is set on the link target (`linkedComp.setDimension(linkedDimName, val, cold=cold)`, which
itself does not retain links); otherwise on the component itself, dropping the link. -/
def setDimensionAt (sys : List Comp) (i : Nat) (key : String) (v : Rat) (cold retain : Bool) :
    Option (List Comp) :=
  match sys[i]? with
  | none => none
  | some c =>
    match retain, c.dim? key with
    | true, some (.link j k) =>
      match sys[j]? with
      | none => none
      | some t => (setDimension t k v cold).map (fun t' => sys.set j t')
    | _, _ => (setDimension c key v cold).map (fun c' => sys.set i c')

/-- `getDimension(key, Tc=T)`: every component met along the link chain is evaluated with ITS material's
expansion factor at the given temperature `T` (the `Tc` argument is passed through `resolveDimension`), not
at its own current temperature.  `factorsAtTc[i]` is `getThermalExpansionFactor(Tc=T)` of component `i`. -/
def atTemperature (factorsAtTc : List (Option Rat)) (sys : List Comp) : List Comp :=
  (sys.zip factorsAtTc).map (fun p => { p.1 with factor := p.2 })

def getDimensionTc (sys : List Comp) (factorsAtTc : List (Option Rat)) (fuel i : Nat) (key : String) : Option Rat :=
  getDimension (atTemperature factorsAtTc sys) fuel i key false

/-! ## the derived (left-over) shape: `DerivedShape.getComponentArea` -/

/-- `parent.getMaxArea() − Σ sibling areas`, at whatever condition (current, cold, or `Tc`) the sibling areas
and the block's max area are taken.  The derived component's own temperature does not enter. -/
def derivedArea (maxArea : Rat) (sibAreas : List Rat) : Rat := maxArea - sibAreas.foldr (· + ·) 0

/-! ## rational square root for the driver (Helix); precision 10^-30 relative to the scale of the input -/

def sqrtApprox (q : Rat) : Rat :=
  if q ≤ 0 then 0 else
  let s : Nat := 10 ^ 40
  -- sqrt(n/d) = sqrt(n*d)/d ;  sqrt(n*d) ≈ Nat.sqrt(n*d*s^2)/s
  let n := q.num.toNat
  let d := q.den
  mkRat (Nat.sqrt (n * d * s * s)) (d * s)

end ArmiVerif.Thermal
